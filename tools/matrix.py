#!/usr/bin/env python3
"""Development aid: run the checks against patches without touching /repo.

usage: python3-vt tools/matrix.py [--all-props] [--benign] <dir-or-patch>...

Each patch is applied to a temporary copy of the files it touches (outside
/repo and /verif, removed afterwards); the patched sources are handed to the
checkers as in-memory overrides.  For a seeded change the own property (from
the directory name Cxx...) must report a new finding; for a benign change no
property may report anything new.
"""
import json
import os
import re
import shutil
import subprocess
import sys
import tempfile
from concurrent.futures import ProcessPoolExecutor

sys.path.insert(0, os.path.dirname(os.path.dirname(os.path.abspath(__file__))))

from chk import loader  # noqa: E402


def patched_sources(patch):
    with open(patch) as f:
        text = f.read()
    files = sorted(set(re.findall(r'^\+\+\+ b/(\S+)', text, re.M)))
    tmp = tempfile.mkdtemp(prefix='mx-', dir='/dev/shm' if os.path.isdir(
        '/dev/shm') else None)
    try:
        for rel in files:
            src = os.path.join(loader.REPO, rel)
            dst = os.path.join(tmp, rel)
            os.makedirs(os.path.dirname(dst), exist_ok=True)
            if os.path.exists(src):
                shutil.copy(src, dst)
        r = subprocess.run(['patch', '-p1', '-s', '--fuzz=3', '-i',
                            os.path.abspath(patch)], cwd=tmp,
                           capture_output=True, text=True)
        if r.returncode != 0:
            return None, r.stdout + r.stderr
        out = {}
        for rel in files:
            if rel.endswith(('.py', '.xml')) and rel.startswith('chi/') \
                    and 'tests' not in rel:
                with open(os.path.join(tmp, rel)) as f:
                    out[rel] = f.read()
        return out, ''
    finally:
        shutil.rmtree(tmp, ignore_errors=True)


def run_one(args):
    name, patch, pid = args
    from chk import run as runner
    ov, err = patched_sources(patch)
    if ov is None:
        return name, pid, 'PATCH-FAILED', err[:200]
    try:
        repo = loader.Repo(overrides=ov)
    except loader.AnalysisError as e:
        return name, pid, 'ERROR', str(e)
    rc, ev, ctx = runner.run_property(pid, 'quick', repo=repo, write=False,
                                      quiet=True, selftest=False)
    new = ctx.new
    info = '; '.join('%s %s [%s]' % (f['rule'], f['construct'], f['key'][:60])
                     for f in new[:4])
    if ctx.errors:
        info += ' || ERR ' + '; '.join(ctx.errors)[:300]
    status = 'VIOLATION' if rc == 1 else 'ERROR' if rc == 2 else 'ok'
    return name, pid, status, info


def main():
    args = sys.argv[1:]
    all_props = '--all-props' in args
    benign = '--benign' in args
    args = [a for a in args if not a.startswith('--')]
    from chk import props
    todo = []
    for a in args:
        if os.path.isdir(a):
            for root, dirs, files in sorted(os.walk(a)):
                dirs.sort()
                if 'patch.diff' in files:
                    todo.append(os.path.join(root, 'patch.diff'))
        else:
            todo.append(a)
    jobs = []
    for p in todo:
        name = os.path.relpath(os.path.dirname(p), '/')
        m = re.findall(r'C\d\d', p)
        own = m[-1] if m and not benign else None
        pids = sorted(props.PROPS) if (all_props or benign or not own) \
            else [own]
        for pid in pids:
            jobs.append((name, p, pid))
    res = {}
    with ProcessPoolExecutor(max_workers=16) as ex:
        for name, pid, status, info in ex.map(run_one, jobs):
            res.setdefault(name, {})[pid] = (status, info)
    caught = 0
    for name in sorted(res):
        m = re.findall(r'C\d\d', name)
        own = m[-1] if m and not benign else None
        r = res[name]
        if benign:
            bad = {p: v for p, v in r.items() if v[0] != 'ok'}
            print('%-28s %s' % (name, 'silent' if not bad else 'ALARM'))
            for p, v in sorted(bad.items()):
                print('      %s %s %s' % (p, v[0], v[1][:260]))
            continue
        st, info = r.get(own, ('-', ''))
        others = sorted(p for p, v in r.items()
                        if p != own and v[0] == 'VIOLATION')
        if st == 'VIOLATION':
            caught += 1
        print('%-28s own=%-9s %s%s' % (
            name, st, info[:200],
            ('  others=' + ','.join(others)) if others else ''))
    if not benign:
        print('caught by own property: %d / %d' % (caught, len(res)))


if __name__ == '__main__':
    main()
