#!/usr/bin/env python3
"""Confirm candidate seeded changes in scratch worktrees (outside /repo and
/verif; each removed as soon as it is done).

usage: python3 tools/confirm.py [--benign] <round> <srcdir> [<Cxx/mK> ...]
  --benign: a behaviour-preserving refactoring; the demonstration must pass
            on the clean tree AND with the patch
  srcdir has <Cxx>/<mK>/{patch.diff,demo.py,notes.md}

For every candidate: the demonstration must exit 0 on the clean tree and
non-zero with the patch; the stable tests of /root/.vp/BASELINE.json must all
still pass with the patch.  Writes <srcdir>/<Cxx>/<mK>/meta.json.
"""
import ast
import json
import os
import re
import subprocess
import sys
import xml.etree.ElementTree as ET
from concurrent.futures import ThreadPoolExecutor

PY = '/venv/bin/python'
BENIGN = False
BASE = json.load(open('/root/.vp/BASELINE.json'))
STABLE = set(ast.literal_eval(BASE['stable_pass']) if isinstance(
    BASE['stable_pass'], str) else BASE['stable_pass'])
PROPS = {json.loads(l)['id']: json.loads(l)
         for l in open('/verif/properties.jsonl') if l.strip()}


def sh(cmd, cwd=None, timeout=1500):
    r = subprocess.run(cmd, shell=True, cwd=cwd, capture_output=True,
                       text=True, timeout=timeout)
    return r.returncode, (r.stdout + r.stderr)


def one(args):
    rnd, src, rel = args
    d = os.path.join(src, rel)
    pid = rel.split('/')[0][:3]
    wt = '/tmp/cf-%s-%s' % (rnd, rel.replace('/', '-'))
    meta = dict(property=pid, title=PROPS[pid]['title'], round=rnd)
    try:
        sh('git -C /repo worktree remove --force %s' % wt)
        rc, out = sh('git -C /repo worktree add --detach %s HEAD' % wt)
        if rc:
            meta['error'] = out[-300:]
            return rel, meta
        head = sh('git -C %s rev-parse --short HEAD' % wt)[1].strip()
        demo = os.path.join(d, 'demo.py')
        env = 'cd %s && PYTHONWARNINGS=ignore ' % wt
        rc0, out0 = sh(env + '%s %s' % (PY, demo), timeout=900)
        rca, outa = sh('git -C %s apply %s' % (wt, os.path.join(
            d, 'patch.diff')))
        if rca:
            meta['error'] = 'patch does not apply: ' + outa[-300:]
            return rel, meta
        files = sh('git -C %s diff --name-only' % wt)[1].split()
        rc1, out1 = sh(env + '%s %s' % (PY, demo), timeout=900)
        xml = '/tmp/cf-%s-%s.xml' % (rnd, rel.replace('/', '-'))
        rct, outt = sh(env + '%s -m pytest -q -p no:cacheprovider '
                       '--timeout=900 --continue-on-collection-errors '
                       '--junitxml=%s' % (PY, xml), timeout=1500)
        passed = set()
        try:
            for tc in ET.parse(xml).getroot().iter('testcase'):
                if not any(c.tag in ('failure', 'error', 'skipped')
                           for c in tc):
                    passed.add('%s::%s' % (tc.get('classname'),
                                           tc.get('name')))
        except Exception as e:      # noqa
            meta['error'] = 'junit: %r' % e
        finally:
            if os.path.exists(xml):
                os.remove(xml)
        missing = sorted(STABLE - passed)
        tail = [l for l in outt.strip().splitlines() if 'passed' in l
                or 'failed' in l][-1:]
        fail_line = [l for l in out1.strip().splitlines() if l.strip()][-1:]
        meta.update(dict(
            id=None, files=files,
            written_by='independent sub-agent given only the property '
                       'record, a count of already used code sites and a '
                       'scratch worktree (round %s)' % rnd,
            needs_to_manifest='see notes.md (written by the sub-agent)',
            confirmed=dict(
                base_commit=head,
                demo_on_clean_tree_exit=rc0,
                demo_with_patch_exit=rc1,
                demo_failure=(fail_line[0][:300] if fail_line else ''),
                test_suite_with_patch=(tail[0].strip() if tail else ''),
                stable_tests_missing=missing[:10],
                stable_tests_still_passing=not missing and len(passed) > 0,
                commands=[
                    'cd <worktree> && /venv/bin/python demo.py  (exit 0 on '
                    'the clean tree)',
                    'git apply patch.diff && /venv/bin/python demo.py  '
                    '(non-zero exit)',
                    '/venv/bin/python -m pytest -q -p no:cacheprovider '
                    '--timeout=900 --continue-on-collection-errors '
                    '--junitxml=...  (all 346 stable tests pass)'])))
        ok = rc0 == 0 and (rc1 == 0 if BENIGN else rc1 != 0) \
            and not missing and passed
        meta['keep'] = bool(ok)
        if rc0 != 0:
            meta['clean_output'] = out0[-400:]
    finally:
        sh('git -C /repo worktree remove --force %s' % wt)
        sh('rm -rf %s' % wt)
    with open(os.path.join(d, 'meta.json'), 'w') as f:
        json.dump(meta, f, indent=1)
    return rel, meta


def main():
    global BENIGN
    args = [a for a in sys.argv[1:] if a != '--benign']
    BENIGN = '--benign' in sys.argv
    rnd, src = args[0], args[1]
    rels = args[2:]
    if not rels:
        for p in sorted(os.listdir(src)):
            if re.fullmatch(r'C\d\d(_C\d\d)?', p):
                for m in sorted(os.listdir(os.path.join(src, p))):
                    if os.path.exists(os.path.join(src, p, m, 'patch.diff')):
                        rels.append('%s/%s' % (p, m))
    with ThreadPoolExecutor(max_workers=8) as ex:
        for rel, meta in ex.map(one, [(rnd, src, r) for r in rels]):
            c = meta.get('confirmed', {})
            print(rel, 'KEEP' if meta.get('keep') else 'DROP',
                  c.get('demo_on_clean_tree_exit'),
                  c.get('demo_with_patch_exit'),
                  c.get('test_suite_with_patch'), meta.get('error', ''),
                  flush=True)


if __name__ == '__main__':
    main()
