"""Development aid: print a source range without docstrings and comments."""
import ast, sys
def strip(path, lo, hi):
    src = open(path).read()
    tree = ast.parse(src)
    doc = set()
    for n in ast.walk(tree):
        if isinstance(n, (ast.FunctionDef, ast.ClassDef, ast.Module)):
            b = n.body
            if b and isinstance(b[0], ast.Expr) and isinstance(b[0].value, ast.Constant) and isinstance(b[0].value.value, str):
                doc.update(range(b[0].lineno, b[0].end_lineno + 1))
    for i, l in enumerate(src.split('\n'), 1):
        if i < lo or i > hi or i in doc: continue
        s = l.strip()
        if not s or s.startswith('#'): continue
        print('%d\t%s' % (i, l))
if __name__ == '__main__':
    strip(sys.argv[1], int(sys.argv[2]), int(sys.argv[3]))
