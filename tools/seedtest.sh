#!/bin/bash
# usage: seedtest.sh <patch.diff> <pid> [<pid>...]  — apply a seeded change to /repo, run checks, undo.
patch=$1; shift
cd /repo || exit 3
if ! git diff --quiet; then echo "REPO DIRTY"; exit 3; fi
if ! git apply "$patch" 2>/dev/null; then
  if ! patch -p1 -s --fuzz=3 < "$patch"; then echo "PATCH-FAILED $patch"; git checkout -- .; find . -name '*.rej' -o -name '*.orig' | xargs -r rm; exit 4; fi
fi
cd /verif
for pid in "$@"; do
  python3-vt -m chk "$pid" --tier "${TIER:-quick}" 2>&1 | grep -v '^KNOWN-FINDING' | cut -c1-400
done
cd /repo && git checkout -- . && find . \( -name '*.rej' -o -name '*.orig' \) -not -path './.git/*' | xargs -r rm
git status --short | head -3
