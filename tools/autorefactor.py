#!/usr/bin/env python3
"""Development aid: automatic behaviour-preserving rewrites of the whole
source, used to find rules that depend on incidental spelling.

usage: python3-vt tools/autorefactor.py <transform> [props...]
  rename   every local variable (not parameters, not attributes, not names
           used by nested scopes) gets the suffix `_rn`
  swapif   `if c: A else: B`  ->  `if not (c): B else: A`
           (only two-armed ifs without elif)
  temps    `return <expr>` -> `result_rn = <expr>; return result_rn`

The rewritten sources are handed to the checkers in memory (nothing is
written to /repo); every property must stay silent.
"""
import ast
import os
import sys
from concurrent.futures import ProcessPoolExecutor

sys.path.insert(0, os.path.dirname(os.path.dirname(os.path.abspath(__file__))))

from chk import loader  # noqa: E402


class Rename(ast.NodeTransformer):
    def visit_FunctionDef(self, fn):
        params = {a.arg for a in fn.args.args + fn.args.kwonlyargs
                  + fn.args.posonlyargs}
        if fn.args.vararg:
            params.add(fn.args.vararg.arg)
        if fn.args.kwarg:
            params.add(fn.args.kwarg.arg)
        stored = set()
        nested = False
        for n in ast.walk(fn):
            if n is not fn and isinstance(n, (ast.FunctionDef, ast.Lambda,
                                              ast.ClassDef)):
                nested = True
            if isinstance(n, ast.Name) and isinstance(n.ctx, ast.Store):
                stored.add(n.id)
            if isinstance(n, (ast.Global, ast.Nonlocal)):
                nested = True
        if nested:
            return fn
        # comprehension targets live in their own scope but renaming them
        # consistently everywhere in the function is still exact
        ren = {v: v + '_rn' for v in stored
               if v not in params and not v.startswith('_')}

        class R(ast.NodeTransformer):
            def visit_Name(self, n):
                if n.id in ren:
                    return ast.copy_location(
                        ast.Name(id=ren[n.id], ctx=n.ctx), n)
                return n
        fn.body = [R().visit(s) for s in fn.body]
        return fn


class SwapIf(ast.NodeTransformer):
    def visit_If(self, n):
        self.generic_visit(n)
        if n.orelse and not (len(n.orelse) == 1 and isinstance(
                n.orelse[0], ast.If)):
            return ast.copy_location(ast.If(
                test=ast.UnaryOp(op=ast.Not(), operand=n.test),
                body=n.orelse, orelse=n.body), n)
        return n


class Temps(ast.NodeTransformer):
    def visit_FunctionDef(self, fn):
        self.generic_visit(fn)

        def fix(stmts):
            out = []
            for s in stmts:
                for attr in ('body', 'orelse', 'finalbody'):
                    sub = getattr(s, attr, None)
                    if isinstance(sub, list) and sub and isinstance(
                            sub[0], ast.stmt):
                        setattr(s, attr, fix(sub))
                for h in getattr(s, 'handlers', []) or []:
                    h.body = fix(h.body)
                if isinstance(s, ast.Return) and s.value is not None \
                        and not isinstance(s.value, (ast.Name,
                                                     ast.Constant)):
                    out.append(ast.copy_location(ast.Assign(
                        targets=[ast.Name(id='result_rn', ctx=ast.Store())],
                        value=s.value, lineno=s.lineno), s))
                    out.append(ast.copy_location(ast.Return(
                        value=ast.Name(id='result_rn', ctx=ast.Load())), s))
                else:
                    out.append(s)
            return out
        fn.body = fix(fn.body)
        return fn


class Inline(ast.NodeTransformer):
    """`t = <expr>` directly followed by a statement that is the only reader
    of `t` (and reads it once): substitute the expression."""

    def visit_FunctionDef(self, fn):
        self.generic_visit(fn)
        counts = {}
        for n in ast.walk(fn):
            if isinstance(n, ast.Name):
                k = (n.id, type(n.ctx).__name__)
                counts[k] = counts.get(k, 0) + 1

        def pure(e):
            return not any(isinstance(x, (ast.Call, ast.Yield, ast.Await))
                           for x in ast.walk(e))

        def fix(stmts):
            out = []
            i = 0
            while i < len(stmts):
                s = stmts[i]
                for attr in ('body', 'orelse', 'finalbody'):
                    sub = getattr(s, attr, None)
                    if isinstance(sub, list) and sub and isinstance(
                            sub[0], ast.stmt):
                        setattr(s, attr, fix(sub))
                for h in getattr(s, 'handlers', []) or []:
                    h.body = fix(h.body)
                if isinstance(s, ast.Assign) and len(s.targets) == 1 \
                        and isinstance(s.targets[0], ast.Name) \
                        and i + 1 < len(stmts) and pure(s.value):
                    name = s.targets[0].id
                    nxt = stmts[i + 1]
                    uses = [x for x in ast.walk(nxt) if isinstance(
                        x, ast.Name) and x.id == name and isinstance(
                        x.ctx, ast.Load)]
                    simple = isinstance(nxt, (ast.Assign, ast.Return,
                                              ast.Expr, ast.AugAssign))
                    if simple and len(uses) == 1 and counts.get(
                            (name, 'Load'), 0) == 1 and counts.get(
                            (name, 'Store'), 0) == 1:
                        val = s.value

                        class R(ast.NodeTransformer):
                            def visit_Name(self, x):
                                if x.id == name and isinstance(
                                        x.ctx, ast.Load):
                                    return val
                                return x
                        out.append(R().visit(nxt))
                        i += 2
                        continue
                out.append(s)
                i += 1
            return out
        fn.body = fix(fn.body)
        return fn


class Kwargs(ast.NodeTransformer):
    """positional arguments of calls to methods of the same class become
    keyword arguments (the callee is resolved by name in the class)."""

    def visit_ClassDef(self, c):
        sigs = {}
        for m in c.body:
            if isinstance(m, ast.FunctionDef) and not m.args.vararg \
                    and not m.args.posonlyargs:
                sigs[m.name] = [a.arg for a in m.args.args][1:]

        class R(ast.NodeTransformer):
            def visit_Call(self, n):
                self.generic_visit(n)
                f = n.func
                if isinstance(f, ast.Attribute) and isinstance(
                        f.value, ast.Name) and f.value.id == 'self' \
                        and f.attr in sigs and n.args and not any(
                            isinstance(a, ast.Starred) for a in n.args) \
                        and len(n.args) <= len(sigs[f.attr]):
                    names = sigs[f.attr]
                    n.keywords = [ast.keyword(arg=names[i], value=a)
                                  for i, a in enumerate(n.args)] + n.keywords
                    n.args = []
                return n
        return R().visit(c)


TRANSFORMS = {'rename': Rename, 'swapif': SwapIf, 'temps': Temps,
              'inline': Inline, 'kwargs': Kwargs}


def rewritten(kind):
    base = loader.Repo()
    out = {}
    for rel, src in base.sources.items():
        tree = ast.parse(src)
        tree = TRANSFORMS[kind]().visit(tree)
        ast.fix_missing_locations(tree)
        out[rel] = ast.unparse(tree)
    return out


def run_one(args):
    kind, pid = args
    from chk import run as runner
    repo = loader.Repo(overrides=rewritten(kind))
    rc, ev, ctx = runner.run_property(pid, 'quick', repo=repo, write=False,
                                      quiet=True, selftest=False,
                                      pooled=False)
    info = '; '.join('%s %s [%s]' % (f['rule'], f['construct'],
                                     f['key'][:50]) for f in ctx.new[:5])
    if ctx.errors:
        info += ' || ERR ' + '; '.join(ctx.errors)[:400]
    return pid, rc, info


def main():
    kind = sys.argv[1]
    from chk import props
    pids = sys.argv[2:] or sorted(props.PROPS)
    with ProcessPoolExecutor(max_workers=16) as ex:
        for pid, rc, info in ex.map(run_one, [(kind, p) for p in pids]):
            print('%s %-9s %s' % (pid, {0: 'silent', 1: 'VIOLATION',
                                        2: 'ERROR'}[rc], info[:600]))


if __name__ == '__main__':
    main()
