#!/usr/bin/env python3
"""Development aid: automatic behaviour-preserving rewrites of the whole
source, used to find rules that depend on incidental spelling.

usage: python3-vt tools/autorefactor.py <transform> [props...]
  rename   every local variable (not parameters, not attributes, not names
           used by nested scopes) gets the suffix `_rn`
  swapif   `if c: A else: B`  ->  `if not (c): B else: A`
           (only two-armed ifs without elif)
  temps    `return <expr>` -> `result_rn = <expr>; return result_rn`

The rewritten sources are handed to the checkers in memory (nothing is
written to /repo); every property must stay silent.
"""
import ast
import os
import sys
from concurrent.futures import ProcessPoolExecutor

sys.path.insert(0, os.path.dirname(os.path.dirname(os.path.abspath(__file__))))

from chk import loader  # noqa: E402


class Rename(ast.NodeTransformer):
    def visit_FunctionDef(self, fn):
        params = {a.arg for a in fn.args.args + fn.args.kwonlyargs
                  + fn.args.posonlyargs}
        if fn.args.vararg:
            params.add(fn.args.vararg.arg)
        if fn.args.kwarg:
            params.add(fn.args.kwarg.arg)
        stored = set()
        nested = False
        for n in ast.walk(fn):
            if n is not fn and isinstance(n, (ast.FunctionDef, ast.Lambda,
                                              ast.ClassDef)):
                nested = True
            if isinstance(n, ast.Name) and isinstance(n.ctx, ast.Store):
                stored.add(n.id)
            if isinstance(n, (ast.Global, ast.Nonlocal)):
                nested = True
        if nested:
            return fn
        # comprehension targets live in their own scope but renaming them
        # consistently everywhere in the function is still exact
        ren = {v: v + '_rn' for v in stored
               if v not in params and not v.startswith('_')}

        class R(ast.NodeTransformer):
            def visit_Name(self, n):
                if n.id in ren:
                    return ast.copy_location(
                        ast.Name(id=ren[n.id], ctx=n.ctx), n)
                return n
        fn.body = [R().visit(s) for s in fn.body]
        return fn


class SwapIf(ast.NodeTransformer):
    def visit_If(self, n):
        self.generic_visit(n)
        if n.orelse and not (len(n.orelse) == 1 and isinstance(
                n.orelse[0], ast.If)):
            return ast.copy_location(ast.If(
                test=ast.UnaryOp(op=ast.Not(), operand=n.test),
                body=n.orelse, orelse=n.body), n)
        return n


class Temps(ast.NodeTransformer):
    def visit_FunctionDef(self, fn):
        self.generic_visit(fn)

        def fix(stmts):
            out = []
            for s in stmts:
                for attr in ('body', 'orelse', 'finalbody'):
                    sub = getattr(s, attr, None)
                    if isinstance(sub, list) and sub and isinstance(
                            sub[0], ast.stmt):
                        setattr(s, attr, fix(sub))
                for h in getattr(s, 'handlers', []) or []:
                    h.body = fix(h.body)
                if isinstance(s, ast.Return) and s.value is not None \
                        and not isinstance(s.value, (ast.Name,
                                                     ast.Constant)):
                    out.append(ast.copy_location(ast.Assign(
                        targets=[ast.Name(id='result_rn', ctx=ast.Store())],
                        value=s.value, lineno=s.lineno), s))
                    out.append(ast.copy_location(ast.Return(
                        value=ast.Name(id='result_rn', ctx=ast.Load())), s))
                else:
                    out.append(s)
            return out
        fn.body = fix(fn.body)
        return fn


TRANSFORMS = {'rename': Rename, 'swapif': SwapIf, 'temps': Temps}


def rewritten(kind):
    base = loader.Repo()
    out = {}
    for rel, src in base.sources.items():
        tree = ast.parse(src)
        tree = TRANSFORMS[kind]().visit(tree)
        ast.fix_missing_locations(tree)
        out[rel] = ast.unparse(tree)
    return out


def run_one(args):
    kind, pid = args
    from chk import run as runner
    repo = loader.Repo(overrides=rewritten(kind))
    rc, ev, ctx = runner.run_property(pid, 'quick', repo=repo, write=False,
                                      quiet=True, selftest=False,
                                      pooled=False)
    info = '; '.join('%s %s [%s]' % (f['rule'], f['construct'],
                                     f['key'][:50]) for f in ctx.new[:5])
    if ctx.errors:
        info += ' || ERR ' + '; '.join(ctx.errors)[:400]
    return pid, rc, info


def main():
    kind = sys.argv[1]
    from chk import props
    pids = sys.argv[2:] or sorted(props.PROPS)
    with ProcessPoolExecutor(max_workers=16) as ex:
        for pid, rc, info in ex.map(run_one, [(kind, p) for p in pids]):
            print('%s %-9s %s' % (pid, {0: 'silent', 1: 'VIOLATION',
                                        2: 'ERROR'}[rc], info[:600]))


if __name__ == '__main__':
    main()
