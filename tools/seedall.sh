#!/bin/bash
# Run every stored seeded change against the check of its own property (and optionally others).
# usage: seedall.sh [pid-filter]
cd /verif
for d in seeded/*/; do
  sid=$(basename $d); pid=${sid%%-*}
  [ -n "$1" ] && [ "$pid" != "$1" ] && continue
  grep -q "\"property_id\": \"$pid\"" MANIFEST.json || { echo "$sid unclaimed"; continue; }
  out=$(tools/seedtest.sh /verif/$d/patch.diff $pid 2>&1)
  v=$(echo "$out" | grep -c '^VIOLATION'); e=$(echo "$out" | grep -c 'ANALYSIS-ERROR\|PATCH-FAILED\|DIRTY')
  echo "$sid violations=$v errors=$e $(echo "$out" | grep '^VIOLATION' | sed 's/.*reports.//' | cut -c1-70 | head -1)"
done
