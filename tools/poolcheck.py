#!/usr/bin/env python3
"""Development aid: fast regression of *all rules at once* against patches.

usage: python3-vt tools/poolcheck.py <dir-or-patch>...

Every rule of chk/props.py is run once, unscoped, on the clean tree and on the
tree with each patch applied in memory (run.pooled_findings).  A patch is
'silent' when the set of (rule, construct, key) findings and the set of
analysis errors are the same as on the clean tree.  This is the union over all
20 properties of what tools/matrix.py --benign decides (a property's check
reports a subset of the pooled findings), at a twentieth of the cost; it does
not say *which* property's check reports.
"""
import os
import sys
from concurrent.futures import ProcessPoolExecutor

sys.path.insert(0, os.path.dirname(os.path.dirname(os.path.abspath(__file__))))

from chk import loader, report  # noqa: E402
from matrix import patched_sources  # noqa: E402


def pool(repo):
    from chk import props
    from chk.rules import lint, cursors
    rules = {}
    for pid in sorted(props.PROPS):
        for r in props.PROPS[pid]['quick']:
            name = r.__name__
            if name.startswith('r00_') or name.startswith('r05_4_'):
                continue
            rules.setdefault((getattr(r, '__module__', ''), name), r)
    rules[('lint', 'r00')] = lint.r00
    rules[('cursors', 'r05_4')] = cursors.r05_4
    ctx = report.Ctx('POOL', 'quick', quiet=True)
    errs = []
    for key in sorted(rules):
        try:
            rules[key](ctx, repo)
        except Exception as e:      # noqa
            errs.append('%s: %s: %s' % (key[1], type(e).__name__,
                                        str(e)[:150]))
    finds = {}
    for f in ctx.findings:
        finds[(f['rule'], f['construct'], f['key'])] = f['msg']
    return finds, sorted(set(errs) | set(ctx.errors))


def run_one(patch):
    ov, err = patched_sources(patch)
    if ov is None:
        return patch, None, ['PATCH-FAILED ' + err[:100]]
    try:
        repo = loader.Repo(overrides=ov)
    except loader.AnalysisError as e:
        return patch, {}, ['LOAD ' + str(e)]
    return (patch,) + pool(repo)


def main():
    todo = []
    for a in sys.argv[1:]:
        if os.path.isdir(a):
            for root, dirs, files in sorted(os.walk(a)):
                dirs.sort()
                if 'patch.diff' in files:
                    todo.append(os.path.join(root, 'patch.diff'))
        else:
            todo.append(a)
    base_f, base_e = pool(loader.Repo())
    n_silent = 0
    with ProcessPoolExecutor(max_workers=16) as ex:
        for patch, finds, errs in ex.map(run_one, todo):
            name = os.path.relpath(os.path.dirname(patch), '/')
            if finds is None:
                print('%-32s %s' % (name, errs[0]), flush=True)
                continue
            new = sorted(k for k in finds if k not in base_f)
            newe = [e for e in errs if e not in base_e]
            if not new and not newe:
                n_silent += 1
                print('%-32s silent' % name, flush=True)
            else:
                print('%-32s %s' % (name, '; '.join(
                    '%s %s [%s]' % (k[0], k[1], k[2][:50]) for k in new[:4])
                    + (' || ERR ' + '; '.join(newe)[:240] if newe else '')),
                    flush=True)
    print('silent: %d / %d' % (n_silent, len(todo)))


if __name__ == '__main__':
    main()
