"""Engine C: row-filter provenance for pandas DataFrames.

Abstract values (flow-sensitive, per function):
  Frame(src, filters, cols)      rows of root frame `src` satisfying filters
  Series(frame, col)             one column of a Frame
  Mask(frame, cond)              boolean mask built from a Series of a Frame
  Row(frame)                     loop variable of frame.iterrows()
  Cell(frame, col)               row[col]
Filters are canonical strings: `<col> == <expr text>`, `notnull(<col>)`.
Only the idioms enumerated from chi/_problems.py and chi/plots are
interpreted; everything else evaluates to None (unknown)."""
import ast

from .loader import U


class Frame:
    def __init__(self, src, filters=frozenset(), cols=None):
        self.src, self.filters, self.cols = src, frozenset(filters), cols

    def with_filter(self, *conds):
        return Frame(self.src, self.filters | set(conds), self.cols)

    def key(self):
        return (self.src, self.filters)

    def __repr__(self):
        return 'Frame(%s | %s)' % (self.src, ', '.join(sorted(self.filters)))


class Series:
    def __init__(self, frame, col, extra=frozenset()):
        self.frame, self.col = frame, col
        self.extra = frozenset(extra)       # filters applied to the series

    def filters(self):
        return self.frame.filters | self.extra

    def __repr__(self):
        return 'Series(%s | %s)[%s]' % (self.frame.src, ', '.join(sorted(
            self.filters())), self.col)


class Mask:
    """Conjunction of atomic row conditions on one frame."""

    def __init__(self, frame, cond):
        self.frame = frame
        self.conds = frozenset([cond]) if isinstance(cond, str) \
            else frozenset(cond)

    @property
    def cond(self):
        return ' & '.join(sorted(self.conds))


class Row:
    def __init__(self, frame):
        self.frame = frame


class Labels:
    """Index labels of the rows of a (filtered) frame: `df.index[mask]`."""

    def __init__(self, frame):
        self.frame = frame


BYLABEL = 'selected by index label (duplicated labels select extra rows)'


class Cell:
    def __init__(self, frame, col):
        self.frame, self.col = frame, col


ROW_DROPPING = {'drop_duplicates', 'head', 'tail', 'sample', 'nlargest',
                'nsmallest', 'first', 'last', 'truncate'}
PASS_METHODS = {'to_numpy', 'unique', 'copy', 'tolist', 'astype',
                'reset_index', 'sort_values'}


def ev(n, env):
    s = U(n)
    if s in env:
        return env[s]
    if isinstance(n, ast.Call) and U(n.func) == 'zip' and n.args \
            and not n.keywords:
        cols = [ev(a, env) for a in n.args]
        if all(isinstance(c, Series) for c in cols) and len(
                {c.frame.key() for c in cols}) == 1 and not any(
                    c.extra for c in cols):
            # parallel walk over columns of one frame: one row at a time
            return ('zip', cols)
        return None
    if isinstance(n, ast.List) and n.elts:
        # a list of column labels
        return ('cols', tuple(U(e) for e in n.elts))
    if isinstance(n, ast.Compare) and len(n.ops) == 1 and isinstance(
            n.ops[0], ast.Eq):
        l = ev(n.left, env)
        if isinstance(l, Series):
            return Mask(l.frame, '%s == %s' % (l.col, U(n.comparators[0])))
        return None
    if isinstance(n, ast.Compare) and len(n.ops) == 1 and isinstance(
            n.ops[0], (ast.Gt, ast.GtE, ast.Lt, ast.LtE, ast.NotEq)):
        l = ev(n.left, env)
        if isinstance(l, Series):
            op = {ast.Gt: '>', ast.GtE: '>=', ast.Lt: '<', ast.LtE: '<=',
                  ast.NotEq: '!='}[type(n.ops[0])]
            return Mask(l.frame, '%s %s %s' % (l.col, op,
                                               U(n.comparators[0])))
        return None
    if isinstance(n, ast.Call) and U(n.func) in ('np.isclose',
                                                 'numpy.isclose') \
            and len(n.args) >= 2:
        l = ev(n.args[0], env)
        if isinstance(l, Series):
            return Mask(l.frame, '%s ~= %s' % (l.col, U(n.args[1])))
        return None
    if isinstance(n, ast.UnaryOp) and isinstance(n.op, ast.Invert):
        v = ev(n.operand, env)
        if isinstance(v, Mask):
            return Mask(v.frame, 'not(%s)' % v.cond)
        return None
    if isinstance(n, ast.BinOp) and isinstance(n.op, ast.BitAnd):
        a, b = ev(n.left, env), ev(n.right, env)
        if isinstance(a, Mask) and isinstance(b, Mask) and \
                a.frame.key() == b.frame.key():
            return Mask(a.frame, a.conds | b.conds)
        return None
    if isinstance(n, ast.Call) and isinstance(n.func, ast.Attribute) \
            and n.func.attr in ('contains', 'startswith', 'endswith', 'match',
                                'fullmatch') and isinstance(
                n.func.value, ast.Attribute) and n.func.value.attr == 'str' \
            and n.args:
        # a pattern match is not the equality the rules ask for
        l = ev(n.func.value.value, env)
        if isinstance(l, Series):
            return Mask(l.frame, '%s %s %s' % (l.col, n.func.attr,
                                                U(n.args[0])))
        return None
    if isinstance(n, ast.Call) and isinstance(n.func, ast.Attribute):
        v = ev(n.func.value, env)
        a = n.func.attr
        if isinstance(v, Series):
            if a in ('notnull', 'notna'):
                return Mask(v.frame, 'notnull(%s)' % v.col)
            if a in ('isnull', 'isna'):
                return Mask(v.frame, 'isnull(%s)' % v.col)
            if a == 'dropna':
                return Series(v.frame, v.col,
                              v.extra | {'notnull(%s)' % v.col})
            if a in ROW_DROPPING:
                return Series(v.frame, v.col, v.extra | {'%s(%s)' % (
                    a, v.col)})
            if a in PASS_METHODS:
                return v
        if isinstance(v, Frame):
            if a == 'dropna':
                sub = [k.value for k in n.keywords if k.arg == 'subset']
                if sub and isinstance(sub[0], (ast.List, ast.Tuple)):
                    return v.with_filter(*['notnull(%s)' % U(e)
                                           for e in sub[0].elts])
                if sub:
                    return v.with_filter('notnull(%s)' % U(sub[0]))
                return v.with_filter('notnull(*)')
            if a in ROW_DROPPING:
                # rows removed by a criterion that is not a condition on
                # the selecting columns (value coincidence, position, chance)
                return v.with_filter('%s(%s)' % (a, ', '.join(
                    [U(x) for x in n.args] + ['%s=%s' % (k.arg, U(k.value))
                                              for k in n.keywords])))
            if a in PASS_METHODS:
                return v
            if a == 'iterrows':
                return ('iterrows', v)
        return None
    if isinstance(n, ast.Attribute):
        if n.attr == 'values':
            v = ev(n.value, env)
            if isinstance(v, (Series, Frame)):
                return v
        if n.attr == 'loc':
            v = ev(n.value, env)
            if isinstance(v, Frame):
                return ('loc', v)
        if n.attr == 'index':
            v = ev(n.value, env)
            if isinstance(v, Frame):
                return Labels(v)
        return None
    if isinstance(n, ast.Subscript):
        v = ev(n.value, env)
        if isinstance(v, tuple) and v[0] == 'loc' and isinstance(
                n.slice, ast.Tuple) and len(n.slice.elts) == 2:
            m, c = n.slice.elts
            mm = ev(m, env)
            cc = ev(c, env)
            many = isinstance(cc, tuple) and cc and cc[0] == 'cols'
            if isinstance(mm, Labels):
                # label-based row selection
                f = Frame(v[1].src, v[1].filters | mm.frame.filters
                          | {BYLABEL}, cc[1] if many else v[1].cols)
                return f if many else Series(f, U(c))
            if isinstance(mm, Mask):
                f = Frame(v[1].src, v[1].filters | mm.frame.filters
                          | mm.conds, cc[1] if many else v[1].cols)
                return f if many else Series(f, U(c))
            return None
        if isinstance(v, Frame):
            if isinstance(n.slice, ast.List):
                return Frame(v.src, v.filters,
                             tuple(U(e) for e in n.slice.elts))
            k = ev(n.slice, env)
            if isinstance(k, Mask):
                return Frame(v.src, v.filters | k.frame.filters | k.conds,
                             v.cols)
            if isinstance(n.slice, (ast.Name, ast.Attribute, ast.Constant)):
                return Series(v, U(n.slice))
            return None
        if isinstance(v, Series):
            k = ev(n.slice, env)
            if isinstance(k, Mask):
                return Series(Frame(v.frame.src, v.frame.filters
                                    | k.frame.filters | k.conds,
                                    v.frame.cols), v.col, v.extra)
            return None
        if isinstance(v, Row):
            return Cell(v.frame, U(n.slice))
        if isinstance(v, Labels):
            k = ev(n.slice, env)
            if isinstance(k, Mask):
                return Labels(Frame(v.frame.src, v.frame.filters
                                    | k.frame.filters | k.conds,
                                    v.frame.cols))
            return None
        return None
    return None


def walk(stmts, env, on_stmt):
    """Flow-sensitive sequential walk; loops are walked once; both arms of
    an `if` are walked on copies and merged by agreement."""
    for s in stmts:
        if isinstance(s, ast.Assign) and len(s.targets) == 1:
            val = ev(s.value, env)
            t = s.targets[0]
            on_stmt(s, env, val)
            if isinstance(t, (ast.Name, ast.Attribute)):
                if val is not None:
                    env[U(t)] = val
                else:
                    env.pop(U(t), None)
            continue
        if isinstance(s, ast.For):
            it = ev(s.iter, env)
            if isinstance(it, tuple) and it[0] == 'iterrows' and isinstance(
                    s.target, ast.Tuple) and len(s.target.elts) == 2:
                env[U(s.target.elts[1])] = Row(it[1])
            if isinstance(it, tuple) and it[0] == 'zip' and isinstance(
                    s.target, ast.Tuple) and len(s.target.elts) == len(
                        it[1]):
                for t_, c_ in zip(s.target.elts, it[1]):
                    env[U(t_)] = Cell(c_.frame, c_.col)
            on_stmt(s, env, None)
            walk(s.body, env, on_stmt)
            continue
        if isinstance(s, ast.If):
            on_stmt(s, env, None)
            e1, e2 = dict(env), dict(env)
            walk(s.body, e1, on_stmt)
            walk(s.orelse, e2, on_stmt)
            for k in list(env):
                if e1.get(k) is not e2.get(k):
                    a, b = e1.get(k), e2.get(k)
                    if not (_same(a, b)):
                        env.pop(k, None)
                    else:
                        env[k] = a
            for k in set(e1) | set(e2):
                if k not in env and _same(e1.get(k), e2.get(k)) \
                        and e1.get(k) is not None:
                    env[k] = e1[k]
            continue
        if isinstance(s, (ast.With, ast.Try)):
            walk(s.body, env, on_stmt)
            continue
        on_stmt(s, env, None)


def _same(a, b):
    if type(a) is not type(b):
        return False
    if isinstance(a, Frame):
        return a.key() == b.key()
    if isinstance(a, Series):
        return a.frame.key() == b.frame.key() and a.col == b.col \
            and a.extra == b.extra
    return a is b
