"""Parse /repo/chi (never import it) and expose modules, classes, MRO, method
resolution.  Sources can be overridden in memory (self-test mutants)."""
import ast
import hashlib
import os

REPO = os.environ.get('CHI_REPO', '/repo')

FILES = [
    'chi/__init__.py',
    'chi/_covariate_models.py',
    'chi/_error_models.py',
    'chi/_inference.py',
    'chi/_log_pdfs.py',
    'chi/_mechanistic_models.py',
    'chi/_population_filters.py',
    'chi/_population_models.py',
    'chi/_predictive_models.py',
    'chi/_problems.py',
    'chi/plots/__init__.py',
    'chi/plots/_base.py',
    'chi/plots/_optimisation.py',
    'chi/plots/_residuals.py',
    'chi/plots/_sampling.py',
    'chi/plots/_time_series.py',
    'chi/library/__init__.py',
    'chi/library/_data_library_api.py',
    'chi/library/_model_library_api.py',
]


class AnalysisError(Exception):
    """The analysis cannot be carried out (vanished anchor, unsupported
    construct in an anchored position, instance count under the floor)."""


def U(node):
    return ast.unparse(node)


class ClassInfo:
    def __init__(self, name, node, relpath):
        self.name = name
        self.node = node
        self.relpath = relpath
        self.bases = [U(b).split('.')[-1] for b in node.bases]
        self.methods = {}
        for n in node.body:
            if isinstance(n, (ast.FunctionDef, ast.AsyncFunctionDef)):
                self.methods[n.name] = n


class Repo:
    def __init__(self, root=None, overrides=None):
        self.root = root or REPO
        self.overrides = overrides or {}
        self.sources = {}
        self.trees = {}
        self.sha = {}
        self.classes = {}
        self.functions = {}     # module-level functions: (relpath, name) -> node
        self.consulted = set()
        for rel in FILES:
            path = os.path.join(self.root, rel)
            if rel in self.overrides:
                src = self.overrides[rel]
            else:
                if not os.path.exists(path):
                    if rel.startswith('chi/plots') or rel.startswith(
                            'chi/library') or rel == 'chi/__init__.py':
                        continue
                    raise AnalysisError('source file vanished: %s' % rel)
                with open(path, encoding='utf-8') as f:
                    src = f.read()
            try:
                tree = ast.parse(src, filename=rel)
            except SyntaxError as e:
                raise AnalysisError('cannot parse %s: %s' % (rel, e))
            self.sources[rel] = src
            self.trees[rel] = tree
            self.sha[rel] = hashlib.sha256(src.encode()).hexdigest()
            for n in tree.body:
                if isinstance(n, ast.ClassDef):
                    # first definition wins (names are unique in chi)
                    self.classes.setdefault(n.name, ClassInfo(n.name, n, rel))
                elif isinstance(n, ast.FunctionDef):
                    self.functions[(rel, n.name)] = n
        # normalisation: private helpers unknown to the rule tables are
        # inlined into their callers (chk/inline.py)
        from . import inline
        self.inlined = inline.normalise(self)
        for tree in self.trees.values():
            for parent in ast.walk(tree):
                for child in ast.iter_child_nodes(parent):
                    child._parent = parent

    # -- class hierarchy ---------------------------------------------------
    def cls(self, name):
        if name not in self.classes:
            raise AnalysisError('anchor class vanished: %s' % name)
        c = self.classes[name]
        self.consulted.add(c.relpath)
        return c

    def has_cls(self, name):
        return name in self.classes

    def mro(self, name):
        out = []
        cur = name
        seen = set()
        while cur in self.classes and cur not in seen:
            seen.add(cur)
            out.append(cur)
            bs = [b for b in self.classes[cur].bases if b in self.classes]
            if not bs:
                break
            cur = bs[0]
        return out

    def is_subclass(self, name, base):
        return base in self.mro(name)

    def subclasses(self, base, strict=False):
        out = []
        for n in self.classes:
            if self.is_subclass(n, base) and not (strict and n == base):
                out.append(n)
        return out

    def resolve(self, clsname, method, after=None):
        """Most-derived definition of `method` for receiver class `clsname`
        (`after`: start after that class in the MRO, i.e. super())."""
        order = self.mro(clsname)
        if after is not None:
            if after not in order:
                return None, None
            order = order[order.index(after) + 1:]
        for k in order:
            m = self.classes[k].methods.get(method)
            if m is not None:
                self.consulted.add(self.classes[k].relpath)
                return k, m
        return None, None

    def method(self, clsname, method):
        """Definition of `method` *in* class `clsname` (anchor: must exist)."""
        c = self.cls(clsname)
        m = c.methods.get(method)
        if m is None:
            raise AnalysisError(
                'anchor method vanished: %s.%s' % (clsname, method))
        return m

    def has_method(self, clsname, method):
        return clsname in self.classes and \
            method in self.classes[clsname].methods

    @staticmethod
    def body_wo_doc(fn):
        body = list(fn.body)
        if body and isinstance(body[0], ast.Expr) and isinstance(
                body[0].value, ast.Constant) and isinstance(
                body[0].value.value, str):
            body = body[1:]
        return body

    def is_abstract(self, fn):
        body = self.body_wo_doc(fn)
        if len(body) != 1 or not isinstance(body[0], ast.Raise):
            return False
        exc = body[0].exc
        if exc is None:
            return False
        s = U(exc)
        return s.startswith('NotImplementedError')

    def exported(self):
        """Names exported by chi/__init__.py through `from . import`."""
        tree = self.trees.get('chi/__init__.py')
        self.consulted.add('chi/__init__.py')
        out = set()
        if tree is None:
            return out
        for n in ast.walk(tree):
            if isinstance(n, ast.ImportFrom):
                for a in n.names:
                    out.add(a.asname or a.name)
        return out

    def relpath_of(self, node):
        cur = node
        while not isinstance(cur, ast.Module):
            cur = cur._parent
        for rel, t in self.trees.items():
            if t is cur:
                return rel
        return '?'

    def loc(self, node, clsname=None, fn=None):
        rel = self.relpath_of(node)
        s = '%s:%d' % (rel, getattr(node, 'lineno', 0))
        if clsname or fn:
            s += ' %s' % '.'.join(x for x in (clsname, fn) if x)
        return s

    def all_functions(self, files=None):
        """Yield (relpath, classname|None, fn node) for every def."""
        for rel, tree in self.trees.items():
            if files is not None and rel not in files:
                continue
            self.consulted.add(rel)
            for n in tree.body:
                if isinstance(n, ast.FunctionDef):
                    yield rel, None, n
                elif isinstance(n, ast.ClassDef):
                    for m in n.body:
                        if isinstance(m, ast.FunctionDef):
                            yield rel, n.name, m


def expand_pred(repo, cls, test, _depth=0):
    """Expand calls to single-expression helper predicates in a test.

    `if Cls._outside(sigma, y):` / `if self._outside(sigma, y):` where the
    helper's body is one `return <expr>` becomes `<expr>` with the parameters
    replaced by the argument expressions (a refactoring that extracts a
    repeated guard must not blind the guard rules)."""
    import copy as _copy
    if _depth > 3 or cls is None:
        return test

    def sub(n):
        if isinstance(n, ast.BoolOp):
            return ast.BoolOp(op=n.op, values=[sub(v) for v in n.values])
        if isinstance(n, ast.UnaryOp) and isinstance(n.op, ast.Not):
            return ast.UnaryOp(op=n.op, operand=sub(n.operand))
        if isinstance(n, ast.Call) and isinstance(n.func, ast.Attribute) \
                and isinstance(n.func.value, ast.Name) and not n.keywords:
            recv = n.func.value.id
            k = cls if recv in ('self', 'cls') else recv
            if not repo.has_cls(k):
                return n
            owner, fn = repo.resolve(k, n.func.attr)
            if fn is None:
                return n
            body = repo.body_wo_doc(fn)
            if len(body) != 1 or not isinstance(body[0], ast.Return) \
                    or body[0].value is None:
                return n
            params = [a.arg for a in fn.args.args]
            if params and params[0] in ('self', 'cls'):
                params = params[1:]
            if len(params) != len(n.args):
                return n
            m = dict(zip(params, n.args))

            class R(ast.NodeTransformer):
                def visit_Name(self, x):
                    if x.id in m and isinstance(x.ctx, ast.Load):
                        return _copy.deepcopy(m[x.id])
                    return x
            e = R().visit(_copy.deepcopy(body[0].value))
            ast.fix_missing_locations(e)
            return expand_pred(repo, owner, e, _depth + 1)
        return n
    out = sub(test)
    if out is not test:
        ast.copy_location(out, test)
        ast.fix_missing_locations(out)
    return out


def returned_expr(fn, ret):
    """The expression a `return` hands back: `return x` with `x` bound by a
    plain assignment in the same block right before it gives that value
    (so `tmp = f(..); return tmp` reads like `return f(..)`)."""
    v = ret.value
    if not isinstance(v, ast.Name):
        return v
    parent = getattr(ret, '_parent', None)
    for attr in ('body', 'orelse', 'finalbody'):
        blk = getattr(parent, attr, None)
        if isinstance(blk, list) and ret in blk:
            i = blk.index(ret)
            if i > 0 and isinstance(blk[i - 1], ast.Assign) and len(
                    blk[i - 1].targets) == 1 and isinstance(
                    blk[i - 1].targets[0], ast.Name) and \
                    blk[i - 1].targets[0].id == v.id:
                return blk[i - 1].value
    return v


def norm_stmt(node):
    """Position-free key text of a statement/expression."""
    return ' '.join(U(node).split())[:160]
