"""Normalisation: private helpers the rule tables do not know are inlined.

The rules name a fixed set of private methods of the pinned tree as anchors
(`_compute_log_likelihood`, `_add_dose_compartment`, ...; listed in
helpers_baseline.json).  Any *other* private method of a class — typically
one a later refactoring extracted from a public method — is an implementation
detail of its callers: before analysis its body is substituted for each call
on `self` / the class, so that every rule sees the code the helper was
extracted from.  The substitution is exact (AST level):

  * parameters bound to a plain name / constant / attribute chain and never
    assigned in the helper are substituted; other parameters become fresh
    locals initialised with the argument expression;
  * locals of the helper are renamed with a unique prefix;
  * `return e` becomes an assignment to the call's target(s) (statement
    `x = self._h(..)`), stays a return (`return self._h(..)`) or an expression
    statement (`self._h(..)`); statements after an `if` that returns are moved
    into the other branch;
  * a helper whose body is a single `return <expr>` is also substituted where
    the call sits inside a larger expression (guards: `if self._bad(x):`).

Not inlined (the call is left alone and the rules treat it as they treat any
unknown call): helpers with *args/**kwargs, nested functions, generators,
returns inside loops / try / with, recursion, depth > 3.
"""
import ast
import copy
import json
import os

HERE = os.path.dirname(os.path.abspath(__file__))
BASELINE = os.path.join(HERE, 'helpers_baseline.json')


def load_baseline():
    with open(BASELINE) as f:
        return set(json.load(f)['names'])


def _is_private(name):
    return name.startswith('_') and not name.startswith('__')


class _Rename(ast.NodeTransformer):
    def __init__(self, subst, rename):
        self.subst = subst      # param -> expression (substituted on Load)
        self.rename = rename    # local -> new name

    def visit_Name(self, n):
        if n.id in self.rename:
            return ast.copy_location(ast.Name(id=self.rename[n.id],
                                              ctx=n.ctx), n)
        if n.id in self.subst and isinstance(n.ctx, ast.Load):
            return ast.copy_location(copy.deepcopy(self.subst[n.id]), n)
        return n

    def visit_arg(self, n):
        return n


def _stored_names(fn):
    out = set()
    for n in ast.walk(fn):
        if isinstance(n, ast.Name) and isinstance(n.ctx, (ast.Store,
                                                          ast.Del)):
            out.add(n.id)
    return out


def _comp_names(fn):
    out = set()
    for n in ast.walk(fn):
        if isinstance(n, ast.comprehension):
            for x in ast.walk(n.target):
                if isinstance(x, ast.Name):
                    out.add(x.id)
    return out


def _simple(e):
    if isinstance(e, (ast.Name, ast.Constant)):
        return True
    if isinstance(e, ast.Attribute):
        return _simple(e.value)
    return False


def _returns_ok(stmts):
    """Returns only at block level of if/else chains (not in loops etc.)."""
    for s in stmts:
        if isinstance(s, (ast.For, ast.While, ast.With, ast.Try)):
            if any(isinstance(x, ast.Return) for x in ast.walk(s)):
                return False
        if isinstance(s, ast.If):
            if not _returns_ok(s.body) or not _returns_ok(s.orelse):
                return False
    return True


def _has_return(stmts):
    return any(isinstance(x, ast.Return) for s in stmts for x in ast.walk(s))


def _conv(stmts, mk):
    """Replace returns by mk(value) and fold code after a returning `if`
    into its branches.  -> new statement list"""
    out = []
    for i, s in enumerate(stmts):
        if isinstance(s, ast.Return):
            out += mk(s)
            return out
        if isinstance(s, ast.If) and _has_return([s]):
            rest = stmts[i + 1:]
            new = ast.copy_location(ast.If(
                test=s.test,
                body=_conv(list(s.body) + copy.deepcopy(rest), mk) or [
                    ast.copy_location(ast.Pass(), s)],
                orelse=_conv(list(s.orelse) + copy.deepcopy(rest), mk)), s)
            out.append(new)
            return out
        out.append(s)
    return out


def _bind_result(targets, v, ret):
    """`targets = v`, split into per-name assignments where that is exact
    (`a, b = (x, y)` with plain, non-overlapping names; `a, b = (a, b)` is
    dropped)."""
    if len(targets) == 1 and isinstance(targets[0], ast.Tuple) \
            and isinstance(v, ast.Tuple) \
            and len(targets[0].elts) == len(v.elts) \
            and all(isinstance(t, ast.Name) for t in targets[0].elts):
        tn = [t.id for t in targets[0].elts]
        out = []
        hazard = False
        for i, (t, e) in enumerate(zip(tn, v.elts)):
            if isinstance(e, ast.Name) and e.id == t:
                continue
            used = {x.id for x in ast.walk(e) if isinstance(x, ast.Name)}
            if used & set(tn[:i]):
                hazard = True
            out.append(ast.copy_location(ast.Assign(
                targets=[ast.Name(id=t, ctx=ast.Store())], value=e,
                lineno=ret.lineno), ret))
        if not hazard:
            return out
    return [ast.copy_location(ast.Assign(
        targets=copy.deepcopy(targets), value=v, lineno=ret.lineno), ret)]


class Inliner:
    def __init__(self, repo, known):
        self.repo = repo
        self.known = known
        self.counter = 0
        self.cur_fn = None
        self.log = []       # (class, caller, helper)

    # -- resolution -----------------------------------------------------------
    def target(self, call, cls):
        """-> (owner, def) of an inlinable helper call, or None."""
        f = call.func
        if not (isinstance(f, ast.Attribute) and isinstance(f.value,
                                                            ast.Name)):
            return None
        if not _is_private(f.attr) or f.attr in self.known:
            return None
        recv = f.value.id
        if recv in ('self', 'cls'):
            k = cls
        elif recv in self.repo.mro(cls):
            k = recv
        else:
            return None
        owner, d = self.repo.resolve(k, f.attr)
        if d is None or not self.inlinable(d):
            return None
        return owner, d

    def inlinable(self, d):
        a = d.args
        if a.vararg or a.kwarg or a.posonlyargs:
            return False
        for n in ast.walk(d):
            if n is d:
                continue
            if isinstance(n, (ast.FunctionDef, ast.AsyncFunctionDef,
                              ast.ClassDef, ast.Yield, ast.YieldFrom,
                              ast.Global, ast.Nonlocal)):
                return False
            if isinstance(n, ast.Call) and isinstance(
                    n.func, ast.Attribute) and n.func.attr == d.name \
                    and isinstance(n.func.value, ast.Name) \
                    and n.func.value.id in ('self', 'cls'):
                return False        # recursion
        return _returns_ok(self.repo.body_wo_doc(d))

    @staticmethod
    def kind(d):
        for dec in d.decorator_list:
            s = ast.unparse(dec)
            if s == 'staticmethod':
                return 'static'
            if s == 'classmethod':
                return 'class'
        return 'method'

    def _live_after(self, name, stmt):
        """May the caller read its own `name` after `stmt` (so a helper
        local of that name must be renamed)?"""
        fn = self.cur_fn
        if fn is None or stmt is None:
            return True
        if isinstance(stmt, ast.Assign):
            tg = {x.id for t in stmt.targets for x in ast.walk(t)
                  if isinstance(x, ast.Name)}
            if name in tg:
                return False
        end = getattr(stmt, 'end_lineno', stmt.lineno)
        # enclosing loops of the call: reads anywhere in them count
        loops = []
        for n in ast.walk(fn):
            if isinstance(n, (ast.For, ast.While)) and n.lineno <= \
                    stmt.lineno <= getattr(n, 'end_lineno', n.lineno):
                loops.append(n)
        for n in ast.walk(fn):
            if isinstance(n, ast.Name) and n.id == name and isinstance(
                    n.ctx, ast.Load):
                if n.lineno > end:
                    return True
                if any(l.lineno <= n.lineno <= l.end_lineno for l in loops) \
                        and not (stmt.lineno <= n.lineno <= end):
                    return True
        return False

    def bind(self, call, d, stmt=None):
        """-> (prologue statements, subst, rename) or None"""
        params = [a.arg for a in d.args.args]
        if self.kind(d) in ('method', 'class') and params:
            params = params[1:]
        defaults = dict(zip(params[len(params) - len(d.args.defaults):],
                            d.args.defaults)) if d.args.defaults else {}
        kwonly = [a.arg for a in d.args.kwonlyargs]
        for p, dv in zip(kwonly, d.args.kw_defaults):
            if dv is not None:
                defaults[p] = dv
        if any(isinstance(a, ast.Starred) for a in call.args) or any(
                k.arg is None for k in call.keywords):
            return None
        if len(call.args) > len(params):
            return None
        actual = dict(zip(params, call.args))
        for k in call.keywords:
            if k.arg not in params + kwonly or k.arg in actual:
                return None
            actual[k.arg] = k.value
        for p in params + kwonly:
            if p not in actual:
                if p not in defaults:
                    return None
                actual[p] = defaults[p]
        self.counter += 1
        pre = '_h%d_' % self.counter
        stored = _stored_names(d) - _comp_names(d)
        # names of substituted arguments must not be captured by helper
        # locals; caller variables that stay live must not be clobbered
        arg_names = {x.id for a in actual.values() for x in ast.walk(a)
                     if isinstance(x, ast.Name)}
        rename = {}
        for v in stored:
            if v in params + kwonly:
                continue
            if v in arg_names or self._live_after(v, stmt):
                rename[v] = pre + v
        subst = {}
        prologue = []
        for p in params + kwonly:
            a = actual[p]
            if p in stored or not _simple(a):
                same = isinstance(a, ast.Name) and a.id == p
                new = p
                if (p in arg_names and not same) or (
                        self._live_after(p, stmt) and not (
                            same and p not in stored)):
                    new = pre + p
                    rename[p] = new
                if same and new == p:
                    continue        # `p = p`: nothing to bind
                prologue.append(ast.copy_location(ast.Assign(
                    targets=[ast.Name(id=new, ctx=ast.Store())],
                    value=copy.deepcopy(a), lineno=call.lineno), call))
            else:
                subst[p] = a
        return prologue, subst, rename

    def body_of(self, call, d, stmt=None):
        b = self.bind(call, d, stmt)
        if b is None:
            return None
        prologue, subst, rename = b
        body = [copy.deepcopy(s) for s in self.repo.body_wo_doc(d)]
        tr = _Rename(subst, rename)
        body = [tr.visit(s) for s in body]
        return prologue, body

    # -- statement rewriting -----------------------------------------------------
    def expr_subst(self, e, cls, depth):
        """Substitute single-expression helpers inside an expression."""
        me = self

        class T(ast.NodeTransformer):
            def visit_Call(self, n):
                self.generic_visit(n)
                t = me.target(n, cls)
                if t is None:
                    return n
                owner, d = t
                body = me.repo.body_wo_doc(d)
                if len(body) != 1 or not isinstance(body[0], ast.Return) \
                        or body[0].value is None:
                    return n
                b = me.bind(n, d)
                if b is None:
                    return n
                prologue, subst, rename = b
                if prologue:
                    # complex arguments: substitute them as expressions
                    for st in prologue:
                        subst_name = st.targets[0].id
                        for p, new in list(rename.items()):
                            if new == subst_name:
                                subst[p] = st.value
                                del rename[p]
                val = _Rename(subst, rename).visit(
                    copy.deepcopy(body[0].value))
                me.log.append((cls, d.name))
                return ast.copy_location(val, n)
        return T().visit(e)

    def stmts(self, stmts, cls, depth=0):
        out = []
        for s in stmts:
            out += self.stmt(s, cls, depth)
        return out

    def stmt(self, s, cls, depth):
        if depth > 3:
            return [s]
        call = None
        mode = None
        if isinstance(s, ast.Expr) and isinstance(s.value, ast.Call):
            call, mode = s.value, 'expr'
        elif isinstance(s, ast.Assign) and isinstance(s.value, ast.Call):
            call, mode = s.value, 'assign'
        elif isinstance(s, ast.Return) and isinstance(s.value, ast.Call):
            call, mode = s.value, 'return'
        if call is not None:
            t = self.target(call, cls)
            if t is not None:
                owner, d = t
                r = self.body_of(call, d, s)
                if r is not None:
                    prologue, body = r
                    if mode == 'return':
                        new = body
                        if not new or not isinstance(new[-1], (
                                ast.Return, ast.Raise, ast.If)):
                            new = new + [ast.copy_location(
                                ast.Return(value=None), s)]
                    elif mode == 'assign':
                        def mk(ret, s=s):
                            v = ret.value if ret.value is not None else \
                                ast.Constant(value=None)
                            return _bind_result(s.targets, v, ret)
                        new = _conv(body, mk)
                        if not _has_return(body):
                            new.append(ast.copy_location(ast.Assign(
                                targets=copy.deepcopy(s.targets),
                                value=ast.Constant(value=None),
                                lineno=s.lineno), s))
                    else:
                        def mk(ret):
                            if ret.value is None or isinstance(
                                    ret.value, ast.Constant):
                                return []
                            return [ast.copy_location(
                                ast.Expr(value=ret.value), ret)]
                        new = _conv(body, mk)
                    self.log.append((cls, d.name))
                    new = prologue + new
                    if not new:
                        new = [ast.copy_location(ast.Pass(), s)]
                    # arguments may themselves hold helper calls
                    return self.stmts(new, owner if owner in self.repo.mro(
                        cls) else cls, depth + 1)
        # nested blocks
        for attr in ('body', 'orelse', 'finalbody'):
            sub = getattr(s, attr, None)
            if isinstance(sub, list) and sub and isinstance(sub[0],
                                                            ast.stmt):
                setattr(s, attr, self.stmts(sub, cls, depth))
        for h in getattr(s, 'handlers', []) or []:
            h.body = self.stmts(h.body, cls, depth)
        # expression-level single-return helpers
        for field, val in list(ast.iter_fields(s)):
            if isinstance(val, ast.expr):
                setattr(s, field, self.expr_subst(val, cls, depth))
            elif isinstance(val, list) and val and isinstance(val[0],
                                                               ast.expr):
                setattr(s, field, [self.expr_subst(v, cls, depth)
                                   for v in val])
        return [s]

    def function(self, fn, cls):
        self.cur_fn = fn
        before = len(self.log)
        new_body = self.stmts(list(fn.body), cls)
        if len(self.log) == before:
            return False
        fn.body = new_body
        ast.fix_missing_locations(fn)
        return True


def positionalise(repo):
    """Calls of methods of the same object (`self.m(..)`, `super().m(..)`)
    that pass arguments by keyword are rewritten to the positional form the
    callee's signature defines, as far as the keywords cover a prefix of
    the parameters (exact; rules then see one calling convention)."""
    n_changed = 0
    for cname, c in repo.classes.items():
        for mname, fn in c.methods.items():
            for call in ast.walk(fn):
                if not (isinstance(call, ast.Call) and call.keywords
                        and isinstance(call.func, ast.Attribute)):
                    continue
                recv = call.func.value
                d = None
                if isinstance(recv, ast.Name) and recv.id == 'self':
                    _, d = repo.resolve(cname, call.func.attr)
                elif isinstance(recv, ast.Call) and isinstance(
                        recv.func, ast.Name) and recv.func.id == 'super':
                    _, d = repo.resolve(cname, call.func.attr, after=cname)
                if d is None or d.args.vararg or d.args.posonlyargs:
                    continue
                if any(k.arg is None for k in call.keywords) or any(
                        isinstance(a, ast.Starred) for a in call.args):
                    continue
                params = [a.arg for a in d.args.args]
                static = any(ast.unparse(x) == 'staticmethod'
                             for x in d.decorator_list)
                if not static and params:
                    params = params[1:]
                kw = {k.arg: k for k in call.keywords}
                pos = list(call.args)
                moved = False
                while len(pos) < len(params) and params[len(pos)] in kw:
                    k = kw.pop(params[len(pos)])
                    pos.append(k.value)
                    moved = True
                if moved:
                    call.args = pos
                    call.keywords = [k for k in call.keywords
                                     if k.arg in kw]
                    n_changed += 1
    return n_changed


def desugar_split(repo):
    """`a, b, c = np.split(x, [i, j])`  ->  `a = x[:i]; b = x[i:j]; c = x[j:]`
    (x a plain name, the cut points listed literally): the rules read blocks
    of a flat vector as slices."""
    def fix(stmts):
        out = []
        for s in stmts:
            for attr in ('body', 'orelse', 'finalbody'):
                sub = getattr(s, attr, None)
                if isinstance(sub, list) and sub and isinstance(
                        sub[0], ast.stmt):
                    setattr(s, attr, fix(sub))
            for h in getattr(s, 'handlers', []) or []:
                h.body = fix(h.body)
            v = getattr(s, 'value', None)
            if isinstance(s, ast.Assign) and len(s.targets) == 1 \
                    and isinstance(s.targets[0], (ast.Tuple, ast.List)) \
                    and isinstance(v, ast.Call) \
                    and ast.unparse(v.func) in ('np.split', 'numpy.split') \
                    and len(v.args) == 2 and not v.keywords \
                    and isinstance(v.args[0], ast.Name) \
                    and isinstance(v.args[1], (ast.List, ast.Tuple)) \
                    and len(v.args[1].elts) + 1 == len(s.targets[0].elts) \
                    and all(isinstance(t, ast.Name)
                            for t in s.targets[0].elts) \
                    and v.args[0].id not in [t.id for t in
                                             s.targets[0].elts[:-1]]:
                cuts = [None] + list(v.args[1].elts) + [None]
                for k, t in enumerate(s.targets[0].elts):
                    new = ast.Assign(
                        targets=[ast.Name(id=t.id, ctx=ast.Store())],
                        value=ast.Subscript(
                            value=ast.Name(id=v.args[0].id, ctx=ast.Load()),
                            slice=ast.Slice(lower=cuts[k], upper=cuts[k + 1],
                                            step=None),
                            ctx=ast.Load()))
                    ast.copy_location(new, s)
                    ast.fix_missing_locations(new)
                    out.append(new)
                continue
            out.append(s)
        return out
    for c in repo.classes.values():
        for fn in c.methods.values():
            fn.body = fix(fn.body)
    for fn in getattr(repo, 'functions', {}).values():
        fn.body = fix(fn.body)


NUMPY_SIGNATURES = {
    # numpy.random.Generator / RandomState draws and constructors whose
    # leading parameters the rules read by keyword
    'normal': ('loc', 'scale', 'size'),
    'lognormal': ('mean', 'sigma', 'size'),
    'uniform': ('low', 'high', 'size'),
    'standard_normal': ('size',),
    'default_rng': ('seed',),
}


def inline_partials(repo):
    """`f = functools.partial(g, a, k=v)` (f bound once in the function) and
    later `f(x, j=w)`  ->  `g(a, x, k=v, j=w)`; `np.add.reduce(x, axis=..)`
    -> `np.sum(x, axis=..)`."""
    import copy

    def do(fn):
        stores = {}
        for x in ast.walk(fn):
            if isinstance(x, ast.Name) and isinstance(x.ctx, ast.Store):
                stores[x.id] = stores.get(x.id, 0) + 1
        parts = {}
        gens = {}
        for a in ast.walk(fn):
            if isinstance(a, ast.Assign) and len(a.targets) == 1 \
                    and isinstance(a.targets[0], ast.Name) \
                    and stores.get(a.targets[0].id) == 1 \
                    and isinstance(a.value, ast.GeneratorExp):
                gens[a.targets[0].id] = a.value
        for a in ast.walk(fn):
            if isinstance(a, ast.Assign) and len(a.targets) == 1 \
                    and isinstance(a.targets[0], ast.Name) \
                    and stores.get(a.targets[0].id) == 1 \
                    and isinstance(a.value, ast.Call) \
                    and ast.unparse(a.value.func) in ('functools.partial',
                                                      'partial') \
                    and a.value.args and not any(
                        isinstance(x, ast.Starred) for x in a.value.args) \
                    and not any(k.arg is None for k in a.value.keywords):
                parts[a.targets[0].id] = a

        used_gens = set()

        class R(ast.NodeTransformer):
            def visit_Call(self, n):
                self.generic_visit(n)
                if isinstance(n.func, ast.Name) and n.func.id in parts:
                    p = parts[n.func.id].value
                    kws = {k.arg for k in n.keywords}
                    return ast.copy_location(ast.Call(
                        func=copy.deepcopy(p.args[0]),
                        args=[copy.deepcopy(x) for x in p.args[1:]]
                        + n.args,
                        keywords=[copy.deepcopy(k) for k in p.keywords
                                  if k.arg not in kws] + n.keywords), n)
                if isinstance(n.func, ast.Attribute) and n.func.attr == \
                        'schedule' and (len(n.args) >= 2 or {
                            'level', 'start'} <= {k.arg for k in
                                                  n.keywords}):
                    # myokit: Protocol.schedule(level, start, duration, ..)
                    # is add(ProtocolEvent(level, start, duration, ..))
                    ev_ = ast.Call(func=ast.Attribute(
                        value=ast.Name(id='myokit', ctx=ast.Load()),
                        attr='ProtocolEvent', ctx=ast.Load()),
                        args=n.args, keywords=n.keywords)
                    return ast.copy_location(ast.Call(
                        func=ast.Attribute(value=n.func.value, attr='add',
                                           ctx=ast.Load()),
                        args=[ev_], keywords=[]), n)
                if isinstance(n.func, ast.Attribute) and n.func.attr == \
                        'take' and len(n.args) == 1 and all(
                            k.arg == 'axis' and isinstance(
                                k.value, ast.Constant) and k.value.value == 0
                            for k in n.keywords) \
                        and ast.unparse(n.func.value) not in ('np', 'numpy'):
                    # ndarray.take(idx, axis=0) is x[idx]
                    return ast.copy_location(ast.Subscript(
                        value=n.func.value, slice=n.args[0],
                        ctx=ast.Load()), n)
                if ast.unparse(n.func) in ('itertools.compress',
                                           'compress') and len(n.args) == 2 \
                        and not n.keywords:
                    # compress(data, selectors): the data entries whose
                    # selector is true, in order
                    d_, s_ = n.args
                    if isinstance(s_, ast.Name) and s_.id in gens:
                        used_gens.add(s_.id)
                        s_ = copy.deepcopy(gens[s_.id])
                    if isinstance(s_, (ast.GeneratorExp, ast.ListComp)) \
                            and len(s_.generators) == 1 \
                            and not s_.generators[0].ifs:
                        g_ = s_.generators[0]
                        return ast.copy_location(ast.ListComp(
                            elt=ast.Name(id='__d', ctx=ast.Load()),
                            generators=[ast.comprehension(
                                target=ast.Tuple(elts=[
                                    ast.Name(id='__d', ctx=ast.Store()),
                                    g_.target], ctx=ast.Store()),
                                iter=ast.Call(
                                    func=ast.Name(id='zip', ctx=ast.Load()),
                                    args=[d_, g_.iter], keywords=[]),
                                ifs=[s_.elt], is_async=0)]), n)
                if ast.unparse(n.func) in ('np.add.reduce',
                                           'numpy.add.reduce'):
                    n.func = ast.copy_location(ast.Attribute(
                        value=ast.Name(id='np', ctx=ast.Load()), attr='sum',
                        ctx=ast.Load()), n.func)
                    n.keywords = [k for k in n.keywords if not (
                        k.arg == 'axis' and isinstance(
                            k.value, ast.Constant)
                        and k.value.value is None)]
                return n
        src_ = ast.unparse(fn)
        if parts or 'add.reduce' in src_ or '.schedule(' in src_ \
                or '.take(' in src_ or 'compress(' in src_:
            R().visit(fn)
            if parts or used_gens:
                drop = set(id(a) for a in parts.values())
                # a generator that was substituted where it was consumed
                loads = {}
                for x in ast.walk(fn):
                    if isinstance(x, ast.Name) and isinstance(
                            x.ctx, ast.Load):
                        loads[x.id] = loads.get(x.id, 0) + 1
                for a in ast.walk(fn):
                    if isinstance(a, ast.Assign) and len(a.targets) == 1 \
                            and isinstance(a.targets[0], ast.Name) \
                            and a.targets[0].id in used_gens \
                            and not loads.get(a.targets[0].id):
                        drop.add(id(a))

                def prune(stmts):
                    out = []
                    for s_ in stmts:
                        if id(s_) in drop:
                            continue
                        for attr in ('body', 'orelse', 'finalbody'):
                            sub = getattr(s_, attr, None)
                            if isinstance(sub, list) and sub and isinstance(
                                    sub[0], ast.stmt):
                                setattr(s_, attr, prune(sub) or [ast.Pass()])
                        for h in getattr(s_, 'handlers', []) or []:
                            h.body = prune(h.body) or [ast.Pass()]
                        out.append(s_)
                    return out
                fn.body = prune(fn.body)
            ast.fix_missing_locations(fn)
    for c in repo.classes.values():
        for fn in c.methods.values():
            do(fn)
    for fn in getattr(repo, 'functions', {}).values():
        do(fn)


def keywordise_numpy(repo):
    """`rng.normal(0, s, shape)` -> `rng.normal(loc=0, scale=s, size=shape)`
    for the numpy calls listed above (their signatures are fixed)."""
    class R(ast.NodeTransformer):
        def visit_Call(self, n):
            self.generic_visit(n)
            f = n.func
            if isinstance(f, ast.Attribute) and f.attr in NUMPY_SIGNATURES \
                    and n.args and not any(isinstance(a, ast.Starred)
                                           for a in n.args):
                names = NUMPY_SIGNATURES[f.attr]
                if len(n.args) <= len(names) and not any(
                        k.arg in names[:len(n.args)] for k in n.keywords):
                    n.keywords = [ast.keyword(arg=names[i], value=a)
                                  for i, a in enumerate(n.args)] + n.keywords
                    n.args = []
            return n
    for c in repo.classes.values():
        for fn in c.methods.values():
            R().visit(fn)
            ast.fix_missing_locations(fn)
    for fn in getattr(repo, 'functions', {}).values():
        R().visit(fn)
        ast.fix_missing_locations(fn)


def desugar_divmod(repo):
    """`q, r = divmod(a, b)` -> `q = a // b; r = a % b` (a, b free of calls
    other than len): the two forms are the same program."""
    def fix(stmts):
        out = []
        for s in stmts:
            for attr in ('body', 'orelse', 'finalbody'):
                sub = getattr(s, attr, None)
                if isinstance(sub, list) and sub and isinstance(
                        sub[0], ast.stmt):
                    setattr(s, attr, fix(sub))
            for h in getattr(s, 'handlers', []) or []:
                h.body = fix(h.body)
            v = getattr(s, 'value', None)
            if isinstance(s, ast.Assign) and len(s.targets) == 1 \
                    and isinstance(s.targets[0], ast.Tuple) \
                    and len(s.targets[0].elts) == 2 \
                    and isinstance(v, ast.Call) \
                    and ast.unparse(v.func) == 'divmod' \
                    and len(v.args) == 2 and not v.keywords \
                    and all(ast.unparse(c.func) == 'len'
                            for a in v.args for c in ast.walk(a)
                            if isinstance(c, ast.Call)):
                import copy
                for t, op in zip(s.targets[0].elts,
                                 (ast.FloorDiv(), ast.Mod())):
                    new = ast.Assign(targets=[t], value=ast.BinOp(
                        left=copy.deepcopy(v.args[0]), op=op,
                        right=copy.deepcopy(v.args[1])))
                    ast.copy_location(new, s)
                    ast.fix_missing_locations(new)
                    out.append(new)
                continue
            out.append(s)
        return out
    for c in repo.classes.values():
        for fn in c.methods.values():
            fn.body = fix(fn.body)
    for fn in getattr(repo, 'functions', {}).values():
        fn.body = fix(fn.body)


def desugar_tuple_assign(repo):
    """`a, b = x, y` -> `a = x; b = y` when no target is read by a later
    value of the same statement (then the two forms are the same program)."""
    def fix(stmts):
        out = []
        for s in stmts:
            for attr in ('body', 'orelse', 'finalbody'):
                sub = getattr(s, attr, None)
                if isinstance(sub, list) and sub and isinstance(
                        sub[0], ast.stmt):
                    setattr(s, attr, fix(sub))
            for h in getattr(s, 'handlers', []) or []:
                h.body = fix(h.body)
            if isinstance(s, ast.Assign) and len(s.targets) == 1 \
                    and isinstance(s.targets[0], (ast.Tuple, ast.List)) \
                    and isinstance(s.value, (ast.Tuple, ast.List)) \
                    and len(s.targets[0].elts) == len(s.value.elts) \
                    and not any(isinstance(e, ast.Starred)
                                for e in s.targets[0].elts + s.value.elts):
                tg = [ast.unparse(t) for t in s.targets[0].elts]
                safe = True
                for k, v in enumerate(s.value.elts[1:], 1):
                    txt = ast.unparse(v)
                    names = {ast.unparse(x) for x in ast.walk(v)
                             if isinstance(x, (ast.Name, ast.Attribute,
                                               ast.Subscript))}
                    if any(t in names for t in tg[:k]):
                        safe = False
                    if any(isinstance(x, ast.Call) for x in ast.walk(v)):
                        # a call may read an earlier target through self
                        if any(t.startswith('self.') for t in tg[:k]):
                            safe = False
                if safe:
                    for t, v in zip(s.targets[0].elts, s.value.elts):
                        new = ast.Assign(targets=[t], value=v)
                        ast.copy_location(new, s)
                        ast.fix_missing_locations(new)
                        out.append(new)
                    continue
            out.append(s)
        return out
    for c in repo.classes.values():
        for fn in c.methods.values():
            fn.body = fix(fn.body)
    for fn in getattr(repo, 'functions', {}).values():
        fn.body = fix(fn.body)


def propagate_field_aliases(repo):
    """`m = self._f` at the top level of a method, m never re-assigned and
    `self._f` never re-bound in the method (nor by a method it calls on
    self): every later `m` is `self._f`.  The alias is substituted and the
    assignment dropped, so rules see the field whichever spelling is used."""
    from .effects import direct

    def rebinds(fn):
        out = set()
        for n in ast.walk(fn):
            tg = []
            if isinstance(n, ast.Assign):
                tg = n.targets
            elif isinstance(n, (ast.AugAssign, ast.AnnAssign)):
                tg = [n.target]
            elif isinstance(n, ast.Delete):
                tg = n.targets
            for t in tg:
                for x in (t.elts if isinstance(t, (ast.Tuple, ast.List))
                          else [t]):
                    if isinstance(x, ast.Attribute) and isinstance(
                            x.value, ast.Name) and x.value.id == 'self':
                        out.add(x.attr)
        return out

    for cname, c in repo.classes.items():
        memo = {}
        for mname, fn in c.methods.items():
            if any(isinstance(x, (ast.Lambda, ast.FunctionDef, ast.ClassDef,
                                  ast.Global, ast.Nonlocal))
                   for x in ast.walk(fn) if x is not fn):
                continue
            params = {a.arg for a in fn.args.args + fn.args.kwonlyargs}
            stores = {}
            for x in ast.walk(fn):
                if isinstance(x, ast.Name) and isinstance(
                        x.ctx, (ast.Store, ast.Del)):
                    stores[x.id] = stores.get(x.id, 0) + 1
            own = rebinds(fn)
            called = set()
            for x in ast.walk(fn):
                if isinstance(x, ast.Call) and isinstance(
                        x.func, ast.Attribute) and isinstance(
                        x.func.value, ast.Name) and x.func.value.id == 'self':
                    called.add(x.func.attr)
            via = set()
            for m in called:
                if m not in memo:
                    k, d = repo.resolve(cname, m)
                    memo[m] = rebinds(d) if d is not None else set()
                via |= memo[m]
            subst = {}
            keep = []

            def pure_test(v):
                """a test over fields / constants only (`self._f is None`,
                `not self._g`): same value wherever it is evaluated, as long
                as the fields are not re-bound"""
                if not isinstance(v, (ast.Compare, ast.BoolOp, ast.UnaryOp)):
                    return False
                for x in ast.walk(v):
                    if isinstance(x, (ast.Compare, ast.BoolOp, ast.UnaryOp,
                                      ast.Constant, ast.boolop, ast.cmpop,
                                      ast.unaryop, ast.expr_context)):
                        continue
                    if isinstance(x, ast.Attribute) and isinstance(
                            x.value, ast.Name) and x.value.id == 'self' \
                            and x.attr not in own and x.attr not in via:
                        continue
                    if isinstance(x, ast.Name) and x.id == 'self':
                        continue
                    return False
                return True
            for s in fn.body:
                if isinstance(s, ast.Assign) and len(s.targets) == 1 \
                        and isinstance(s.targets[0], ast.Name) \
                        and s.targets[0].id not in params \
                        and stores.get(s.targets[0].id) == 1 and ((
                            isinstance(s.value, ast.Attribute)
                            and isinstance(s.value.value, ast.Name)
                            and s.value.value.id == 'self'
                            and s.value.attr not in own
                            and s.value.attr not in via)
                            or pure_test(s.value)):
                    subst[s.targets[0].id] = s.value
                    continue
                keep.append(s)
            if not subst:
                continue

            class R(ast.NodeTransformer):
                def visit_Name(self, n):
                    if isinstance(n.ctx, ast.Load) and n.id in subst:
                        import copy as _c
                        return ast.copy_location(_c.deepcopy(subst[n.id]),
                                                 n)
                    return n
            fn.body = [R().visit(s) for s in keep]
            ast.fix_missing_locations(fn)


def normalise(repo):
    """Inline unknown private helpers in every method (in place)."""
    try:
        positionalise(repo)
    except Exception:
        pass
    try:
        desugar_split(repo)
    except Exception:
        pass
    try:
        desugar_divmod(repo)
    except Exception:
        pass
    try:
        desugar_tuple_assign(repo)
    except Exception:
        pass
    try:
        inline_partials(repo)
    except Exception:
        pass
    try:
        keywordise_numpy(repo)
    except Exception:
        pass
    try:
        propagate_field_aliases(repo)
    except Exception:
        pass
    try:
        known = load_baseline()
    except OSError:
        return []
    inl = Inliner(repo, known)
    # candidates exist at all?
    cands = [(c.name, m) for c in repo.classes.values()
             for m in c.methods if _is_private(m) and m not in known]
    if not cands:
        return []
    for cname, c in repo.classes.items():
        for mname, fn in c.methods.items():
            inl.function(fn, cname)
    return inl.log
