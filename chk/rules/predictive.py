"""C15 rules on the predictive models.

R15.2 the population model knows the number of individuals it transforms:
      either set_n_ids is called with the row count of eta, or no candidate
      class reads its own n_ids in compute_individual_parameters.
R15.3 the time vector written to the Time column is the (sorted) one that was
      handed to the simulation.
R15.4 labels of the population-predictive table are laid out like the
      flattened measurements; a random row index covers all rows of the
      posterior.
"""
import ast

import sympy as sp

from ..loader import U, norm_stmt, AnalysisError
from ..types import Types
from ..effects import Effects
from ..shapes import ShapeLifter, Arr, Ax, TOP, eq, nest_str
from ..term import Opaque, Tup
from .layout import sym, _emit_events, ENG
from .iface import is_abstract_base

FILE = 'chi/_predictive_models.py'


def r15_3(ctx, repo):
    rule = 'R15.3'
    n = 0
    for rel, cls, fn in repo.all_functions([FILE]):
        if fn.name != 'sample' or repo.is_abstract(fn):
            continue
        params = [a.arg for a in fn.args.args]
        if 'times' not in params:
            continue
        # sequential versions of every name
        version = {}
        defs = {}       # (name, version) -> value node
        consumer = None   # (call, arg node, version at call)
        labels = []       # (node, expr, versions at use)

        def uses(expr):
            return {(x.id, version.get(x.id, 0)) for x in ast.walk(expr)
                    if isinstance(x, ast.Name)}

        def visit(stmts):
            nonlocal consumer
            for s in stmts:
                if isinstance(s, (ast.For, ast.While)):
                    if isinstance(s, ast.For):
                        it = s.iter
                        src = it.args[0] if isinstance(it, ast.Call) and U(
                            it.func) == 'enumerate' and it.args else it
                        for x in ast.walk(s.target):
                            if isinstance(x, ast.Name):
                                version[x.id] = version.get(x.id, 0) + 1
                                defs[(x.id, version[x.id])] = src
                    visit(s.body)
                    continue
                if isinstance(s, (ast.If, ast.Try, ast.With)):
                    visit(s.body)
                    visit(getattr(s, 'orelse', []))
                    continue
                for c in ast.walk(s):
                    if isinstance(c, ast.Call) and isinstance(
                            c.func, ast.Attribute) and c.func.attr in (
                            'simulate', 'sample') and (
                            'mechanistic_model' in U(c.func.value)
                            or '_predictive_model' in U(c.func.value)
                            or U(c.func.value) == 'model'):
                        arg = None
                        for k in c.keywords:
                            if k.arg == 'times':
                                arg = k.value
                        if arg is None:
                            pos = 1 if c.func.attr == 'simulate' or \
                                '_predictive_model' in U(c.func.value) else 0
                            if len(c.args) > pos:
                                arg = c.args[pos]
                        if arg is not None and consumer is None:
                            consumer = (c, arg, uses(arg))
                    if isinstance(c, ast.Dict):
                        for k, v in zip(c.keys, c.values):
                            if isinstance(k, ast.Constant) and \
                                    k.value == 'Time' and not (
                                        isinstance(v, ast.Attribute)):
                                labels.append((c, v, uses(v)))
                if isinstance(s, ast.Assign):
                    for t in s.targets:
                        for x in ast.walk(t):
                            if isinstance(x, ast.Name) and isinstance(
                                    x.ctx, ast.Store):
                                version[x.id] = version.get(x.id, 0) + 1
                                defs[(x.id, version[x.id])] = s.value
        visit(fn.body)
        if consumer is None or not labels:
            continue
        n += 1
        construct = '%s.sample' % cls
        call, arg, arg_uses = consumer

        def roots(us, depth=0):
            """Name versions an expression ultimately derives from."""
            out = set(us)
            if depth > 3:
                return out
            for (nm, v) in us:
                d = defs.get((nm, v))
                if d is not None:
                    sub = {(x.id, _ver_before(x, nm, v))
                           for x in ast.walk(d) if isinstance(x, ast.Name)}
                    out |= roots({u for u in sub if u[1] is not None},
                                 depth + 1)
            return out

        def _ver_before(x, nm, v):
            # the definition of (nm, v) reads the previous version of nm
            if x.id == nm:
                return v - 1
            return version.get(x.id, 0) if (x.id, version.get(
                x.id, 0)) in defs or x.id in params else None
        where = repo.loc(call, cls, fn.name)
        # the simulated times must be a plain name whose definition sorts
        sim_name = arg.id if isinstance(arg, ast.Name) else None
        sorted_def = False
        if sim_name:
            v = [u for u in arg_uses if u[0] == sim_name][0][1]
            d = defs.get((sim_name, v))
            sorted_def = isinstance(d, ast.Call) and U(d.func) in (
                'np.sort', 'sorted', 'numpy.sort')
        for node, expr, us in labels:
            lw = repo.loc(node, cls, fn.name)
            if isinstance(expr, ast.Attribute) or U(expr) in ('np.nan',):
                continue
            if sim_name is None:
                ctx.violation(
                    rule, where, construct, 'unsaved sort',
                    'the simulation receives `%s` while the Time column is '
                    'filled from `%s`: the values are computed at one time '
                    'vector and labelled with another (sort once, bind it to '
                    'a name, use that name for both)' % (
                        U(arg)[:50], U(expr)[:40]))
                continue
            target = [u for u in arg_uses if u[0] == sim_name][0]
            derived = target in roots(us)
            if derived and sorted_def:
                ctx.ok(rule, lw, construct,
                       'Time labels derive from the sorted vector handed to '
                       'the simulation (`%s`)' % sim_name)
            elif not derived:
                ctx.violation(
                    rule, lw, construct, 'time labels',
                    'the Time column is filled from `%s`, which is not the '
                    'vector `%s` that was handed to the simulation: values '
                    'and time labels are mismatched for unsorted input' % (
                        U(expr)[:40], sim_name))
            else:
                ctx.violation(
                    rule, where, construct, 'unsorted times',
                    'the times handed to the simulation are not sorted '
                    '(`%s` is not defined by np.sort)' % sim_name)
    if n < 3:
        ctx.error(rule, 'only %d sample methods with a Time column analysed '
                  '(floor 3)' % n)


def r15_4(ctx, repo):
    rule = 'R15.4'
    N_O, N_T, N_S = sym('n_outputs'), sym('n_times'), sym('n_samples')
    N_C, N_D, N_P = sym('n_chains'), sym('n_draws'), sym('n_parameters')
    # population predictive table
    cls = 'PopulationPredictiveModel'
    fn = repo.method(cls, 'sample')
    construct = cls + '.sample'
    # the whole method is walked with the documented input shapes; locals
    # (counts, containers) are derived from their definitions
    env = {'times': Arr([Ax(N_T)]), 'n_samples': N_S,
           'covariates': None, 'include_regimen': False, 'return_df': True,
           'seed': Opaque('seed')}

    class L(ShapeLifter):
        def _call(self, n, env, fn, depth, owner):
            f = U(n.func)
            if f == 'self._predictive_model.get_output_names':
                return Arr([Ax(N_O)], is_list=True)
            if f == 'self._predictive_model.get_n_outputs':
                return N_O
            if f == 'np.sort' and n.args:
                return self.ev(n.args[0], env, fn, depth, owner)
            if f == 'np.arange':
                return Arr([Ax(N_S)])
            if f == 'pd.DataFrame' and n.args and isinstance(
                    n.args[0], ast.Dict):
                cols = {}
                for k, v in zip(n.args[0].keys, n.args[0].values):
                    if isinstance(k, ast.Constant):
                        cols[k.value] = self.ev(v, env, fn, depth, owner)
                self.tables.append((n, cols))
                return TOP
            return super()._call(n, env, fn, depth, owner)
    lf = L(repo, cls, flags={'covariates is None': True,
                             'include_regimen': False,
                             'return_df is False': False,
                             'seed is None': False,
                             'not n_samples': False})
    lf.tables = []
    try:
        lf._block(fn.body, env, fn, 0, cls)
    except Exception as e:
        ctx.error(rule, '%s: %s' % (construct, e))
    _emit_events(ctx, rule, repo, cls, fn, lf, construct)
    want = ((N_O.name, N_O), (N_T.name, N_T), (N_S.name, N_S))
    if not lf.tables:
        ctx.error(rule, '%s: result table not found' % construct)
    for node, cols in lf.tables[:1]:
        where = repo.loc(node, cls, fn.name)
        val = cols.get('Value')
        if not (isinstance(val, Arr) and val.ndim == 1):
            ctx.error(rule, '%s: Value column layout not derived' % construct)
            continue
        from ..shapes import nest_eq
        if not nest_eq(val.axes[0].nest, want):
            ctx.violation(rule, where, construct, 'value layout',
                          'the Value column is laid out (%s)' % nest_str(
                              val.axes[0].nest), engine=ENG)
        roles = {'ID': N_S.name, 'Time': N_T.name, 'Observable': N_O.name}
        for col, role in roles.items():
            v = cols.get(col)
            if not (isinstance(v, Arr) and v.ndim == 1):
                ctx.error(rule, '%s: layout of column %s not derived' % (
                    construct, col))
                continue
            nest = v.axes[0].nest
            # the column varies along `role` only: its nest must place the
            # role factor at the position it has in the value layout
            from ..shapes import nest_refines
            ok = eq(v.axes[0].size, N_O * N_T * N_S) and nest_refines(
                want, nest, keep=role)
            if ok:
                ctx.ok(rule, where, construct,
                       'column %s is laid out like the flattened '
                       'measurements (n_outputs > n_times > n_samples)'
                       % col, engine=ENG)
            else:
                ctx.violation(
                    rule, where, construct, 'label layout ' + col,
                    'column %s is laid out (%s) but the values are '
                    'measurements.flatten() = (n_outputs > n_times > '
                    'n_samples): rows are labelled with the wrong %s' % (
                        col, nest_str(nest), col.lower()), engine=ENG)
    # posterior predictive: joint row selection
    cls = 'PosteriorPredictiveModel'
    fn = repo.method(cls, 'sample')
    construct = cls + '.sample'
    loops = [l for l in fn.body if isinstance(l, ast.For)
             and any(isinstance(c, ast.Call) and U(c.func).endswith(
                 '_predictive_model.sample') for c in ast.walk(l))]
    if not loops:
        ctx.error(rule, '%s: sampling loop not found' % construct)
    else:
        l = loops[0]
        # walk the method up to the loop with symbolic counts: the matrix of
        # joint draws, the generator and the counts get their shapes from
        # their definitions, whatever they are called
        class LP(ShapeLifter):
            def _call(self, n, env, fn, depth, owner):
                f = U(n.func)
                if f == 'len' and n.args:
                    t = U(n.args[0])
                    if t.endswith('.chain'):
                        return N_C
                    if t.endswith('.draw'):
                        return N_D
                if f.endswith('_predictive_model.n_parameters'):
                    return N_P
                if f.endswith('default_rng'):
                    return Opaque('rng')
                if isinstance(n.func, ast.Attribute) and n.func.attr == \
                        'choice' and n.args:
                    v = self.ev(n.args[0], env, fn, depth, owner)
                    if isinstance(v, Arr) and v.ndim == 2:
                        self.choices.append(v)
                        return Arr(v.axes[1:])
                return super()._call(n, env, fn, depth, owner)
        lf = LP(repo, cls, flags={'n_samples is None': False})
        lf.choices = []
        env = {'n_samples': sym('n_samples')}
        pre = []
        for st in fn.body:
            if st is l:
                break
            pre.append(st)
        try:
            lf._block(pre, env, fn, 0, cls)
        except Exception:
            pass
        lf.events = []
        # the draw handed to the predictive model in the loop
        calls = [c for c in ast.walk(l) if isinstance(c, ast.Call)
                 and U(c.func).endswith('_predictive_model.sample')]
        arg = None
        if calls:
            kw = {k.arg: k.value for k in calls[0].keywords}
            arg = kw.get('parameters', calls[0].args[0]
                         if calls[0].args else None)
        pname = arg.id if isinstance(arg, ast.Name) else None
        # loop variables that walk a vector of pre-drawn random indices
        from ..shapes import RandIdx
        it_, tg_ = l.iter, l.target
        if isinstance(it_, ast.Call) and U(it_.func) == 'enumerate' \
                and it_.args and isinstance(tg_, ast.Tuple) \
                and len(tg_.elts) == 2:
            it_, tg_ = it_.args[0], tg_.elts[1]
        pairs_ = []
        if isinstance(it_, ast.Call) and U(it_.func) == 'zip' and isinstance(
                tg_, ast.Tuple) and len(tg_.elts) == len(it_.args):
            pairs_ = list(zip(tg_.elts, it_.args))
        elif isinstance(tg_, ast.Name):
            pairs_ = [(tg_, it_)]
        for t_, a_ in pairs_:
            try:
                av = lf.ev(a_, env, fn, 0, cls)
            except Exception:
                av = None
            if isinstance(t_, ast.Name) and isinstance(av, Arr) \
                    and getattr(av, 'randbound', None) is not None:
                env[t_.id] = RandIdx(av.randbound)
        lf.events = []
        picks = [s for s in l.body if isinstance(s, ast.Assign)
                 and U(s.targets[0]) == pname]
        for s in picks:
            try:
                v = lf.ev(s.value, env, fn, 0, cls)
            except Exception:
                v = None
            where = repo.loc(s, cls, fn.name)
            txt = U(s.value)
            rows_ok = lf.choices and eq(lf.choices[-1].axes[0].size,
                                        N_C * N_D)
            if lf.events:
                for e_ in lf.events:
                    e_.kind = 'layout' if e_.kind == 'shape' else e_.kind
                _emit_events(ctx, rule, repo, cls, fn, lf, construct)
            elif lf.choices and rows_ok:
                ctx.ok(rule, where, construct,
                       'one joint row of the (chains x draws) posterior '
                       'matrix is drawn uniformly over all rows')
            elif lf.choices:
                ctx.violation(
                    rule, where, construct, 'row pool',
                    'the joint draw is chosen among %s rows; the posterior '
                    'matrix has n_chains * n_draws rows' % (
                        lf.choices[-1].axes[0].size), engine=ENG)
            elif isinstance(v, Arr):
                ctx.ok(rule, where, construct,
                       'one joint row is selected by a random index over '
                       'all rows')
            else:
                ctx.error(rule, '%s: row selection `%s` not recognised' % (
                    construct, txt[:50]))
        if not picks:
            ctx.error(rule, '%s: parameter draw not found' % construct)
    ctx.floor(rule, 4)


def r15_2(ctx, repo):
    rule = 'R15.2'
    T = Types(repo)
    E = Effects(repo)
    n = 0
    for (cls, field), t in sorted(T.fields.items()):
        if t[0] == 'list' or t[0] != 'PopulationModel':
            continue
        if repo.is_subclass(cls, 'PopulationModel'):
            continue
        uses = []
        for m, fn in repo.cls(cls).methods.items():
            for c in ast.walk(fn):
                if isinstance(c, ast.Call) and isinstance(
                        c.func, ast.Attribute) and U(c.func.value) == field \
                        and c.func.attr == 'compute_individual_parameters':
                    uses.append((m, fn, c))
        if not uses:
            continue
        sets = any(isinstance(c, ast.Call) and isinstance(
            c.func, ast.Attribute) and U(c.func.value) == field
            and c.func.attr == 'set_n_ids'
            for fn in repo.cls(cls).methods.values() for c in ast.walk(fn))
        for m, fn, c in uses[:1]:
            n += 1
            construct = '%s.%s' % (cls, m)
            where = repo.loc(c, cls, m)
            if sets:
                ctx.ok(rule, where, construct,
                       '%s establishes the number of individuals with '
                       'set_n_ids' % cls)
                continue
            dependent = []
            for K in T.candidates(t):
                if is_abstract_base(repo, K):
                    continue
                k, d = repo.resolve(K, 'compute_individual_parameters')
                if d is None:
                    continue
                for node in ast.walk(d):
                    if isinstance(node, ast.Attribute) and U(node) == \
                            'self._n_ids':
                        # reads guarded by `eta.ndim == 1` only concern flat
                        # eta, which this caller never passes
                        cur = getattr(node, '_parent', None)
                        guarded = False
                        while cur is not None and cur is not d:
                            if isinstance(cur, ast.If) and 'eta.ndim' in U(
                                    cur.test):
                                guarded = True
                            cur = getattr(cur, '_parent', None)
                        if not guarded and K not in dependent:
                            dependent.append(K)
            if dependent:
                ctx.violation(
                    rule, where, construct, 'n_ids not established',
                    '%s never calls set_n_ids on its population model, but '
                    'compute_individual_parameters of %s shapes its result '
                    'with the model\'s own n_ids: the number of returned '
                    'individuals is whatever the model was last used with, '
                    'not the number of samples drawn here' % (
                        cls, ', '.join(dependent)))
            else:
                ctx.ok(rule, where, construct,
                       'no candidate population model reads its own n_ids '
                       'for a 2-d eta')
    if n < 3:
        ctx.error(rule, 'only %d users of compute_individual_parameters '
                  'found (floor 3)' % n)


# -----------------------------------------------------------------------------
# R10.6 — the regimen table covers the simulated time span
# -----------------------------------------------------------------------------
SORTERS = ('np.sort', 'sorted', 'np.unique', 'numpy.sort')
MAXES = ('np.max', 'max', 'np.amax', 'np.nanmax', 'numpy.max')


def r10_6(ctx, repo):
    """Every sample() that appends the dosing regimen asks for the dose
    events up to the largest simulated time: `get_dosing_regimen(<max of the
    requested times>)`.  The last element of the time vector is the maximum
    only after the vector has been sorted."""
    rule = 'R10.6'
    n = 0
    for rel, cls, fn in repo.all_functions([FILE]):
        if fn.name != 'sample' or repo.is_abstract(fn):
            continue
        params = [a.arg for a in fn.args.args]
        if 'times' not in params:
            continue
        calls = [c for c in ast.walk(fn) if isinstance(c, ast.Call)
                 and U(c.func) == 'self.get_dosing_regimen']
        if not calls:
            continue
        # statements in source order with the names that hold a sorted
        # version of the time points at each of them
        time_names = {'times'}
        sorted_now = set()
        state_at = {}       # id(stmt) -> frozenset(sorted names)
        last_def = {}       # name -> [(stmt, value)]

        def visit(stmts):
            for s in stmts:
                state_at[id(s)] = (frozenset(sorted_now),
                                   {k: list(v) for k, v in last_def.items()})
                if isinstance(s, (ast.If, ast.For, ast.While, ast.Try,
                                  ast.With)):
                    visit(s.body)
                    visit(getattr(s, 'orelse', []))
                    for h in getattr(s, 'handlers', []):
                        visit(h.body)
                    visit(getattr(s, 'finalbody', []))
                    continue
                if isinstance(s, ast.Assign) and len(s.targets) == 1 \
                        and isinstance(s.targets[0], ast.Name):
                    t, v = s.targets[0].id, s.value
                    last_def.setdefault(t, []).append((s, v))
                    reads_time = any(isinstance(x, ast.Name)
                                     and x.id in time_names
                                     for x in ast.walk(v))
                    if isinstance(v, ast.Call) and U(v.func) in SORTERS \
                            and reads_time:
                        sorted_now.add(t)
                        time_names.add(t)
                    elif isinstance(v, ast.Call) and U(v.func) in (
                            'np.asarray', 'np.array', 'np.copy',
                            'list') and v.args and isinstance(
                            v.args[0], ast.Name) and v.args[0].id in \
                            time_names:
                        time_names.add(t)
                        if v.args[0].id in sorted_now:
                            sorted_now.add(t)
                        else:
                            sorted_now.discard(t)
                    else:
                        sorted_now.discard(t)
                        if reads_time and isinstance(v, ast.Name):
                            time_names.add(t)
        visit(fn.body)

        def stmt_of(node):
            cur = node
            while cur is not None and not isinstance(cur, ast.stmt):
                cur = getattr(cur, '_parent', None)
            return cur

        def classify(e, at, depth=0):
            """'MAX' | 'LAST-UNSORTED' | None (unknown)"""
            srt, defs = state_at.get(id(at), (frozenset(), {}))
            if isinstance(e, ast.Call):
                f = U(e.func)
                if f in MAXES and e.args and any(
                        isinstance(x, ast.Name) and x.id in time_names
                        for x in ast.walk(e.args[0])):
                    return 'MAX'
                if isinstance(e.func, ast.Attribute) and e.func.attr == \
                        'max' and isinstance(e.func.value, ast.Name) \
                        and e.func.value.id in time_names:
                    return 'MAX'
                if f in ('float', 'int') and e.args:
                    return classify(e.args[0], at, depth)
                return None
            if isinstance(e, ast.Subscript) and isinstance(
                    e.value, ast.Name) and e.value.id in time_names:
                idx = e.slice
                if isinstance(idx, ast.UnaryOp) and isinstance(
                        idx.op, ast.USub) and isinstance(
                        idx.operand, ast.Constant) and idx.operand.value == 1:
                    return 'MAX' if e.value.id in srt else 'LAST-UNSORTED'
                return None
            if isinstance(e, ast.Name) and depth < 3:
                ds = defs.get(e.id)
                if ds:
                    s2, v2 = ds[-1]
                    return classify(v2, s2, depth + 1)
            return None
        for c in calls:
            n += 1
            construct = '%s.sample' % cls
            where = repo.loc(c, cls, fn.name)
            arg = c.args[0] if c.args else None
            for k in c.keywords:
                if k.arg == 'final_time':
                    arg = k.value
            if arg is None:
                ctx.violation(
                    rule, where, construct, 'no final time',
                    'the regimen table is requested without a final time')
                continue
            kind = classify(arg, stmt_of(c))
            if kind == 'MAX':
                ctx.ok(rule, where, construct,
                       'the regimen table is requested up to the largest '
                       'simulated time')
            elif kind == 'LAST-UNSORTED':
                ctx.violation(
                    rule, where, construct, 'final time of unsorted times',
                    'the regimen table is requested up to `%s`, the last '
                    'element of a time vector that has not been sorted at '
                    'that point: doses the simulation applies after that '
                    'time are missing from the reported regimen' % U(
                        arg)[:40])
            else:
                ctx.error(rule, '%s: final time `%s` of the regimen table '
                          'not derived from the simulated times' % (
                              construct, U(arg)[:40]))
    if n < 5:
        ctx.error(rule, 'only %d regimen requests found (floor 5)' % n)


# -----------------------------------------------------------------------------
# R15.5 — the joint posterior table is sized like the columns it receives
# -----------------------------------------------------------------------------
def _chain_calls(e):
    """method calls along an attribute/call/subscript chain -> {text}"""
    out = set()
    cur = e
    while isinstance(cur, (ast.Attribute, ast.Call, ast.Subscript)):
        if isinstance(cur, ast.Attribute) and isinstance(
                cur.value, ast.Name) and cur.value.id == 'self':
            break
        if isinstance(cur, ast.Call):
            if isinstance(cur.func, ast.Attribute):
                out.add('%s(%s)' % (cur.func.attr, ', '.join(
                    [U(a) for a in cur.args] + ['%s=%s' % (k.arg, U(k.value))
                                                for k in cur.keywords])))
            cur = cur.func
        elif isinstance(cur, ast.Attribute):
            cur = cur.value
        else:
            cur = cur.value
    return out, cur


def r15_5(ctx, repo):
    """PosteriorPredictiveModel.sample stacks, per parameter, the retained
    draws of all chains into one column of a (n_chains * n_draws) table.  The
    number of draws must be counted on the same selection of the dataset as
    the columns are read from: a column read after `dropna(dim='draw')` has
    only the retained draws."""
    rule = 'R15.5'
    cls = 'PosteriorPredictiveModel'
    fn = repo.method(cls, 'sample')
    construct = cls + '.sample'
    counts, fills = [], []
    # the table may be assembled in sample() or in a helper of the class
    nodes = [x for m_ in repo.cls(cls).methods.values()
             for x in ast.walk(m_)]
    owner = {}
    for mname_, m_ in repo.cls(cls).methods.items():
        for x in ast.walk(m_):
            owner[id(x)] = m_
    for x in nodes:
        if isinstance(x, ast.Call) and U(x.func) == 'len' and x.args \
                and isinstance(x.args[0], ast.Attribute) \
                and x.args[0].attr == 'draw':
            calls, root = _chain_calls(x.args[0].value)
            if U(root) == 'self._posterior' or 'posterior' in U(root):
                counts.append((x, calls))
        if isinstance(x, ast.Assign) and len(x.targets) == 1 and isinstance(
                x.targets[0], ast.Subscript) and isinstance(
                x.targets[0].slice, ast.Tuple):
            calls, root = _chain_calls(x.value)
            if 'posterior' in U(root):
                fills.append((x, calls))
    if not counts or not fills:
        ctx.error(rule, '%s: draw count (%d) / column fills (%d) not found'
                  % (construct, len(counts), len(fills)))
        return
    drop = lambda cs: any(c.startswith('dropna(') for c in cs)  # noqa: E731
    fill_drop = {drop(cs) for _, cs in fills}
    for node, cs in counts:
        where = repo.loc(node, cls, owner.get(id(node), fn).name)
        if fill_drop == {drop(cs)}:
            ctx.ok(rule, where, construct,
                   'the draws are counted %s, like the columns that fill '
                   'the table' % ('after dropna(dim=draw)' if drop(cs)
                                  else 'on the raw dataset'))
        else:
            ctx.violation(
                rule, where, construct, 'draw count selection',
                '`%s` counts the draws %s while the parameter columns are '
                'read %s: for a dataset with NaN-padded draws the table and '
                'its columns have different lengths' % (
                    U(node)[:60],
                    'after dropna' if drop(cs) else 'without dropna',
                    'after dropna' if True in fill_drop else 'without '
                    'dropna'))
    ctx.floor(rule, 1)
