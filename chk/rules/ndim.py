"""R05.1 — rank-dispatch chains normalise the variable they test."""
import ast

from ..loader import U

LAYOUT_ATTRS = {'reshape', 'T', 'flatten', 'ravel', 'transpose', 'swapaxes'}
LAYOUT_FUNCS = {'np.broadcast_to', 'np.diagonal', 'np.reshape',
                'np.expand_dims', 'np.atleast_2d', 'np.atleast_3d',
                'np.squeeze', 'np.transpose'}


def _ndim_test(t):
    if isinstance(t, ast.Compare) and len(t.ops) == 1 \
            and isinstance(t.left, ast.Attribute) and t.left.attr == 'ndim' \
            and isinstance(t.left.value, ast.Name) \
            and isinstance(t.comparators[0], ast.Constant):
        return t.left.value.id
    return None


def _is_layout_of(expr, var):
    """expr is a re-laid-out view of `var` (X[np.newaxis, ...], X.reshape,
    np.broadcast_to(X...), X.T ...)."""
    if isinstance(expr, ast.Subscript) and isinstance(expr.value, ast.Name) \
            and expr.value.id == var:
        return True
    if isinstance(expr, ast.Call):
        f = expr.func
        if isinstance(f, ast.Attribute) and f.attr in LAYOUT_ATTRS \
                and _mentions(f.value, var):
            return True
        if U(f) in LAYOUT_FUNCS and expr.args and _mentions(
                expr.args[0], var):
            return True
    if isinstance(expr, ast.Attribute) and expr.attr == 'T' \
            and _mentions(expr.value, var):
        return True
    return False


def _mentions(expr, var):
    return any(isinstance(n, ast.Name) and n.id == var
               for n in ast.walk(expr))


def _branch_facts(body, var):
    rebinds = False
    exits = False
    dropped = []
    for s in body:
        for n in ast.walk(s):
            if isinstance(n, (ast.Return, ast.Raise)):
                exits = True
            if isinstance(n, (ast.Assign, ast.AugAssign, ast.AnnAssign)):
                tgts = n.targets if isinstance(n, ast.Assign) else [n.target]
                for t in tgts:
                    for x in ast.walk(t):
                        if isinstance(x, ast.Name) and x.id == var:
                            rebinds = True
                if isinstance(n, ast.Assign) and _is_layout_of(n.value, var):
                    names = [t.id for t in n.targets
                             if isinstance(t, ast.Name)]
                    if names and var not in names:
                        dropped.append((n, names[0]))
    return rebinds, exits, dropped


def chains(fn):
    """All if/elif chains in fn whose tests all compare `X.ndim`."""
    seen = set()
    out = []
    for n in ast.walk(fn):
        if isinstance(n, ast.If) and id(n) not in seen:
            var = _ndim_test(n.test)
            if var is None:
                continue
            seen.add(id(n))
            branches = [n]
            cur = n
            while len(cur.orelse) == 1 and isinstance(cur.orelse[0], ast.If) \
                    and _ndim_test(cur.orelse[0].test) == var:
                cur = cur.orelse[0]
                seen.add(id(cur))
                branches.append(cur)
            out.append((var, branches, cur.orelse))
    return out


def r05_1(ctx, repo, files=None):
    rule = 'R05.1'
    n_chains = 0
    for rel, cls, fn in repo.all_functions(files):
        if rel.startswith('chi/plots') or rel.startswith('chi/library'):
            continue
        for var, branches, tail in chains(fn):
            n_chains += 1
            facts = [_branch_facts(b.body, var) for b in branches]
            any_rebind = any(f[0] for f in facts)
            construct = '%s.%s' % (cls, fn.name) if cls else fn.name
            for b, (rebinds, exits, dropped) in zip(branches, facts):
                where = repo.loc(b, cls, fn.name)
                test = U(b.test)
                if rebinds or exits:
                    ctx.ok(rule, where, construct,
                           'branch `%s` rebinds %s or leaves' % (test, var))
                    continue
                if dropped and any_rebind:
                    st, other = dropped[0]
                    ctx.violation(
                        rule, where, construct, 'branch %s' % test,
                        'rank-dispatch branch `%s` computes the normalised '
                        'layout of `%s` but binds it to `%s`; `%s` keeps its '
                        'input layout while sibling branches normalise it' % (
                            test, var, other, var),
                        variable=var, bound_to=other)
                else:
                    ctx.ok(rule, where, construct,
                           'branch `%s` neither re-lays-out %s nor drops a '
                           'normalised copy' % (test, var))
    if n_chains < 30:
        ctx.error(rule, 'only %d rank-dispatch chains found (floor 30)'
                  % n_chains)


# positive fixture: the rule must be able to fire (expected count may be 0)
FIXTURE = '''
def f(parameters):
    if parameters.ndim == 1:
        parameters = parameters.reshape(1, 2, 3)
    elif parameters.ndim == 2:
        n_parameters = parameters[np.newaxis, ...]
    return parameters[:, 0]
'''


def fixture_fires():
    fn = ast.parse(FIXTURE).body[0]
    (var, branches, tail), = chains(fn)
    facts = [_branch_facts(b.body, var) for b in branches]
    return any(f[0] for f in facts) and bool(facts[1][2]) and not facts[1][0]
