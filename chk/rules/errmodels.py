"""C04 / C06 rules on the error models (engine F + guard rule).

R04.1 support guards: identical across the three kernels of a model, cover
      every scale parameter with `<= 0` (log-normal: also outputs `<= 0`),
      return -inf / full(n_obs, -inf) / (-inf, full(n_mech + K, inf)).
R04.2 total = sum_j pointwise; score inside the sensitivities = total.
R04.3 pointwise = log of the documented density; recognised as normalised.
R04.4 sensitivities = (sum_j dl/dyb * M_j., dl/dsigma_1, ..., dl/dsigma_K)
      in unpacking order.
R06.1 sampler: mean/variance structure of the draw equals the density's.
"""
import ast

import sympy as sp

from ..loader import U, norm_stmt, AnalysisError, expand_pred
from .. import spec as SP
from ..term import (NotASum, Lifter, Slots, Tup, Opaque, Unsupported, summand, is_zero,
                    gaussian_family, S, has_S)

KERNELS = ('_compute_log_likelihood', '_compute_pointwise_ll',
           '_compute_sensitivities')


def _models(repo):
    specs = SP.error_model_specs()
    out = []
    for k in repo.subclasses('ErrorModel', strict=True):
        if all(repo.has_method(k, m) for m in KERNELS):
            out.append(k)
    missing = [k for k in specs if k not in out]
    if missing:
        raise AnalysisError('anchored error model kernels vanished: %s'
                            % ', '.join(missing))
    return out, specs


def _lift(repo, cls, meth, params, yb=None, y=None):
    fn = repo.method(cls, meth)
    lf = Lifter(repo, cls)
    env = {'parameters': Tup(params),
           'model_output': SP.yb if yb is None else yb,
           'observations': SP.y if y is None else y,
           'model_sensitivities': SP.M}
    val = lf.run(fn, env)
    return fn, lf, val


def _res(e):
    return str(sp.simplify(e))[:120]


def r04_terms(ctx, repo):
    """R04.2, R04.3, R04.4 (term algebra)."""
    models, specs = _models(repo)
    for cls in models:
        if cls not in specs:
            ctx.note('R04.3', 'error model %s has no transcribed density; '
                     'only internal consistency is checked' % cls)
        K = None
        sp_ = specs.get(cls)
        # number of parameters from the unpacking of `parameters`
        params = sp_['params'] if sp_ else sp.symbols('s0:2', positive=True)
        try:
            f_tot, l_tot, tot = _lift(repo, cls, KERNELS[0], params)
            f_pw, l_pw, pw = _lift(repo, cls, KERNELS[1], params)
            f_se, l_se, se = _lift(repo, cls, KERNELS[2], params)
        except Unsupported as e:
            ctx.error('R04', 'cannot lift kernels of %s: %s' % (cls, e))
            continue
        eng = 'term-algebra'
        # R04.2 total = sum pointwise
        c = '%s.%s' % (cls, KERNELS[0])
        try:
            l = summand(tot)
        except NotASum as e:
            ctx.violation('R04.2', repo.loc(f_tot, cls, KERNELS[0]), c,
                          'total not a sum',
                          'the total log-likelihood is not a sum of '
                          'per-observation terms (%s): it cannot equal the '
                          'sum of the pointwise values for every number of '
                          'observations' % e, engine=eng)
            l = None
        except Unsupported as e:
            ctx.error('R04.2', '%s: %s' % (c, e))
            continue
        z = is_zero(l - pw) if l is not None else 'reported'
        where = repo.loc(f_tot, cls, KERNELS[0])
        if z == 'reported':
            pass
        elif z is True:
            ctx.ok('R04.2', where, c, 'total log-likelihood = sum over '
                   'observations of the pointwise expression', engine=eng)
        elif z is False:
            ctx.violation('R04.2', where, c, 'total!=sum(pointwise)',
                          'the total log-likelihood is not the sum of the '
                          'pointwise values: residual per observation %s'
                          % _res(l - pw), engine=eng)
        else:
            ctx.error('R04.2', '%s: residual %s undecided' % (c, _res(l - pw)))
        # score inside sensitivities
        c3 = '%s.%s' % (cls, KERNELS[2])
        where3 = repo.loc(f_se, cls, KERNELS[2])
        if not (isinstance(se, (tuple, Tup)) and len(se) == 2):
            ctx.error('R04.2', '%s does not return (score, sensitivities)'
                      % c3)
            continue
        score, sens = se
        try:
            ls = summand(score)
        except NotASum as e:
            ctx.violation('R04.2', where3, c3, 'score not a sum',
                          'the score returned by the sensitivities kernel '
                          'is not a sum of per-observation terms (%s)' % e,
                          engine=eng)
            ls = None
        except Unsupported as e:
            ctx.error('R04.2', '%s: %s' % (c3, e))
            continue
        z = is_zero(ls - pw) if ls is not None else 'reported'
        if z == 'reported':
            pass
        elif z is True:
            ctx.ok('R04.2', where3, c3, 'score returned with the '
                   'sensitivities = total log-likelihood', engine=eng)
        elif z is False:
            ctx.violation('R04.2', where3, c3, 'score!=total',
                          'the score returned by the sensitivities kernel '
                          'differs from the log-likelihood: residual per '
                          'observation %s' % _res(ls - pw), engine=eng)
        else:
            ctx.error('R04.2', '%s: residual undecided' % c3)
        # R04.3 documented density
        c2 = '%s.%s' % (cls, KERNELS[1])
        where2 = repo.loc(f_pw, cls, KERNELS[1])
        if sp_:
            z = is_zero(pw - sp_['logpdf'])
            if z is True:
                ctx.ok('R04.3', where2, c2, 'pointwise value = log of the '
                       'documented density', engine=eng)
            elif z is False:
                ctx.violation('R04.3', where2, c2, 'pointwise!=documented',
                              'the pointwise log-likelihood is not the log '
                              'of the documented density: residual %s'
                              % _res(pw - sp_['logpdf']), engine=eng)
            else:
                ctx.error('R04.3', '%s: residual undecided' % c2)
            # normalisation by Gaussian-family recognition
            if sp_['family'] == 'gaussian':
                g = gaussian_family(pw, SP.y)
            else:
                ly = sp.Symbol('ly', real=True)
                g = gaussian_family(
                    (pw + sp.log(SP.y)).subs(sp.log(SP.y), ly).subs(
                        SP.y, sp.exp(ly)), ly)
            if g is None:
                ctx.violation('R04.3', where2, c2, 'not gaussian family',
                              'the pointwise log-density is not quadratic in '
                              '%s: it is not the documented (log-)normal '
                              'density' % ('y' if sp_['family'] == 'gaussian'
                                           else 'log y'), engine=eng)
            elif g[0] is True:
                ctx.ok('R04.3', where2, c2, 'density integrates to one '
                       '(normalised Gaussian family: mean %s, variance %s)'
                       % (g[1], sp.factor(g[2])), engine=eng,
                       mean=g[1], var=sp.factor(g[2]))
            elif g[0] is False:
                ctx.violation('R04.3', where2, c2, 'not normalised',
                              'the density does not integrate to one: '
                              'constant term differs from b^2/4a + '
                              'log(-a/pi)/2', engine=eng)
            else:
                ctx.error('R04.3', '%s: normalisation undecided' % c2)
        # R04.4 sensitivities
        if not isinstance(sens, (tuple, Tup)):
            ctx.error('R04.4', '%s: sensitivities are not a concatenation'
                      % c3)
            continue
        want = [('d/d(mechanistic)', sp.diff(pw, SP.yb) * SP.M)] + [
            ('d/d(parameters[%d])' % i, sp.diff(pw, s))
            for i, s in enumerate(params[:len(sens) - 1])]
        if len(sens) != 1 + len(params):
            ctx.violation('R04.4', where3, c3, 'sensitivity count',
                          'the sensitivities concatenate %d blocks but the '
                          'model has %d error parameters (+ the mechanistic '
                          'block)' % (len(sens), len(params)), engine=eng)
            continue
        for (label, w), got in zip(want, sens):
            try:
                g = summand(got)
            except Unsupported as e:
                ctx.error('R04.4', '%s %s: %s' % (c3, label, e))
                continue
            z = is_zero(g - w)
            if z is True:
                ctx.ok('R04.4', where3, c3, '%s equals the derivative of the '
                       'pointwise log-density (summed)' % label, engine=eng)
            elif z is False:
                ctx.violation('R04.4', where3, c3, 'gradient ' + label,
                              'sensitivity block %s is not the derivative of '
                              'the log-likelihood: residual per observation '
                              '%s' % (label, _res(g - w)), engine=eng)
            else:
                ctx.error('R04.4', '%s %s: residual undecided' % (c3, label))
        # The Gaussian family is defined for outputs and observations on the
        # whole real line: the three kernels must also agree with each other
        # where the model output is negative (the documented density is only
        # compared on the positive branch above).
        if sp_ is None or sp_['family'] == 'gaussian':
            _negative_branch(ctx, repo, cls, params, eng)
    ctx.floor('R04.2', 8)
    ctx.floor('R04.3', 8)
    ctx.floor('R04.4', 9)


def _negative_branch(ctx, repo, cls, params, eng):
    ybn = sp.Symbol('ybn', positive=True)
    yr = sp.Symbol('yr', real=True)
    try:
        f_tot, _, tot = _lift(repo, cls, KERNELS[0], params, -ybn, yr)
        f_pw, _, pw = _lift(repo, cls, KERNELS[1], params, -ybn, yr)
        f_se, _, se = _lift(repo, cls, KERNELS[2], params, -ybn, yr)
        l = summand(tot)
    except Unsupported as e:
        ctx.note('R04.2', '%s: negative-output branch not lifted (%s)'
                 % (cls, e))
        return
    tag = ' [negative output]'
    c = '%s.%s' % (cls, KERNELS[0])
    z = is_zero(l - pw)
    if z is False:
        ctx.violation('R04.2', repo.loc(f_tot, cls, KERNELS[0]), c,
                      'total!=sum(pointwise)' + tag,
                      'for a negative model output the total log-likelihood '
                      'is not the sum of the pointwise values: residual per '
                      'observation %s' % _res(l - pw), engine=eng)
    elif z is True:
        ctx.ok('R04.2', repo.loc(f_tot, cls, KERNELS[0]), c,
               'total = sum of pointwise values also for negative model '
               'outputs', engine=eng)
    if not (isinstance(se, (tuple, Tup)) and len(se) == 2):
        return
    score, sens = se
    c3 = '%s.%s' % (cls, KERNELS[2])
    where3 = repo.loc(f_se, cls, KERNELS[2])
    try:
        ls = summand(score)
    except Unsupported:
        return
    z = is_zero(ls - pw)
    if z is False:
        ctx.violation('R04.2', where3, c3, 'score!=total' + tag,
                      'for a negative model output the score returned by '
                      'the sensitivities kernel differs from the '
                      'log-likelihood: residual per observation %s'
                      % _res(ls - pw), engine=eng)
    elif z is True:
        ctx.ok('R04.2', where3, c3, 'score = log-likelihood also for '
               'negative model outputs', engine=eng)
    if not isinstance(sens, (tuple, Tup)) or len(sens) != 1 + len(params):
        return
    want = [('d/d(mechanistic)', -sp.diff(pw, ybn) * SP.M)] + [
        ('d/d(parameters[%d])' % i, sp.diff(pw, s_))
        for i, s_ in enumerate(params)]
    for (label, w), got in zip(want, sens):
        try:
            g = summand(got)
        except Unsupported:
            continue
        z = is_zero(g - w)
        if z is False:
            ctx.violation('R04.4', where3, c3, 'gradient ' + label + tag,
                          'for a negative model output the sensitivity '
                          'block %s is not the derivative of the '
                          'log-likelihood: residual per observation %s'
                          % (label, _res(g - w)), engine=eng)
        elif z is True:
            ctx.ok('R04.4', where3, c3, '%s equals the derivative also for '
                   'negative model outputs' % label, engine=eng)


# -- guards -------------------------------------------------------------------
def _guards_of(fn):
    """The support guards of a kernel: the `if`s at the head of the body
    (between plain assignments) whose bodies leave the function.  Several
    consecutive guards act as the disjunction of their tests."""
    out = []
    for s in fn.body:
        if isinstance(s, ast.If) and s.body and isinstance(
                s.body[-1], (ast.Return, ast.Raise)) and not s.orelse:
            out.append(s)
            continue
        if isinstance(s, (ast.Assign, ast.Expr)):
            if out and not isinstance(s, ast.Expr):
                # assignments after the first guard may still precede a
                # further guard; stop at the first one that is not followed
                # by another guard
                rest = fn.body[fn.body.index(s) + 1:]
                if not any(isinstance(x, ast.If) and x.body and isinstance(
                        x.body[-1], (ast.Return, ast.Raise))
                        and not x.orelse for x in rest[:3]):
                    break
            continue
        break
    return out


def _guard_of(fn):
    gs = _guards_of(fn)
    return gs[0] if gs else None


def _scale_names(fn):
    """Names unpacked from `parameters` (scale parameters of the model)."""
    out = []
    for s in fn.body:
        if isinstance(s, ast.Assign) and len(s.targets) == 1:
            v = s.value
            t = s.targets[0]
            if isinstance(v, ast.Name) and v.id == 'parameters' and \
                    isinstance(t, ast.Tuple):
                out += [e.id for e in t.elts if isinstance(e, ast.Name)]
            if isinstance(v, ast.Subscript) and isinstance(
                    v.value, ast.Name) and v.value.id == 'parameters' \
                    and isinstance(t, ast.Name):
                out.append(t.id)
    return out


SIGN_NUM = {'neg': -1, 'zero': 0, 'pos': 1}


def _sign_eval(e, env):
    """Three-valued truth of a guard test under a sign assignment
    env: name -> 'neg' | 'zero' | 'pos'.  Only comparisons with the constant
    0 are interpreted (that is what a support guard is)."""
    if isinstance(e, ast.BoolOp):
        vs = [_sign_eval(v, env) for v in e.values]
        if isinstance(e.op, ast.Or):
            if any(v is True for v in vs):
                return True
            return False if all(v is False for v in vs) else None
        if any(v is False for v in vs):
            return False
        return True if all(v is True for v in vs) else None
    if isinstance(e, ast.UnaryOp) and isinstance(e.op, ast.Not):
        v = _sign_eval(e.operand, env)
        return None if v is None else (not v)
    if isinstance(e, ast.Call) and U(e.func) in ('np.any', 'np.all', 'any',
                                                 'all') and e.args:
        mixed = [k for k, v in env.items() if v == 'mixed']
        if mixed:
            # an array with elements of both signs: the reduction decides
            k = mixed[0]
            vs = []
            for sg in ('neg', 'pos'):
                e2 = dict(env)
                e2[k] = sg
                vs.append(_sign_eval(e, e2))
            if any(v is None for v in vs):
                return None
            return any(vs) if U(e.func) in ('np.any', 'any') else all(vs)
        # arrays are given one sign for all elements
        return _sign_eval(e.args[0], env)
    if isinstance(e, ast.Compare) and len(e.ops) == 1:
        l, r = e.left, e.comparators[0]
        op = e.ops[0]

        def val(x):
            if isinstance(x, ast.Constant) and isinstance(
                    x.value, (int, float)) and x.value == 0:
                return 0
            if isinstance(x, ast.Name) and x.id in env:
                # an array with entries of both signs has no single sign
                return SIGN_NUM.get(env[x.id])
            if isinstance(x, ast.Call) and U(x.func) in (
                    'np.min', 'np.max', 'np.amin', 'np.amax', 'min',
                    'max') and len(x.args) == 1:
                a0 = x.args[0]
                if isinstance(a0, ast.Name) and env.get(a0.id) == 'mixed':
                    return -1 if 'min' in U(x.func) else 1
                # arrays carry one sign for all elements
                return val(x.args[0])
            return None
        a, b = val(l), val(r)
        if a is None or b is None:
            return None
        if not (isinstance(l, ast.Constant) or isinstance(r, ast.Constant)):
            return None
        if isinstance(e.ops[0], (ast.Is, ast.IsNot, ast.In, ast.NotIn)):
            return None
        return {ast.Lt: a < b, ast.LtE: a <= b, ast.Gt: a > b,
                ast.GtE: a >= b, ast.Eq: a == b,
                ast.NotEq: a != b}.get(type(op))
    return None


def r04_1(ctx, repo):
    rule = 'R04.1'
    models, specs = _models(repo)
    n_mech = sp.Symbol('n_mech', positive=True)
    for cls in models:
        lognormal = cls in specs and specs[cls]['family'] == 'lognormal'
        for m in KERNELS:
            fn = repo.method(cls, m)
            construct = '%s.%s' % (cls, m)
            where = repo.loc(fn, cls, m)
            gs = [x for x in _guards_of(fn)
                  if isinstance(x.body[-1], ast.Return)]
            g = gs[0] if gs else None
            gtest = None
            if gs:
                tests = [expand_pred(repo, cls, x.test) for x in gs]
                gtest = tests[0] if len(tests) == 1 else ast.BoolOp(
                    op=ast.Or(), values=tests)
            scales = _scale_names(fn)
            if not scales:
                ctx.error(rule, '%s: scale parameters not recognised '
                          '(unpacking of `parameters`)' % construct)
                continue
            if g is None:
                ctx.violation(rule, where, construct, 'no guard',
                              'kernel has no support guard before its '
                              'closed-form expression')
                continue
            names = scales + ['model_output', 'observations']
            base = {n: 'pos' for n in names}
            # valid input must not be rejected
            v = _sign_eval(gtest, base)
            if v is True:
                ctx.violation(rule, repo.loc(g, cls, m), construct,
                              'guard rejects support',
                              'support guard `%s` rejects positive scale '
                              'parameters' % U(g.test))
            elif v is None:
                ctx.error(rule, '%s: guard `%s` is outside the recognised '
                          'idioms' % (construct, U(g.test)))
                continue
            cases = [(s, sg) for s in scales for sg in ('zero', 'neg')]
            if lognormal:
                cases += [('model_output', 'zero'), ('model_output', 'neg'),
                          ('model_output', 'mixed')]
            else:
                # the documented support of the model output and of the
                # observations is the whole real line: non-positive values
                # must not be rejected
                for var_, sg in (('model_output', 'zero'),
                                 ('model_output', 'neg'),
                                 ('observations', 'zero'),
                                 ('observations', 'neg')):
                    env = dict(base)
                    env[var_] = sg
                    v = _sign_eval(gtest, env)
                    what = '%s %s 0' % (
                        var_, '=' if sg == 'zero' else '<')
                    if v is False:
                        ctx.ok(rule, repo.loc(g, cls, m), construct,
                               'guard `%s` accepts %s' % (U(g.test), what))
                    elif v is True:
                        ctx.violation(
                            rule, repo.loc(g, cls, m), construct,
                            'guard rejects %s' % what,
                            'support guard `%s` rejects %s although the '
                            'documented density is defined for every real '
                            'model output: a finite log-likelihood is '
                            'reported as -inf' % (U(g.test), what))
                    else:
                        ctx.error(rule, '%s: guard undecided for %s' % (
                            construct, what))
            for s, sg in cases:
                env = dict(base)
                env[s] = sg
                v = _sign_eval(gtest, env)
                what = '%s %s 0' % (s, '=' if sg == 'zero' else '<') \
                    if sg != 'mixed' else \
                    '%s with some (not all) entries <= 0' % s
                if v is True:
                    ctx.ok(rule, repo.loc(g, cls, m), construct,
                           'guard `%s` rejects %s' % (U(g.test), what))
                elif v is False:
                    ctx.violation(
                        rule, repo.loc(g, cls, m), construct,
                        'guard misses %s' % what,
                        'support guard `%s` lets %s through: the kernel '
                        'must score -inf outside the support' % (
                            U(g.test), what))
                else:
                    ctx.error(rule, '%s: guard undecided for %s' % (
                        construct, what))
            # returned values
            lf = Lifter(repo, cls)
            env = {'parameters': Tup(sp.symbols('s0:%d' % len(scales))),
                   'model_output': SP.yb, 'observations': SP.y,
                   'model_sensitivities': SP.M,
                   'model_sensitivities.shape': Tup([S(sp.Integer(1)),
                                                     n_mech])}
            for sname, sym in zip(scales, env['parameters']):
                env[sname] = sym
            # plain assignments ahead of the guards (hoisted `n_obs = ...`)
            for st in fn.body:
                if st in gs:
                    continue
                if st.lineno > gs[-1].lineno:
                    break
                if isinstance(st, ast.Assign):
                    try:
                        lf._stmt(st, env, fn, 0, cls)
                    except Unsupported:
                        pass
            badbody = False
            r = None
            for gx in gs:
                lf.fulls = []
                try:
                    r = lf._block(gx.body, dict(env), fn, 0, cls)
                except Unsupported as e:
                    ctx.error(rule, '%s: guard body: %s' % (construct, e))
                    badbody = True
                    break
                if gx is not gs[-1] and (r is None or r[0] != 'ret'):
                    break
            if badbody:
                continue
            g = gx
            ret = g.body[-1]
            if r is None or r[0] != 'ret':
                ctx.violation(rule, repo.loc(g, cls, m), construct,
                              'guard return', 'guard does not return')
                continue
            val = r[1]
            n_obs = S(sp.Integer(1))
            okret = False
            if m == KERNELS[0]:
                okret = val == -sp.oo
                expect = '-inf'
            elif m == KERNELS[1]:
                okret = val == -sp.oo and len(lf.fulls) == 1 and \
                    _same(lf.fulls[0][0], n_obs)
                expect = 'full(n_obs, -inf)'
            else:
                K = len(scales)
                okret = isinstance(val, (tuple, Tup)) and len(val) == 2 \
                    and val[0] == -sp.oo and val[1] == sp.oo \
                    and len(lf.fulls) == 1 and _same(
                        lf.fulls[0][0], n_mech + K)
                expect = '(-inf, full(n_mechanistic + %d, inf))' % K
            if okret:
                ctx.ok(rule, repo.loc(ret, cls, m), construct,
                       'guard returns %s' % expect)
            else:
                ctx.violation(
                    rule, repo.loc(ret, cls, m), construct, 'guard value',
                    'guard returns `%s`; expected %s' % (
                        U(ret.value) if isinstance(ret, ast.Return)
                        and ret.value is not None else 'None', expect))
    ctx.floor(rule, 36)


def _same(a, b):
    if isinstance(a, (tuple, Tup)):
        if len(a) != 1:
            return False
        a = a[0]
    try:
        return sp.expand(a - b) == 0
    except Exception:
        return False


# -- samplers -----------------------------------------------------------------
def r06_1(ctx, repo):
    rule = 'R06.1'
    models, specs = _models(repo)
    eng = 'term-algebra'
    for cls in models:
        if cls not in specs:
            continue
        sp_ = specs[cls]
        params = sp_['params']
        fn = repo.method(cls, 'sample')
        construct = '%s.sample' % cls
        where = repo.loc(fn, cls, 'sample')
        lf = Lifter(repo, cls, flags={'n_samples is None': False})
        env = {'parameters': Tup(params), 'model_output': SP.yb,
               'n_samples': Opaque('int'), 'seed': Opaque('seed'),
               'self._n_parameters': Opaque('int')}
        try:
            val = lf.run(fn, env)
        except Unsupported as e:
            ctx.error(rule, 'cannot lift %s: %s' % (construct, e))
            continue
        eps = [d[-1] for d in lf.draws if d[0] in ('normal', 'lognormal')]
        if not eps or isinstance(val, Opaque):
            ctx.error(rule, '%s: no generator draw recognised' % construct)
            continue
        # numpy rejects a negative scale: over the model's documented domain
        # (Gaussian family: any real model output) the scale handed to the
        # generator must be non-negative
        if sp_['family'] == 'gaussian':
            ybr = sp.Symbol('ybr', real=True)
            lf2 = Lifter(repo, cls, flags={'n_samples is None': False})
            env2 = dict(env)
            env2['model_output'] = ybr
            try:
                lf2.run(fn, env2)
                draws2 = lf2.draws
            except Unsupported:
                draws2 = []
            for d in draws2:
                if d[0] in ('normal', 'lognormal') and isinstance(
                        d[2], sp.Expr) and d[2].is_nonnegative is not True \
                        and d[2].has(ybr):
                    ctx.violation(
                        rule, where, construct, 'scale may be negative',
                        'the generator is asked for draws with scale `%s`, '
                        'which is negative for a negative model output: '
                        'numpy raises "scale < 0" for predictions the '
                        'log-likelihood scores without complaint' % str(
                            d[2]).replace('ybr', 'model_output'),
                        engine=eng)
        # the density's mean / variance
        _, _, pw = _lift(repo, cls, KERNELS[1], params)
        if sp_['family'] == 'gaussian':
            g = gaussian_family(pw, SP.y)
            x = val
        else:
            ly = sp.Symbol('ly', real=True)
            g = gaussian_family(
                (pw + sp.log(SP.y)).subs(sp.log(SP.y), ly).subs(
                    SP.y, sp.exp(ly)), ly)
            x = sp.expand_log(sp.log(val), force=True)
        if g is None:
            ctx.error(rule, '%s: density not recognised' % construct)
            continue
        _, mean, var = g
        x = sp.expand(x)
        try:
            P = sp.Poly(x, *eps)
        except sp.PolynomialError:
            P = None
        if P is None or P.total_degree() > 1:
            ctx.violation(rule, where, construct, 'sample not affine',
                          'the sample is not an affine function of the '
                          'standard-normal draws', engine=eng)
            continue
        m0 = P.coeff_monomial(1)
        v0 = sum(P.coeff_monomial(e)**2 for e in eps)
        zm = is_zero(m0 - mean)
        zv = is_zero(sp.expand(v0) - sp.expand(var))
        what = ('%s of the sample' % (
            'y' if sp_['family'] == 'gaussian' else 'log y'))
        if zm is True:
            ctx.ok(rule, where, construct, 'mean of %s = mean of the '
                   'density (%s)' % (what, mean), engine=eng)
        elif zm is False:
            ctx.violation(rule, where, construct, 'sampler mean',
                          'mean of %s is %s but the density scored by the '
                          'log-likelihood has mean %s' % (
                              what, sp.simplify(m0), mean), engine=eng)
        else:
            ctx.error(rule, '%s mean undecided' % construct)
        if zv is True:
            ctx.ok(rule, where, construct, 'variance of %s = variance of '
                   'the density (%s)' % (what, sp.factor(var)), engine=eng)
        elif zv is False:
            ctx.violation(
                rule, where, construct,
                'sampler variance %s' % str(sp.factor(v0)).replace(' ', ''),
                'variance of %s is %s (sum over %d independent draws) but '
                'the density scored by the log-likelihood has variance %s'
                % (what, sp.factor(v0), len(eps), sp.factor(var)),
                engine=eng, sampler_var=sp.factor(v0),
                density_var=sp.factor(var))
        else:
            ctx.error(rule, '%s variance undecided' % construct)
    ctx.floor(rule, 8)
