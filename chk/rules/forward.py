"""Wrapper delegation (engine A + a must-pass-through walk).

R02.8 A wrapper class W (W is a subclass of the interface B and holds a
      field typed B: the Reduced* models, CovariatePopulationModel) that
      implements an interface method m by calling `self.<field>.m(...)` does
      so on *every* path to a normal exit: a path that returns without the
      delegate call answers from the wrapper's own state and silently drops
      the wrapped model's behaviour (early-return shortcuts).
      Statement kinds: if / for / while / try / with.  A loop whose body
      delegates counts as delegating (composite wrappers loop over at least
      one sub-model); an `except` handler of a `try` whose body delegates
      counts as delegated (the call was attempted).
"""
import ast

from ..loader import U
from ..types import Types

INTERFACES = ('PopulationModel', 'ErrorModel', 'MechanisticModel')
# wrappers that implement the interface by duck typing (derive from object)
DUCK = {'ReducedErrorModel': 'ErrorModel'}


def _is_deleg(n, name, fields):
    return isinstance(n, ast.Call) and isinstance(n.func, ast.Attribute) \
        and n.func.attr == name and U(n.func.value) in fields


def _has(s, name, fields):
    return any(_is_deleg(c, name, fields) for c in ast.walk(s))


def _walk(stmts, name, fields, done, out):
    """-> (terminated, done).  Appends offending Return nodes to out."""
    for s in stmts:
        if isinstance(s, ast.Return):
            if not (done or _has(s, name, fields)):
                out.append(s)
            return True, done
        if isinstance(s, ast.Raise):
            return True, done
        if isinstance(s, ast.If):
            d0 = done or _has(s.test, name, fields)
            t1, d1 = _walk(s.body, name, fields, d0, out)
            t2, d2 = _walk(s.orelse, name, fields, d0, out)
            if t1 and t2:
                return True, done
            done = d2 if t1 else d1 if t2 else (d1 and d2)
            continue
        if isinstance(s, (ast.For, ast.While)):
            t, d = _walk(s.body, name, fields, done, out)
            done = done or d or _has(s, name, fields)
            continue
        if isinstance(s, ast.Try):
            tried = _has(ast.Module(body=s.body, type_ignores=[]), name,
                         fields)
            t, d = _walk(s.body, name, fields, done, out)
            for h in s.handlers:
                _walk(h.body, name, fields, done or tried, out)
            _walk(s.orelse, name, fields, d, out)
            done = done or d
            t2, d2 = _walk(s.finalbody, name, fields, done, out)
            hs = [_walk(h.body, name, fields, True, []) for h in s.handlers]
            if t2 or (t and all(h[0] for h in hs)):
                return True, done
            continue
        if isinstance(s, ast.With):
            t, done = _walk(s.body, name, fields, done, out)
            if t:
                return True, done
            continue
        if _has(s, name, fields):
            done = True
    return False, done


def wrappers(repo, T):
    """-> {class: set of 'self._f' fields typed with the class's interface}"""
    out = {}
    for cname, c in sorted(repo.classes.items()):
        base = [b for b in INTERFACES if repo.is_subclass(cname, b)
                and b != cname]
        if cname in DUCK:
            base.append(DUCK[cname])
        if not base:
            continue
        for (k, f), t in sorted(T.fields.items(), key=lambda kv: kv[0]):
            if k not in repo.mro(cname) or not t:
                continue
            tt = t[1] if t[0] == 'list' else t
            if tt and tt[0] in base:
                out.setdefault(cname, set()).add(f)
    return out


def r02_8(ctx, repo):
    rule = 'R02.8'
    T = Types(repo)
    W = wrappers(repo, T)
    n = 0
    for cname, fields in sorted(W.items()):
        c = repo.classes[cname]
        for mname, fn in sorted(c.methods.items()):
            if mname.startswith('_') and mname != '__call__':
                continue
            if not _has(fn, mname, fields):
                continue
            n += 1
            out = []
            t, d = _walk(fn.body, mname, fields, False, out)
            construct = '%s.%s' % (cname, mname)
            if not t and not d:
                out.append(fn)
            if out:
                for o in out:
                    ctx.violation(
                        rule, repo.loc(o, cname, mname), construct,
                        'exit without delegation',
                        '`%s` leaves %s without calling `%s.%s(...)`, which '
                        'the other paths of the method delegate to: on this '
                        'path the wrapped model is never consulted' % (
                            U(o)[:60] if not isinstance(
                                o, ast.FunctionDef) else 'fall-through',
                            construct, '/'.join(sorted(fields)), mname))
            else:
                ctx.ok(rule, repo.loc(fn, cname, mname), construct,
                       'every normal exit passes through %s.%s(...)' % (
                           '/'.join(sorted(fields)), mname))
    ctx.floor(rule, 35)


FIXTURE = None


# -----------------------------------------------------------------------------
# R02.10 — a delegating wrapper hands every shared argument on
# -----------------------------------------------------------------------------
# (wrapper class, method, parameter): the wrapper consumes the argument itself
# and the wrapped model's parameter of the same name has another meaning or
# no effect.  One reason each.
NOT_FORWARDED_OK = {
    ('CovariatePopulationModel', '*', 'covariates'):
        'the covariates are consumed by the covariate model; the wrapped '
        'population model receives the covariate-shifted parameters instead',
    ('CovariatePopulationModel', '*', 'flattened'):
        'the wrapper needs the unflattened gradient of the wrapped model and '
        'applies the caller\'s `flattened` itself',
    ('CovariatePopulationModel', '*', 'reduce'):
        'the wrapper reduces after adding the covariate model\'s part',
    ('CovariatePopulationModel', 'sample', 'n_samples'):
        'one draw per sampled individual: the wrapper loops n_samples times '
        'with that individual\'s covariate-shifted parameters',
}


def r02_10(ctx, repo):
    """When a wrapper implements m by calling the wrapped model's m, every
    parameter the two signatures share reaches the delegate call (as itself
    or as a value computed from it).  An argument that is no longer passed
    on silently takes the delegate's default — upstream sensitivities are
    dropped, a flag is ignored, a seed is not used."""
    rule = 'R02.10'
    T = Types(repo)
    W = wrappers(repo, T)
    n = 0
    for cname, fields in sorted(W.items()):
        c = repo.classes[cname]
        for mname, fn in sorted(c.methods.items()):
            if mname.startswith('_') and mname != '__call__':
                continue
            calls = [x for x in ast.walk(fn) if _is_deleg(x, mname, fields)]
            if not calls:
                continue
            mine = [a.arg for a in fn.args.args + fn.args.kwonlyargs][1:]
            # the delegate's signature: any candidate class of the field
            theirs = set()
            has_kwargs = False
            for f in fields:
                t = next((v for (k, ff), v in T.fields.items()
                          if ff == f and k in repo.mro(cname)), None)
                tt = t[1] if t and t[0] == 'list' else t
                if not tt:
                    continue
                for K in T.candidates(tt):
                    d, dfn = repo.resolve(K, mname)
                    if dfn is not None:
                        theirs |= {a.arg for a in dfn.args.args
                                   + dfn.args.kwonlyargs}
                        has_kwargs = has_kwargs or dfn.args.kwarg is not None
            shared = [p for p in mine if p in theirs]
            if not shared:
                continue
            # locals derived from each parameter
            derived = {p: {p} for p in mine}
            changed = True
            while changed:
                changed = False
                for a in ast.walk(fn):
                    if isinstance(a, (ast.Assign, ast.AugAssign)):
                        tg = a.targets if isinstance(a, ast.Assign) \
                            else [a.target]
                        names = {x.id for x in ast.walk(a.value)
                                 if isinstance(x, ast.Name)}
                        for t_ in tg:
                            for x in ast.walk(t_):
                                if isinstance(x, ast.Name) or (
                                        isinstance(x, ast.Attribute)):
                                    key = U(x)
                                    src = set()
                                    for nm in names:
                                        for p, ds in derived.items():
                                            if nm in ds:
                                                src.add(p)
                                    for p in src:
                                        if key not in derived[p]:
                                            derived[p].add(key)
                                            changed = True
            # loop targets derive from what is iterated
            for l in ast.walk(fn):
                if isinstance(l, ast.For):
                    names = {x.id for x in ast.walk(l.iter)
                             if isinstance(x, ast.Name)}
                    for p, ds in derived.items():
                        if names & ds:
                            for x in ast.walk(l.target):
                                if isinstance(x, ast.Name):
                                    ds.add(x.id)
            for g in ast.walk(fn):
                if isinstance(g, ast.comprehension):
                    names = {x.id for x in ast.walk(g.iter)
                             if isinstance(x, ast.Name)}
                    for p, ds in derived.items():
                        if names & ds:
                            for x in ast.walk(g.target):
                                if isinstance(x, ast.Name):
                                    ds.add(x.id)
            n += 1
            construct = '%s.%s' % (cname, mname)
            bad = False
            used_any = set()
            for call in calls:
                used_any |= {U(x) for a in list(call.args) + [
                    k.value for k in call.keywords] for x in ast.walk(a)
                    if isinstance(x, (ast.Name, ast.Attribute))}
            for call in calls[:1]:
                for p in shared:
                    # the argument reaches the delegate on some path (other
                    # paths may reset with the delegate's default)
                    if derived[p] & used_any:
                        continue
                    if (cname, '*', p) in NOT_FORWARDED_OK or (
                            cname, mname, p) in NOT_FORWARDED_OK:
                        continue
                    bad = True
                    ctx.violation(
                        rule, repo.loc(call, cname, mname), construct,
                        'argument not forwarded %s' % p,
                        '`%s` does not pass `%s` (nor a value computed from '
                        'it) on to the wrapped model\'s `%s`, which takes an '
                        'argument of that name: the wrapped model works '
                        'with its default instead of what the caller asked '
                        'for' % (U(call)[:60], p, mname))
            if not bad:
                ctx.ok(rule, repo.loc(fn, cname, mname), construct,
                       'every shared argument (%s) reaches the delegate'
                       % ', '.join(shared))
    ctx.floor(rule, 30)
