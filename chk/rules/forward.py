"""Wrapper delegation (engine A + a must-pass-through walk).

R02.8 A wrapper class W (W is a subclass of the interface B and holds a
      field typed B: the Reduced* models, CovariatePopulationModel) that
      implements an interface method m by calling `self.<field>.m(...)` does
      so on *every* path to a normal exit: a path that returns without the
      delegate call answers from the wrapper's own state and silently drops
      the wrapped model's behaviour (early-return shortcuts).
      Statement kinds: if / for / while / try / with.  A loop whose body
      delegates counts as delegating (composite wrappers loop over at least
      one sub-model); an `except` handler of a `try` whose body delegates
      counts as delegated (the call was attempted).
"""
import ast

from ..loader import U
from ..types import Types

INTERFACES = ('PopulationModel', 'ErrorModel', 'MechanisticModel')
# wrappers that implement the interface by duck typing (derive from object)
DUCK = {'ReducedErrorModel': 'ErrorModel'}


def _is_deleg(n, name, fields):
    return isinstance(n, ast.Call) and isinstance(n.func, ast.Attribute) \
        and n.func.attr == name and U(n.func.value) in fields


def _has(s, name, fields):
    return any(_is_deleg(c, name, fields) for c in ast.walk(s))


def _walk(stmts, name, fields, done, out):
    """-> (terminated, done).  Appends offending Return nodes to out."""
    for s in stmts:
        if isinstance(s, ast.Return):
            if not (done or _has(s, name, fields)):
                out.append(s)
            return True, done
        if isinstance(s, ast.Raise):
            return True, done
        if isinstance(s, ast.If):
            d0 = done or _has(s.test, name, fields)
            t1, d1 = _walk(s.body, name, fields, d0, out)
            t2, d2 = _walk(s.orelse, name, fields, d0, out)
            if t1 and t2:
                return True, done
            done = d2 if t1 else d1 if t2 else (d1 and d2)
            continue
        if isinstance(s, (ast.For, ast.While)):
            t, d = _walk(s.body, name, fields, done, out)
            done = done or d or _has(s, name, fields)
            continue
        if isinstance(s, ast.Try):
            tried = _has(ast.Module(body=s.body, type_ignores=[]), name,
                         fields)
            t, d = _walk(s.body, name, fields, done, out)
            for h in s.handlers:
                _walk(h.body, name, fields, done or tried, out)
            _walk(s.orelse, name, fields, d, out)
            done = done or d
            t2, d2 = _walk(s.finalbody, name, fields, done, out)
            hs = [_walk(h.body, name, fields, True, []) for h in s.handlers]
            if t2 or (t and all(h[0] for h in hs)):
                return True, done
            continue
        if isinstance(s, ast.With):
            t, done = _walk(s.body, name, fields, done, out)
            if t:
                return True, done
            continue
        if _has(s, name, fields):
            done = True
    return False, done


def wrappers(repo, T):
    """-> {class: set of 'self._f' fields typed with the class's interface}"""
    out = {}
    for cname, c in sorted(repo.classes.items()):
        base = [b for b in INTERFACES if repo.is_subclass(cname, b)
                and b != cname]
        if cname in DUCK:
            base.append(DUCK[cname])
        if not base:
            continue
        for (k, f), t in sorted(T.fields.items(), key=lambda kv: kv[0]):
            if k not in repo.mro(cname) or not t:
                continue
            tt = t[1] if t[0] == 'list' else t
            if tt and tt[0] in base:
                out.setdefault(cname, set()).add(f)
    return out


def r02_8(ctx, repo):
    rule = 'R02.8'
    T = Types(repo)
    W = wrappers(repo, T)
    n = 0
    for cname, fields in sorted(W.items()):
        c = repo.classes[cname]
        for mname, fn in sorted(c.methods.items()):
            if mname.startswith('_') and mname != '__call__':
                continue
            if not _has(fn, mname, fields):
                continue
            n += 1
            out = []
            t, d = _walk(fn.body, mname, fields, False, out)
            construct = '%s.%s' % (cname, mname)
            if not t and not d:
                out.append(fn)
            if out:
                for o in out:
                    ctx.violation(
                        rule, repo.loc(o, cname, mname), construct,
                        'exit without delegation',
                        '`%s` leaves %s without calling `%s.%s(...)`, which '
                        'the other paths of the method delegate to: on this '
                        'path the wrapped model is never consulted' % (
                            U(o)[:60] if not isinstance(
                                o, ast.FunctionDef) else 'fall-through',
                            construct, '/'.join(sorted(fields)), mname))
            else:
                ctx.ok(rule, repo.loc(fn, cname, mname), construct,
                       'every normal exit passes through %s.%s(...)' % (
                           '/'.join(sorted(fields)), mname))
    ctx.floor(rule, 35)


FIXTURE = None
