"""More generic def-use rules, called per function from lint.r00 (so they are
scoped to each property's files like the other R00 lints).

L43  stale configuration read.  `v = X.q(..)` binds the answer of a query on
     a chi object; a later statement configures the same object
     (`X.m(..)` as a statement, where the fields m writes — for some class X
     may be, self-calls and calls on wrapped models followed — meet the
     fields q reads); v is read after that statement without having been
     re-bound.  The value describes the object *before* the configuration
     (the number of outputs before `set_outputs`, the number of population
     parameters before `set_n_ids`).
L44  self-referential refresh.  `self.F = self.g(..)` where g is a query of
     the same class whose answer is computed from `self.F` (and g does not
     itself write F): the table is "refreshed" from a view of its own stale
     content instead of from its source.
L45  `Generator.permuted(x, axis=..)` shuffles every slice along the axis
     independently: rows of a table do not stay together (use `permutation`
     / `shuffle`).
"""
import ast

from ..loader import U, norm_stmt
from ..effects import Effects

_EFF = {}


def _eff(repo):
    k = id(repo)
    if k not in _EFF:
        _EFF.clear()
        _EFF[k] = Effects(repo)
    return _EFF[k]


def _recv_text(e):
    """Receiver expressions we track: a local name or a self field."""
    if isinstance(e, ast.Name) and e.id != 'self':
        return e.id
    if isinstance(e, ast.Attribute) and isinstance(e.value, ast.Name) \
            and e.value.id == 'self':
        return 'self.' + e.attr
    return None


def _depends(repo, T, E, K, m, q, depth=0, seen=None):
    """May calling K.m change what K.q answers?  Direct field overlap, or a
    call pair on the same wrapped field that depends recursively."""
    seen = seen if seen is not None else set()
    key = (K, m, q)
    if key in seen or depth > 3:
        return None
    seen.add(key)
    km, fm = repo.resolve(K, m)
    kq, fq = repo.resolve(K, q)
    if fm is None or fq is None:
        return None
    wm, _rm, fcm = E.summary(K, m)
    _wq, rq, fcq = E.summary(K, q)
    both = sorted(wm & rq)
    if both:
        return '%s.%s writes %s, which %s.%s reads' % (km, m, both[0], kq, q)
    for f1, m1, _c1 in fcm:
        for f2, q1, _c2 in fcq:
            if f1 != f2 or m1 == q1:
                continue
            t = T.field(K, f1)
            if not t or t[0] == 'list':
                continue
            for K2 in T.candidates(t):
                why = _depends(repo, T, E, K2, m1, q1, depth + 1, seen)
                if why:
                    return 'through %s: %s' % (f1, why)
    return None


def _stmt_of(node):
    cur = node
    while not isinstance(cur, ast.stmt):
        cur = cur._parent
    return cur


def _branch_path(node, fn):
    """[(If/For/While/Try node id, arm name)] from fn down to the node."""
    path = []
    cur = node
    while cur is not fn and cur is not None:
        p = getattr(cur, '_parent', None)
        if isinstance(p, (ast.If, ast.For, ast.While, ast.Try)):
            for arm in ('body', 'orelse', 'handlers', 'finalbody'):
                if cur in (getattr(p, arm, None) or []):
                    path.append((id(p), arm))
        cur = p
    return path[::-1]


def _exclusive(a, b, fn):
    """Two statements on different arms of one `if`: never both executed."""
    pa, pb = dict(_branch_path(a, fn)), dict(_branch_path(b, fn))
    for k, arm in pa.items():
        if k in pb and pb[k] != arm:
            return True
    return False


def check(ctx, repo, T, rel, cls, fn, construct, rule='R00'):
    bad = 0
    E = _eff(repo)
    # ---- L43 -------------------------------------------------------------
    queries = []   # (var, recv text, method, call node, stmt)
    for a in ast.walk(fn):
        if isinstance(a, ast.Assign) and len(a.targets) == 1 and isinstance(
                a.targets[0], ast.Name) and isinstance(a.value, ast.Call) \
                and isinstance(a.value.func, ast.Attribute):
            r = _recv_text(a.value.func.value)
            # `x = x.copy()` re-binds the object itself, it is no query
            if r and r != a.targets[0].id and a.value.func.attr not in (
                    'copy', '__copy__', '__deepcopy__'):
                queries.append((a.targets[0].id, r, a.value.func.attr,
                                a.value, a))
    if queries:
        # receivers that denote one logical object in this function:
        # `self._f = x`, `y = copy.deepcopy(x)`, `y = x.copy()`
        from ..types import _unwrap_copy
        grp = {}

        def find(x):
            while grp.get(x, x) != x:
                x = grp[x]
            return x
        for a in ast.walk(fn):
            if isinstance(a, ast.Assign) and len(a.targets) == 1:
                lt = _recv_text(a.targets[0])
                rt = _recv_text(_unwrap_copy(a.value))
                if lt and rt and lt != rt:
                    grp[find(lt)] = find(rt)
        config = []    # (recv text, method, call node, stmt)
        for s in ast.walk(fn):
            if isinstance(s, ast.Expr) and isinstance(s.value, ast.Call) \
                    and isinstance(s.value.func, ast.Attribute):
                r = _recv_text(s.value.func.value)
                if r:
                    config.append((r, s.value.func.attr, s.value, s))
        for var, r, q, qcall, qst in queries:
            for r2, m, mcall, mst in config:
                if find(r2) != find(r) or mst.lineno <= qst.lineno:
                    continue
                if _exclusive(qst, mst, fn):
                    continue
                # the object is configured *with* the value: consistent
                if any(isinstance(x, ast.Name) and x.id == var
                       for x in ast.walk(mcall)):
                    continue
                t = T.type_of(qcall.func.value, cls, fn)
                if not t or t[0] == 'list':
                    continue
                why = None
                for K in T.candidates(t):
                    why = _depends(repo, T, E, K, m, q)
                    if why:
                        break
                if not why:
                    continue
                # re-bound between the configuration and the use?
                stores = [x for x in ast.walk(fn) if isinstance(x, ast.Name)
                          and x.id == var and isinstance(x.ctx, ast.Store)
                          and x is not qst.targets[0]]
                uses = [x for x in ast.walk(fn) if isinstance(x, ast.Name)
                        and x.id == var and isinstance(x.ctx, ast.Load)
                        and x.lineno > mst.end_lineno]
                uses = [u for u in uses if not any(
                    mst.end_lineno < s_.lineno <= u.lineno
                    and not _exclusive(_stmt_of(s_), _stmt_of(u), fn)
                    for s_ in stores)
                    and not _exclusive(mst, _stmt_of(u), fn)]
                # the configuration call itself may restore the queried
                # state on purpose (`old = x.get(); x.set(new); ...;
                # x.set(old)`): a use as the argument of the same mutator
                # is the save/restore idiom
                uses = [u for u in uses if not (
                    isinstance(getattr(u, '_parent', None), ast.Call)
                    and isinstance(u._parent.func, ast.Attribute)
                    and u._parent.func.attr == m)]
                if uses:
                    bad += 1
                    ctx.violation(
                        rule, repo.loc(uses[0], cls, fn.name), construct,
                        'L43 stale read %s.%s across %s' % (r, q, m),
                        '`%s` is read from `%s.%s()` before `%s.%s(..)` '
                        'configures that object (%s) and is used '
                        'afterwards (`%s`): it describes the object as it '
                        'was before the configuration' % (
                            var, r, q, r2, m, why,
                            norm_stmt(_stmt_of(uses[0]))[:60]))
    # ---- L44 -------------------------------------------------------------
    if cls:
        for a in ast.walk(fn):
            if not (isinstance(a, ast.Assign) and len(a.targets) == 1):
                continue
            f = _recv_text(a.targets[0])
            if not f or not f.startswith('self.'):
                continue
            v = a.value
            if not (isinstance(v, ast.Call) and isinstance(
                    v.func, ast.Attribute) and isinstance(
                    v.func.value, ast.Name) and v.func.value.id == 'self'):
                continue
            g = v.func.attr
            if g.startswith('_'):
                continue          # private helpers compute updates on purpose
            k, gfn = repo.resolve(cls, g)
            if gfn is None:
                continue
            w, r_, _fc = E.summary(cls, g)
            if f in r_ and not w:
                # written earlier in this function from another source?
                earlier = [x for x in ast.walk(fn) if isinstance(
                    x, ast.Assign) and x.lineno < a.lineno and any(
                        _recv_text(t_) == f for t_ in x.targets)]
                if earlier:
                    continue
                bad += 1
                ctx.violation(
                    rule, repo.loc(a, cls, fn.name), construct,
                    'L44 refreshed from own view %s' % f,
                    '`%s` assigns `%s` from `self.%s()`, a side-effect free '
                    'query that answers from `%s` itself: the table is '
                    're-derived from a view of its own previous content '
                    '(whatever the view filters out is lost, whatever was '
                    'stale stays stale) instead of from its source' % (
                        norm_stmt(a)[:60], f, g, f))
    # ---- L45 -------------------------------------------------------------
    for c in ast.walk(fn):
        if isinstance(c, ast.Call) and isinstance(c.func, ast.Attribute) \
                and c.func.attr == 'permuted' and (
                    len(c.args) > 1 or any(k.arg == 'axis'
                                           for k in c.keywords)):
            bad += 1
            ctx.violation(
                rule, repo.loc(c, cls, fn.name), construct,
                'L45 permuted along axis',
                '`%s` shuffles every slice along the axis independently '
                '(numpy Generator.permuted): the entries of one row no '
                'longer belong to the same draw / individual; rows are kept '
                'together by `permutation` / `shuffle`' % norm_stmt(c)[:60])
    # ---- L46 -------------------------------------------------------------
    # gradient methods: a component whose plain score is added to the
    # returned score must also be asked for its gradient
    if fn.name in S1_NAMES:
        score_names = set()
        for r_ in ast.walk(fn):
            if isinstance(r_, ast.Return) and isinstance(
                    r_.value, ast.Tuple) and len(r_.value.elts) >= 2:
                for x in ast.walk(r_.value.elts[0]):
                    if isinstance(x, ast.Name):
                        score_names.add(x.id)

        def comp_call(c):
            """-> (receiver text, kind) for calls on a component object"""
            if not isinstance(c, ast.Call):
                return None
            f = c.func
            r0 = _recv_text(f)
            if r0 and r0.startswith('self._'):
                return r0, 'plain'           # self._component(parameters)
            if isinstance(f, ast.Attribute):
                rr = _recv_text(f.value) or (
                    U(f.value) if isinstance(f.value, ast.Subscript)
                    else None)
                if rr and rr != 'self':
                    if f.attr in PLAIN_SCORE:
                        return rr, 'plain'
                    if f.attr in S1_NAMES:
                        return rr, 's1'
            return None
        plain, s1 = {}, set()
        for a in ast.walk(fn):
            tgt = None
            if isinstance(a, ast.Assign) and len(a.targets) == 1 \
                    and isinstance(a.targets[0], ast.Name):
                tgt = a.targets[0].id
            elif isinstance(a, ast.AugAssign) and isinstance(
                    a.target, ast.Name):
                tgt = a.target.id
            for c in ast.walk(a) if isinstance(
                    a, (ast.Assign, ast.AugAssign, ast.Return, ast.Expr)) \
                    else ():
                cc = comp_call(c)
                if not cc:
                    continue
                if cc[1] == 's1':
                    s1.add(cc[0])
                elif (tgt in score_names) or isinstance(a, ast.Return):
                    # only callables that are chi / pints components: a
                    # field typed by the constructor, or one that is asked
                    # for evaluateS1 anywhere in the class
                    plain.setdefault(cc[0], c)
        for rr, c in sorted(plain.items()):
            if rr in s1:
                continue
            if rr.startswith('self.') and cls:
                # a method of the class itself is a kernel, not a component
                if repo.resolve(cls, rr[5:])[1] is not None:
                    continue
            bad += 1
            ctx.violation(
                rule, repo.loc(c, cls, fn.name), construct,
                'L46 score term without gradient %s' % rr,
                '%s adds the plain score `%s` of the component `%s` to the '
                'score it returns but never asks that component for its '
                'sensitivities: the returned gradient is not the derivative '
                'of the returned score' % (construct, norm_stmt(c)[:50], rr))
    # ---- L47 -------------------------------------------------------------
    # the process-wide numpy stream is re-seeded although every draw that
    # follows has a Generator equivalent (pints priors and scipy `rvs`
    # without `random_state` can only be seeded globally; `np.random.normal`
    # and its siblings cannot claim that)
    seeds = [c for c in ast.walk(fn) if isinstance(c, ast.Call) and U(
        c.func) in ('np.random.seed', 'numpy.random.seed')]
    if seeds:
        from .rng import _is_global_draw
        draws = [(_is_global_draw(c), c) for c in ast.walk(fn)
                 if isinstance(c, ast.Call)]
        draws = [(g, c) for g, c in draws if g]
        if draws and all(g.startswith('numpy global stream')
                         for g, c in draws):
            bad += 1
            ctx.violation(
                rule, repo.loc(seeds[0], cls, fn.name), construct,
                'L47 avoidable global reseed',
                '`%s` resets the process-wide random stream for `%s`, a '
                'draw that a local `np.random.default_rng(seed)` provides: '
                'a seeded call then changes what every other unseeded or '
                'globally seeded draw in the process returns' % (
                    norm_stmt(seeds[0])[:40],
                    norm_stmt(draws[0][1])[:40]))
    # ---- L48 -------------------------------------------------------------
    # (a) a cached object handed out uncopied on the path that fills the
    #     cache although the path that finds it filled returns a copy;
    # (b) instance state stored in a class-level container (shared by all
    #     instances of the class)
    copies_of = {}      # slot text -> return node that copies from the slot
    for r_ in ast.walk(fn):
        if isinstance(r_, ast.Return) and r_.value is not None:
            v = r_.value
            inner = None
            if isinstance(v, ast.Call):
                f = U(v.func)
                if f in ('copy.copy', 'copy.deepcopy') and v.args:
                    inner = v.args[0]
                elif isinstance(v.func, ast.Attribute) and v.func.attr in (
                        'copy', 'clone', '__deepcopy__'):
                    inner = v.func.value
            if inner is not None:
                base = inner
                while isinstance(base, ast.Subscript):
                    base = base.value
                t_ = _recv_text(base)
                if t_ and t_.startswith('self.'):
                    copies_of[t_] = r_
    if copies_of:
        for a in ast.walk(fn):
            if not (isinstance(a, ast.Assign) and len(a.targets) == 1
                    and isinstance(a.value, ast.Name)):
                continue
            base = a.targets[0]
            while isinstance(base, ast.Subscript):
                base = base.value
            t_ = _recv_text(base)
            if t_ not in copies_of:
                continue
            v = a.value.id
            for r_ in ast.walk(fn):
                if isinstance(r_, ast.Return) and isinstance(
                        r_.value, ast.Name) and r_.value.id == v \
                        and r_.lineno > a.lineno:
                    bad += 1
                    ctx.violation(
                        rule, repo.loc(r_, cls, fn.name), construct,
                        'L48 cache master returned %s' % t_,
                        '`%s` is stored in `%s` and returned as it is, while '
                        'the path that finds the cache filled returns a copy '
                        '(`%s`): the first caller holds the master, and '
                        'whatever it configures shows in every later copy' % (
                            v, t_, norm_stmt(copies_of[t_])[:50]))
    if cls:
        for a in ast.walk(fn):
            if not isinstance(a, ast.Assign):
                continue
            for t in a.targets:
                base = t
                while isinstance(base, (ast.Subscript,)):
                    base = base.value
                if not (isinstance(base, ast.Attribute) and (
                        (isinstance(base.value, ast.Name) and (
                            repo.has_cls(base.value.id)
                            or base.value.id == 'cls'))
                        or U(base.value) in ('type(self)',
                                             'self.__class__'))):
                    continue
                if base is t and not isinstance(a.value, (
                        ast.Name, ast.Attribute)):
                    continue
                srcs = [x for x in ast.walk(a.value) if isinstance(
                    x, ast.Attribute) and isinstance(x.value, ast.Name)
                    and x.value.id == 'self']
                if srcs:
                    bad += 1
                    ctx.violation(
                        rule, repo.loc(a, cls, fn.name), construct,
                        'L48 instance state in class container %s' % U(
                            base)[:40],
                        '`%s` stores `%s`, state of this instance, in a '
                        'class-level attribute: every instance of the class '
                        '(in this process) sees and modifies the same '
                        'object' % (norm_stmt(a)[:60], U(srcs[0])))
    # (c) a lazily filled cache of *objects* whose entry is handed out as
    #     it is: every caller configures the same instance
    for st in ast.walk(fn):
        if not (isinstance(st, ast.If) and isinstance(st.test, ast.Compare)
                and len(st.test.ops) == 1
                and isinstance(st.test.ops[0], ast.NotIn)):
            continue
        slot = _recv_text(st.test.comparators[0])
        if not slot or not slot.startswith('self.'):
            continue
        params_ = {a.arg for a in fn.args.args}
        fills = [a for b in st.body for a in ast.walk(b)
                 if isinstance(a, ast.Assign) and isinstance(
                     a.targets[0], ast.Subscript)
                 and _recv_text(a.targets[0].value) == slot
                 and isinstance(a.value, ast.Call)
                 and (repo.has_cls(U(a.value.func).split('.')[-1])
                      or (isinstance(a.value.func, ast.Name)
                          and a.value.func.id in params_))]
        if not fills:
            continue
        for r_ in ast.walk(fn):
            if isinstance(r_, ast.Return) and isinstance(
                    r_.value, ast.Subscript) and _recv_text(
                    r_.value.value) == slot:
                bad += 1
                ctx.violation(
                    rule, repo.loc(r_, cls, fn.name), construct,
                    'L48 cached object handed out %s' % slot,
                    '`%s` returns the entry of the cache `%s` itself (filled '
                    'by `%s`): every caller receives the same mutable '
                    'object, so configuring one (dosing, outputs, names) '
                    'changes what the next caller gets' % (
                        norm_stmt(r_)[:50], slot, norm_stmt(fills[0])[:50]))
    # (d) state handed from this object to another one field by field: one
    #     field is copied, another container is not
    if cls:
        moved = []
        for a in ast.walk(fn):
            if isinstance(a, ast.Assign) and len(a.targets) == 1 \
                    and isinstance(a.targets[0], ast.Attribute) \
                    and isinstance(a.targets[0].value, ast.Name) \
                    and a.targets[0].value.id != 'self':
                v = a.value
                copied = False
                if isinstance(v, ast.Call):
                    f_ = U(v.func)
                    if f_ in ('copy.copy', 'copy.deepcopy', 'np.copy',
                              'np.array', 'list', 'dict') and v.args:
                        v, copied = v.args[0], True
                    elif isinstance(v.func, ast.Attribute) \
                            and v.func.attr == 'copy' and not v.args:
                        v, copied = v.func.value, True
                t_ = _recv_text(v)
                if t_ and t_.startswith('self.'):
                    moved.append((a, t_, copied, a.targets[0].value.id))
        if any(m_[2] for m_ in moved) and any(not m_[2] for m_ in moved):
            from .purity import _mutable_fields
            mut = _mutable_fields(repo, cls)
            for a, t_, copied, other in moved:
                if not copied and t_ in mut and any(
                        m_[2] and m_[3] == other for m_ in moved):
                    bad += 1
                    ctx.violation(
                        rule, repo.loc(a, cls, fn.name), construct,
                        'L48 shared container handed over %s' % t_,
                        '`%s` hands the container `%s` of this object to '
                        '`%s` as it is, while the neighbouring fields are '
                        'copied: the two objects then write into one array '
                        '/ list' % (norm_stmt(a)[:60], t_, other))
    # ---- L49 -------------------------------------------------------------
    # the sorting permutation of an array that is already sorted is the
    # identity: whatever is re-ordered with it stays as it was
    sorted_names = {}
    for a in ast.walk(fn):
        if isinstance(a, ast.Assign) and len(a.targets) == 1 and isinstance(
                a.value, ast.Call) and U(a.value.func) in (
                'np.sort', 'sorted', 'np.unique'):
            t_ = _recv_text(a.targets[0]) if not isinstance(
                a.targets[0], ast.Name) else a.targets[0].id
            if t_:
                sorted_names.setdefault(t_, []).append(a)
    for c in ast.walk(fn):
        if isinstance(c, ast.Call) and (U(c.func) == 'np.argsort' or (
                isinstance(c.func, ast.Attribute)
                and c.func.attr == 'argsort' and not c.args)):
            arg = c.args[0] if U(c.func) == 'np.argsort' and c.args \
                else c.func.value
            hit = None
            if isinstance(arg, ast.Call) and U(arg.func) in (
                    'np.sort', 'sorted', 'np.unique'):
                hit = arg
            else:
                t_ = arg.id if isinstance(arg, ast.Name) else _recv_text(arg)
                defs = [a for a in ast.walk(fn) if isinstance(a, ast.Assign)
                        and any((x.id if isinstance(x, ast.Name)
                                 else _recv_text(x)) == t_
                                for x in a.targets) and a.lineno < c.lineno]
                if t_ and defs and max(defs, key=lambda a: a.lineno) in \
                        sorted_names.get(t_, []):
                    hit = max(defs, key=lambda a: a.lineno)
            if hit is not None:
                bad += 1
                ctx.violation(
                    rule, repo.loc(c, cls, fn.name), construct,
                    'L49 argsort of sorted',
                    '`%s` is the sorting permutation of a value that is '
                    'already sorted (`%s`), i.e. the identity: the data '
                    'that is re-ordered with it keeps the caller\'s order '
                    'while the sorted values are used next to it' % (
                        U(c)[:50], norm_stmt(hit)[:50]))
    # ---- L50 -------------------------------------------------------------
    # truthiness of an optional seed: 0 is a valid seed, not "no seed"
    a_ = fn.args
    pos, dfl = a_.args, a_.defaults
    optional = {x.arg for x, d in list(zip(pos[len(pos) - len(dfl):], dfl))
                + [(x, d) for x, d in zip(a_.kwonlyargs, a_.kw_defaults)
                   if d is not None]
                if isinstance(d, ast.Constant) and d.value is None}
    if optional:
        seeded = set()
        for c in ast.walk(fn):
            if isinstance(c, ast.Call):
                f = U(c.func)
                args = list(c.args) + [k.value for k in c.keywords
                                       if k.arg in (None, 'seed')]
                if f.endswith(('random.seed', 'random.default_rng',
                               'random.RandomState', 'SeedSequence')):
                    seeded |= {x.id for a in args for x in ast.walk(a)
                               if isinstance(x, ast.Name)}
                seeded |= {k.value.id for k in c.keywords
                           if k.arg in ('seed', 'random_state')
                           and isinstance(k.value, ast.Name)}
        for n in ast.walk(fn):
            if not isinstance(n, (ast.If, ast.IfExp, ast.While)):
                continue
            parts = n.test.values if isinstance(n.test, ast.BoolOp) \
                else [n.test]
            for x in parts:
                if isinstance(x, ast.UnaryOp) and isinstance(x.op, ast.Not):
                    x = x.operand
                if isinstance(x, ast.Name) and x.id in optional \
                        and x.id in seeded:
                    bad += 1
                    ctx.violation(
                        rule, repo.loc(n, cls, fn.name), construct,
                        'L50 truthiness of optional seed %s' % x.id,
                        '`%s` decides by truthiness whether the optional '
                        'seed `%s` was given: the valid seed 0 is treated '
                        'like None, so a run seeded with 0 is not '
                        'reproducible' % (U(n.test)[:40], x.id))
    # ---- L51 -------------------------------------------------------------
    # the truth value of a reduction compared by ordering with a number:
    # `np.all(x) > 0` tests "no entry is zero", not "every entry is positive"
    for c in ast.walk(fn):
        if isinstance(c, ast.Compare) and len(c.ops) == 1 and isinstance(
                c.ops[0], (ast.Gt, ast.GtE, ast.Lt, ast.LtE)) \
                and isinstance(c.left, ast.Call) and U(c.left.func) in (
                    'np.all', 'np.any', 'all', 'any', 'np.alltrue',
                    'np.sometrue') and c.left.args \
                and not isinstance(c.left.args[0], ast.Compare):
            bad += 1
            ctx.violation(
                rule, repo.loc(c, cls, fn.name), construct,
                'L51 ordering of a truth value',
                '`%s` compares the truth value of a reduction with a '
                'number: `%s(x)` is True when %s entry is non-zero, so '
                'negative entries pass; the comparison belongs inside the '
                'reduction' % (U(c)[:50], U(c.left.func),
                               'every' if 'all' in U(c.left.func)
                               else 'some'))
    return bad


S1_NAMES = ('evaluateS1', 'compute_sensitivities')
PLAIN_SCORE = ('__call__', 'compute_log_likelihood')
