"""Typestate rules on the mechanistic models (engine G).

R11.1  simulator rebuilt  => protocol re-attached (or regimen reset) on every
       path to the method's exit; a stored regimen is the one handed to
       set_protocol.
R11.2  self._model replaced => name tables refreshed on every path, unless the
       new model is a clone of the current one.
"""
import ast
import itertools

from ..loader import U, norm_stmt, AnalysisError
from ..pathwalk import Walker, State


def _is_new_sim(value, st):
    if isinstance(value, ast.Call) and U(value.func).endswith('Simulation'):
        return True
    if isinstance(value, ast.Name) and st.ts.get('newsim:' + value.id):
        return True
    return False


def _sim_kind(value, st):
    """'S' if the new Simulation is built with sensitivities, else 'N'."""
    if isinstance(value, ast.Name):
        k = st.ts.get('newsim:' + value.id)
        return k if k in ('S', 'N') else 'N'
    if isinstance(value, ast.Call):
        for kw in value.keywords:
            if kw.arg == 'sensitivities' and not (
                    isinstance(kw.value, ast.Constant)
                    and kw.value.value is None):
                return 'S'
        if len(value.args) >= 3:
            return 'S'
    return 'N'


def _split_attr(t):
    """X._attr -> (X text, attr) for X a Name"""
    if isinstance(t, ast.Attribute) and isinstance(t.value, ast.Name):
        return t.value.id, t.attr
    return None, None


class PKPDWalker(Walker):
    def __init__(self, repo, recv):
        super().__init__(repo, recv)

    def _reg_ref(self, node, obj):
        s = U(node)
        return s in ('%s._dosing_regimen' % obj, '%s.dosing_regimen()' % obj)

    def on_return_bind(self, target, retinfo, st, frame):
        kind, pos, obj_state = retinfo
        if kind == 'obj':
            # returned object carries its simulator/regimen state
            if isinstance(target, ast.Name):
                for k, v in obj_state.items():
                    st.ts[k.replace('<ret>', target.id)] = v
        elif kind == 'alias':
            if isinstance(target, ast.Tuple) and pos is not None \
                    and pos < len(target.elts):
                st.ts['modelalias'] = U(target.elts[pos])
            elif isinstance(target, ast.Name) and pos is None:
                st.ts['modelalias'] = target.id

    def ret_info(self, retnode, st, k, fn):
        # object returned by copy(): transfer per-object facts
        if isinstance(retnode, ast.Name):
            name = retnode.id
            obj = {kk.replace(':' + name, ':<ret>'): v
                   for kk, v in st.ts.items() if kk.endswith(':' + name)}
            if obj:
                return ('obj', None, obj)
            if st.ts.get('modelalias') == name:
                return ('alias', None, None)
        if isinstance(retnode, ast.Tuple):
            for i, e in enumerate(retnode.elts):
                if isinstance(e, ast.Name) and st.ts.get(
                        'modelalias') == e.id:
                    return ('alias', i, None)
        return None

    def on_assign(self, target, value, st, frame):
        where = (frame['cls'], frame['fn'].name, target.lineno)
        if isinstance(target, ast.Name):
            # locals: new simulators and clones
            st.ts.pop('newsim:' + target.id, None)
            st.ts.pop('cloneof:' + target.id, None)
            if _is_new_sim(value, st):
                st.ts['newsim:' + target.id] = _sim_kind(value, st)
            if isinstance(value, ast.Call) and U(value.func) in (
                    'copy.deepcopy', 'copy.copy') and value.args and U(
                    value.args[0]) == 'self':
                # the clone starts with the original's flags
                for k, v in list(st.env.items()):
                    if k.startswith('self.') and isinstance(v, bool):
                        st.env[target.id + k[4:]] = v
            if isinstance(value, ast.Call) and isinstance(
                    value.func, ast.Attribute) and value.func.attr == 'clone':
                src = U(value.func.value)
                if src == 'self._model':
                    st.ts['cloneof:' + target.id] = 'current'
                elif isinstance(value.func.value, ast.Name) and st.ts.get(
                        'cloneof:' + src) == 'current':
                    st.ts['cloneof:' + target.id] = 'current'
            if st.ts.get('modelalias') == target.id and not (
                    isinstance(value, ast.Name)):
                # the local no longer names the refreshed model
                pass
            return
        obj, attr = _split_attr(target)
        if obj is None:
            return
        if attr == '_output_names':
            st.ts['outs:' + obj] = 'CHANGED'
            st.trace += (('outputs replaced', where, U(value)),)
        if attr == '_simulator':
            if _is_new_sim(value, st):
                st.ts['outs:' + obj] = 'SYNC'
                st.ts['simkind:' + obj] = _sim_kind(value, st)
                st.ts['sim:' + obj] = 'DET'
                st.trace += (('rebuild', where, norm_stmt(target._parent)
                              if hasattr(target, '_parent') else ''),)
        elif attr == '_dosing_regimen':
            if isinstance(value, ast.Constant) and value.value is None:
                if st.ts.get('sim:' + obj, 'REG') == 'DET':
                    st.ts['sim:' + obj] = 'REG'
                elif st.ts.get('sim:' + obj, 'REG') == 'REG' and \
                        frame['fn'].name != '__init__':
                    st.ts['sim:' + obj] = 'OLD'
                    st.trace += (('regimen reset without set_protocol',
                                  where, ''),)
            else:
                v = U(value)
                if st.ts.get('prot:' + obj) == v:
                    st.ts['sim:' + obj] = 'REG'
                else:
                    st.ts['sim:' + obj] = 'OLD'
                    st.ts['pending:' + obj] = v
                    st.trace += (('regimen stored', where, v),)
        elif attr == '_model' and obj == 'self':
            if isinstance(value, ast.Constant) and value.value is None:
                return
            fresh = False
            if isinstance(value, ast.Name):
                if st.ts.get('cloneof:' + value.id) == 'current':
                    fresh = True
                if st.ts.get('modelalias') == value.id and st.ts.get(
                        'tab', 'FRESH') == 'FRESH' and st.ts.get(
                        'refreshed_after_assign'):
                    fresh = True
                st.ts['modelalias'] = value.id
            if not fresh:
                st.ts['tab'] = 'STALE'
                st.ts['refreshed_after_assign'] = False
                st.trace += (('model replaced', where, U(value)),)

    def on_call(self, call, st, frame):
        f = call.func
        if not isinstance(f, ast.Attribute):
            return None
        # X._simulator.set_protocol(arg)
        if f.attr == 'set_protocol' and isinstance(f.value, ast.Attribute) \
                and f.value.attr == '_simulator' and isinstance(
                    f.value.value, ast.Name) and call.args:
            obj = f.value.value.id
            arg = call.args[0]
            if self._reg_ref(arg, obj):
                st.ts['sim:' + obj] = 'REG'
            else:
                v = U(arg)
                st.ts['prot:' + obj] = v
                if st.ts.get('pending:' + obj) == v:
                    st.ts['sim:' + obj] = 'REG'
                else:
                    st.ts['sim:' + obj] = 'OLD'
            return 'handled'
        if isinstance(f.value, ast.Name) and f.value.id == 'self':
            if f.attr == '_set_number_and_names':
                st.ts['tab'] = 'FRESH'
                st.ts['refreshed_after_assign'] = True
                return 'handled'
            # model-surgery helper after the last refresh must not add states
            # or literal constants
            if st.ts.get('refreshed_after_assign') and st.ts.get(
                    'tab') == 'FRESH':
                k, fn = self.repo.resolve(self.recv, f.attr)
                if fn is not None and _adds_parameters(fn):
                    st.ts['tab'] = 'STALE'
                    st.trace += (('helper adds parameters after refresh',
                                  (k, fn.name, fn.lineno), f.attr),)
        return None


def _adds_parameters(fn):
    """The helper promotes a variable to a state, or adds a variable that it
    does not bind (=> a new literal constant)."""
    added, bound = set(), set()
    for n in ast.walk(fn):
        if isinstance(n, ast.Call) and isinstance(n.func, ast.Attribute):
            if n.func.attr == 'promote':
                return True
            if n.func.attr == 'set_binding' and isinstance(
                    n.func.value, ast.Name):
                bound.add(n.func.value.id)
        if isinstance(n, ast.Assign) and len(n.targets) == 1 and isinstance(
                n.targets[0], ast.Name) and isinstance(n.value, ast.Call) \
                and isinstance(n.value.func, ast.Attribute) \
                and n.value.func.attr.startswith('add_variable'):
            added.add(n.targets[0].id)
    return bool(added - bound)


def _dosing_classes(repo):
    out = []
    for k in repo.subclasses('SBMLModel'):
        kk, fn = repo.resolve(k, 'set_dosing_regimen')
        if fn is not None and any(
                isinstance(n, ast.Call) and isinstance(n.func, ast.Attribute)
                and n.func.attr == 'set_protocol' for n in ast.walk(fn)):
            out.append(k)
    return out


def _entries(repo, recv):
    """Entry points of the typestate walks: every method a caller can reach
    with the object in a consistent state.  Private helpers that the pinned
    tree does not have (extracted later; chk/inline.py substitutes them into
    their callers) are not entry points — they run mid-update by design."""
    from ..inline import load_baseline
    known = load_baseline()
    seen = {}
    for k in repo.mro(recv):
        for m, fn in repo.cls(k).methods.items():
            if m.startswith('_') and not m.startswith('__') \
                    and m not in known:
                continue
            if m not in seen:
                seen[m] = (k, fn)
    return seen


def _bool_fields(repo, recv):
    out = set()
    for k in repo.mro(recv):
        for fn in repo.cls(k).methods.values():
            for n in ast.walk(fn):
                if isinstance(n, ast.Assign) and isinstance(
                        n.value, ast.Constant) and isinstance(
                        n.value.value, bool):
                    for t in n.targets:
                        if isinstance(t, ast.Attribute) and isinstance(
                                t.value, ast.Name) and t.value.id == 'self':
                            out.add('self.' + t.attr)
    return sorted(out)


def _bool_params(fn):
    params = [a.arg for a in fn.args.args][1:]
    used = set()
    for n in ast.walk(fn):
        tests = []
        if isinstance(n, (ast.If, ast.While)):
            tests.append(n.test)
        if isinstance(n, ast.Call) and U(n.func) == 'bool':
            tests += n.args
        for t in tests:
            for x in ast.walk(t):
                if isinstance(x, ast.Name) and x.id in params:
                    # only flag-like uses: bare name, `not p`, bool(p)
                    par = getattr(x, '_parent', None)
                    if isinstance(par, (ast.If, ast.While, ast.BoolOp)) or (
                            isinstance(par, ast.UnaryOp) and isinstance(
                                par.op, ast.Not)) or (
                            isinstance(par, ast.Call)
                            and U(par.func) == 'bool'):
                        used.add(x.id)
    return [p for p in params if p in used]


def _run_all(repo, recv):
    """Walk every method of recv under every assignment of its boolean
    flags; yield (method, cls, fn, assignment, exit states, truncated)."""
    fields = _bool_fields(repo, recv)
    for m, (k, fn) in sorted(_entries(repo, recv).items()):
        if repo.is_abstract(fn):
            continue
        bp = _bool_params(fn)
        names = bp + fields
        if len(names) > 5:
            names = names[:5]
        for vals in itertools.product([True, False], repeat=len(names)):
            env = dict(zip(names, vals))
            w = PKPDWalker(repo, recv)
            ts = {'sim:self': 'REG', 'tab': 'FRESH'}
            if m == '__init__':
                ts = {'sim:self': 'DET', 'tab': 'STALE'}
            exits = w.run(m, env=env, ts=ts)
            yield m, k, fn, env, exits, w.truncated


def r11_1(ctx, repo):
    rule = 'R11.1'
    classes = _dosing_classes(repo)
    if not classes:
        raise AnalysisError('no class with a protocol-attaching '
                            'set_dosing_regimen found (anchor PKPDModel)')
    done = set()
    for recv in classes:
        for m, k, fn, env, exits, trunc in _run_all(repo, recv):
            construct = '%s.%s' % (recv, m)
            if trunc:
                ctx.error(rule, 'path explosion in %s' % construct)
            bad = {}
            rebuilt = False
            for st in exits:
                if any(t[0] in ('rebuild', 'regimen stored')
                       for t in st.trace):
                    rebuilt = True
                for key, v in st.ts.items():
                    if key.startswith('sim:') and v in ('DET', 'OLD'):
                        obj = key[4:]
                        if obj not in ('self',) and not any(
                                t[0] == 'rebuild' for t in st.trace):
                            continue
                        ev = [t for t in st.trace if t[0] in (
                            'rebuild', 'regimen stored',
                            'regimen reset without set_protocol')]
                        bad.setdefault((obj, v, ev[-1] if ev else None), env)
            if not rebuilt and not bad:
                continue
            flags = ', '.join('%s=%s' % kv for kv in env.items()) or '—'
            if bad:
                for (obj, v, ev), e in bad.items():
                    loc = '%s.%s:%d' % ev[1] if ev else construct
                    what = ('the simulator is rebuilt (%s) and no path-end '
                            're-attaches the dosing regimen' % loc) \
                        if v == 'DET' else (
                            'the stored dosing regimen is not the protocol '
                            'handed to the simulator (%s)' % loc)
                    vkey = '%s %s' % (v, ev[1][1] if ev else '')
                    if (construct, vkey) in done:
                        continue
                    done.add((construct, vkey))
                    ctx.violation(
                        rule, repo.loc(fn, k, m), construct, vkey,
                        '%s; exit of %s reached with %s under flags {%s}: '
                        'the model reports a regimen its simulations do not '
                        'apply' % (what, construct,
                                   'a detached simulator' if v == 'DET'
                                   else 'a stale protocol', flags),
                        engine='typestate', receiver=recv, flags=flags)
            else:
                ctx.ok(rule, repo.loc(fn, k, m), construct,
                       'every exit re-attaches the regimen after the rebuild '
                       'under flags {%s}' % flags, engine='typestate')
    ctx.floor(rule, 8)


def r11_2(ctx, repo):
    rule = 'R11.2'
    classes = [k for k in repo.subclasses('SBMLModel')]
    if not classes:
        raise AnalysisError('anchor class SBMLModel vanished')
    done = set()
    for recv in classes:
        for m, k, fn, env, exits, trunc in _run_all(repo, recv):
            construct = '%s.%s' % (recv, m)
            flags = ', '.join('%s=%s' % kv for kv in env.items()) or '—'
            touched = False
            stale = None
            for st in exits:
                if any(t[0] == 'model replaced' for t in st.trace) or \
                        m == '__init__':
                    touched = True
                if st.ts.get('tab') == 'STALE':
                    ev = [t for t in st.trace if t[0] in (
                        'model replaced',
                        'helper adds parameters after refresh')]
                    stale = (ev[-1] if ev else None, env)
            if not touched:
                continue
            if stale is not None:
                ev, e = stale
                key = 'stale tables ' + (
                    ', '.join('%s=%s' % kv for kv in env.items()
                              if not kv[0].startswith('self.')) or '-')
                if (construct, key) in done:
                    continue
                done.add((construct, key))
                ctx.violation(
                    rule, repo.loc(fn, k, m), construct, key,
                    '`self._model` is replaced (%s) and an exit of %s is '
                    'reached without recomputing the name/count tables '
                    '(_set_number_and_names) under flags {%s}: parameter '
                    'names and counts describe the previous model' % (
                        '%s.%s:%d `%s`' % (ev[1] + (ev[2],)) if ev
                        else '?', construct, flags),
                    engine='typestate', receiver=recv, flags=flags)
            else:
                ctx.ok(rule, repo.loc(fn, k, m), construct,
                       'tables refreshed (or model is a clone of the current '
                       'one) on every exit under flags {%s}' % flags,
                       engine='typestate')
    ctx.floor(rule, 6)


def r11_5(ctx, repo):
    """A rebuilt simulator and the `_has_sensitivities` flag agree at every
    exit (the flag decides how simulate() reads the solver's result)."""
    rule = 'R11.5'
    done = set()
    for recv in repo.subclasses('SBMLModel'):
        for m, k, fn, env, exits, trunc in _run_all(repo, recv):
            construct = '%s.%s' % (recv, m)
            for st in exits:
                for key, kind in st.ts.items():
                    if not key.startswith('simkind:'):
                        continue
                    obj = key[8:]
                    flag = st.env.get('%s._has_sensitivities' % obj)
                    want = (kind == 'S')
                    flags = ', '.join('%s=%s' % kv for kv in env.items())
                    if flag is want:
                        if (construct, obj, 'ok') not in done:
                            done.add((construct, obj, 'ok'))
                            ctx.ok(rule, repo.loc(fn, k, m), construct,
                                   'simulator rebuilt %s sensitivities and '
                                   '%s._has_sensitivities = %s' % (
                                       'with' if want else 'without', obj,
                                       want), engine='typestate')
                    elif flag is (not want):
                        vkey = 'flag mismatch %s' % obj
                        if (construct, vkey) in done:
                            continue
                        done.add((construct, vkey))
                        ctx.violation(
                            rule, repo.loc(fn, k, m), construct, vkey,
                            '%s rebuilds the simulator of `%s` %s '
                            'sensitivities but leaves '
                            '`%s._has_sensitivities` = %s (flags {%s}): '
                            'simulate() will %s' % (
                                construct, obj,
                                'with' if want else 'without', obj, flag,
                                flags,
                                'unpack a sensitivity array the solver does '
                                'not return' if not want else
                                'drop the sensitivities'),
                            engine='typestate')
    ctx.floor(rule, 4)


def r11_7(ctx, repo):
    """enable_sensitivities(True, names) always ends with a solver built for
    *this* request: the flag `_has_sensitivities` does not record which
    parameters the current solver differentiates, so a path that keeps the
    existing solver answers an earlier request."""
    rule = 'R11.7'
    n = 0
    done = set()
    for recv in repo.subclasses('SBMLModel'):
        for m, k, fn, env, exits, trunc in _run_all(repo, recv):
            if m != 'enable_sensitivities' or env.get('enabled') is not True:
                continue
            construct = '%s.%s' % (recv, m)
            flags = ', '.join('%s=%s' % kv for kv in sorted(env.items()))
            for st in exits:
                rebuilt = any(t[0] == 'rebuild' for t in st.trace)
                key = (construct, flags)
                if key in done:
                    continue
                if not rebuilt:
                    done.add(key)
                    n += 1
                    ctx.violation(
                        rule, repo.loc(fn, k, m), construct,
                        'no rebuild %s' % ', '.join(
                            '%s=%s' % kv for kv in sorted(env.items())
                            if not kv[0].startswith('self.')
                            or kv[0] == 'self._has_sensitivities'),
                        'a path through %s with {%s} returns without '
                        'building a solver for the requested sensitivities: '
                        'the model keeps the solver of an earlier request '
                        '(other parameter subset), so simulate() returns '
                        'derivatives for the wrong parameters' % (
                            construct, flags), engine='typestate')
            if (construct, flags) not in done:
                done.add((construct, flags))
                n += 1
                ctx.ok(rule, repo.loc(fn, k, m), construct,
                       'every exit under {%s} rebuilds the solver for the '
                       'current request' % flags, engine='typestate')
    if n < 2:
        ctx.error(rule, 'only %d enable_sensitivities walks (floor 2)' % n)



def r11_8(ctx, repo):
    """A solver built with sensitivities logs the outputs it was built for:
    whenever the output selection (`_output_names`) is replaced while
    sensitivities are enabled, every path to a normal exit rebuilds the
    solver (the order of the outputs is part of the request, so an equal
    *set* of outputs is not enough)."""
    rule = 'R11.8'
    n = 0
    done = set()
    for recv in repo.subclasses('SBMLModel'):
        for m, k, fn, env, exits, trunc in _run_all(repo, recv):
            if m.startswith('_') or env.get('self._has_sensitivities') \
                    is not True:
                continue        # helpers run mid-update; judge public exits
            construct = '%s.%s' % (recv, m)
            touched = False
            bad = None
            for st in exits:
                if any(t[0] == 'outputs replaced' for t in st.trace):
                    touched = True
                    if st.ts.get('outs:self') == 'CHANGED':
                        bad = st
            if not touched or (construct, bad is not None) in done:
                continue
            done.add((construct, bad is not None))
            n += 1
            if bad is not None:
                ctx.violation(
                    rule, repo.loc(fn, k, m), construct, 'stale solver outputs',
                    'a path through %s replaces the output selection while '
                    'sensitivities are enabled and returns without '
                    'rebuilding the solver: outputs() and the simulated '
                    'values follow the new selection, the sensitivities the '
                    'old one' % construct, engine='typestate')
            else:
                ctx.ok(rule, repo.loc(fn, k, m), construct,
                       'the solver is rebuilt on every path that replaces '
                       'the output selection', engine='typestate')
    if n < 1:
        ctx.error(rule, 'no method replacing the output selection found')
