"""C08 rules on the three Reduced* wrappers (def-use provenance, engine D).

R08.1 substitute-before-delegate: on the path where the mask is set, every
      call of the wrapped model receives the full vector obtained by
      scattering the caller's free values into the value buffer with
      `~mask`; on the path where it is None, the caller's vector itself.
R08.2 filter-after-delegate: returned sensitivities w.r.t. parameters are
      filtered with `~mask`; the bottom/top split of a reduced population
      score uses the wrapped model's own hierarchical count.
R08.3 sibling fix_parameters: the three implementations update mask and
      values per name, release with None and collapse to None; no other field
      is written.
R08.4 names and counts use the same `~mask`.
"""
import ast

from ..loader import U, norm_stmt, AnalysisError
from ..effects import _self_field, direct

WRAPPERS = {
    'ReducedErrorModel': ('self._error_model', 'parameters'),
    'ReducedMechanisticModel': ('self._mechanistic_model', 'parameters'),
    'ReducedPopulationModel': ('self._population_model', 'parameters'),
}
MASK = 'self._fixed_params_mask'
VALS = 'self._fixed_params_values'
NOTMASK = '~self._fixed_params_mask'
KEEP = {'np.asarray', 'np.array', 'np.copy', 'pints.vector'}
KEEP_METHODS = {'flatten', 'copy', 'ravel'}


def _mask_test(test):
    """`self._fixed_params_mask is [not] None` -> True if 'is not None'."""
    if isinstance(test, ast.Compare) and len(test.ops) == 1 and U(
            test.left) == MASK and isinstance(
            test.comparators[0], ast.Constant) \
            and test.comparators[0].value is None:
        return isinstance(test.ops[0], (ast.IsNot, ast.NotEq))
    return None


def _eval(expr, env):
    """Provenance of an expression: 'FREE' | 'FULL' | 'OTHER' | None"""
    if isinstance(expr, ast.Name):
        if expr.id in env.get('@vals', ()):
            return env.get(VALS)        # a local naming the value buffer
        return env.get(expr.id)
    s = U(expr)
    if s == VALS:
        return env.get(VALS)
    if isinstance(expr, ast.Call):
        f = U(expr.func)
        if f in KEEP and expr.args:
            return _eval(expr.args[0], env)
        if isinstance(expr.func, ast.Attribute) and \
                expr.func.attr in KEEP_METHODS:
            return _eval(expr.func.value, env)
        if any(_eval(a, env) for a in expr.args) or any(
                _eval(k.value, env) for k in expr.keywords):
            return 'OTHER'
        for n in ast.walk(expr):
            if isinstance(n, ast.Name) and env.get(n.id) or U(n) == VALS:
                return 'OTHER'
        return None
    if isinstance(expr, (ast.Subscript, ast.BinOp, ast.Tuple, ast.List)):
        for n in ast.walk(expr):
            if (isinstance(n, ast.Name) and env.get(n.id)) or (
                    isinstance(n, ast.Attribute) and U(n) == VALS
                    and env.get(VALS)):
                return 'OTHER'
    return None


def _walk(stmts, env, masked, field, sites, fn):
    """Sequential walk with the mask branch fixed to `masked`."""
    for s in stmts:
        if isinstance(s, ast.If):
            t = _mask_test(s.test)
            if t is not None:
                branch = s.body if t == masked else s.orelse
                r = _walk(branch, env, masked, field, sites, fn)
                if r == 'exit':
                    return r
                continue
            e1, e2 = dict(env), dict(env)
            r1 = _walk(s.body, e1, masked, field, sites, fn)
            r2 = _walk(s.orelse, e2, masked, field, sites, fn)
            if r1 == 'exit' and r2 == 'exit':
                return 'exit'
            live = [e for e, r in ((e1, r1), (e2, r2)) if r != 'exit']
            for k in set().union(*[set(e) for e in live]):
                vals = {e.get(k) for e in live}
                env[k] = vals.pop() if len(vals) == 1 else 'OTHER'
            continue
        if isinstance(s, (ast.For, ast.While, ast.With, ast.Try)):
            _walk(s.body, env, masked, field, sites, fn)
            continue
        for c in ast.walk(s):
            if isinstance(c, ast.Call) and isinstance(c.func, ast.Attribute) \
                    and U(c.func.value) == field:
                sites.append((c, dict(env), masked))
        if isinstance(s, ast.Assign) and len(s.targets) == 1:
            t = s.targets[0]
            if isinstance(t, ast.Name):
                # locals that name the buffer itself or the free-entry mask
                env['@vals'] = frozenset(env.get('@vals', ())) - {t.id}
                env['@free'] = frozenset(env.get('@free', ())) - {t.id}
                if U(s.value) == VALS or (isinstance(s.value, ast.Name)
                                          and s.value.id in env['@vals']):
                    env['@vals'] = env['@vals'] | {t.id}
                    env.pop(t.id, None)
                    continue
                if U(s.value) == NOTMASK or (isinstance(
                        s.value, ast.Name) and s.value.id in env['@free']):
                    env['@free'] = env['@free'] | {t.id}
                    env.pop(t.id, None)
                    continue
                v = _eval(s.value, env)
                env[t.id] = v
            elif isinstance(t, ast.Subscript) and (
                    U(t.value) == VALS or (isinstance(t.value, ast.Name)
                                           and t.value.id in env.get(
                                               '@vals', ()))):
                rhs = _eval(s.value, env)
                free_idx = U(t.slice) == NOTMASK or (isinstance(
                    t.slice, ast.Name) and t.slice.id in env.get(
                        '@free', ()))
                if free_idx and rhs == 'FREE':
                    env[VALS] = 'FULL'
                else:
                    env[VALS] = 'OTHER'
                    env['_bad_scatter'] = norm_stmt(s)
        if isinstance(s, (ast.Return, ast.Raise)):
            return 'exit'
    return None


def _param_arg(call, fn_params_name, repo, wrapped_candidates):
    for k in call.keywords:
        if k.arg == 'parameters':
            return k.value
    if call.args:
        return call.args[0]
    return None


EVAL_METHODS = {'compute_log_likelihood', 'compute_pointwise_ll',
                'compute_sensitivities', 'sample', 'simulate',
                'compute_individual_parameters'}


def r08_1(ctx, repo):
    rule = 'R08.1'
    for cls, (field, pname) in WRAPPERS.items():
        c = repo.cls(cls)
        for m, fn in sorted(c.methods.items()):
            params = [a.arg for a in fn.args.args]
            if pname not in params or m not in EVAL_METHODS:
                continue
            construct = '%s.%s' % (cls, m)
            for masked in (True, False):
                sites = []
                env = {pname: 'FREE', VALS: None}
                _walk(fn.body, env, masked, field, sites, fn)
                for call, e, _ in sites:
                    if call.func.attr not in EVAL_METHODS:
                        continue
                    arg = _param_arg(call, pname, repo, None)
                    if arg is None:
                        continue
                    got = _eval(arg, e)
                    want = 'FULL' if masked else 'FREE'
                    where = repo.loc(call, cls, m)
                    label = 'mask set' if masked else 'mask None'
                    if got == want:
                        ctx.ok(rule, where, construct,
                               '[%s] wrapped `%s` receives %s' % (
                                   label, call.func.attr,
                                   'the value buffer after the free values '
                                   'were scattered with ~mask' if masked
                                   else 'the caller\'s vector'))
                    else:
                        ctx.violation(
                            rule, where, construct,
                            'delegate gets %s (%s)' % (got, label),
                            '[%s] the wrapped model\'s `%s` receives `%s`, '
                            'which is %s; expected %s%s' % (
                                label, call.func.attr, U(arg)[:50],
                                {'FREE': 'the caller\'s free vector without '
                                         'the fixed values substituted',
                                 'FULL': 'the full buffer',
                                 'OTHER': 'a re-assembled vector whose order '
                                          'is not the original parameter '
                                          'order',
                                 None: 'unrelated to the caller\'s values'
                                 }[got],
                                'the value buffer with the free values '
                                'written at `~mask`' if masked else
                                'the caller\'s vector',
                                ' (scatter: `%s`)' % e['_bad_scatter']
                                if e.get('_bad_scatter') else ''))
    ctx.floor(rule, 18)


def _store_width(fn, store):
    """For `sel[lo:hi] = ~mask` with `sel = np.ones/zeros(L)`:
    -> (block is the last P entries?, P, width, L) with P = the wrapper's
    parameter count (length of the mask); None if not evaluable."""
    import sympy as sp
    t = store.targets[0]
    if not (isinstance(t.value, ast.Name) and isinstance(t.slice, ast.Slice)
            and t.slice.step is None):
        return None
    base = t.value.id
    defs = [a for a in ast.walk(fn) if isinstance(a, ast.Assign)
            and U(a.targets[0]) == base and isinstance(a.value, ast.Call)
            and U(a.value.func) in ('np.ones', 'np.zeros', 'np.empty')
            and a.value.args and a.lineno < store.lineno]
    if not defs:
        return None
    P = sp.Symbol('P', positive=True, integer=True)

    def ev(e, depth=0):
        if U(e) == 'self._n_parameters':
            return P
        if isinstance(e, ast.Constant) and isinstance(e.value, int):
            return sp.Integer(e.value)
        if isinstance(e, ast.UnaryOp) and isinstance(e.op, ast.USub):
            v = ev(e.operand, depth)
            return None if v is None else -v
        if isinstance(e, ast.BinOp) and isinstance(e.op, (ast.Add, ast.Sub)):
            a, b = ev(e.left, depth), ev(e.right, depth)
            if a is None or b is None:
                return None
            return a + b if isinstance(e.op, ast.Add) else a - b
        if isinstance(e, ast.Name) and depth < 3:
            d = [a for a in ast.walk(fn) if isinstance(a, ast.Assign)
                 and U(a.targets[0]) == e.id and a.lineno < store.lineno]
            if len(d) == 1:
                v = ev(d[0].value, depth + 1)
                if v is not None:
                    return v
            return sp.Symbol(e.id, positive=True, integer=True)
        if isinstance(e, (ast.Subscript, ast.Attribute, ast.Call)):
            return sp.Symbol(U(e).replace(' ', ''), positive=True,
                             integer=True)
        return None
    L = ev(defs[-1].value.args[0])
    if L is None:
        return None

    def pos(b, default):
        if b is None:
            return default
        v = ev(b)
        if v is None:
            return None
        # a syntactically negative bound counts from the end
        if isinstance(b, ast.UnaryOp) and isinstance(b.op, ast.USub):
            return L + v
        return v
    lo, hi = pos(t.slice.lower, sp.Integer(0)), pos(t.slice.upper, L)
    if lo is None or hi is None:
        return None
    width = sp.expand(hi - lo)
    ok = sp.expand(width - P) == 0 and sp.expand(hi - L) == 0
    return ok, P, width, L


def r08_2(ctx, repo):
    """Filtering of returned sensitivities."""
    rule = 'R08.2'
    # (a) every subscript that filters a delegate's gradient uses ~mask
    for cls, (field, pname) in WRAPPERS.items():
        c = repo.cls(cls)
        fn = c.methods.get('compute_sensitivities')
        if fn is None:
            continue
        construct = '%s.compute_sensitivities' % cls
        # locals naming ~mask, and selection vectors assembled from it
        free_names, sel_names = set(), {}

        def is_notmask(e):
            return U(e) == NOTMASK or (isinstance(e, ast.Name)
                                       and e.id in free_names)
        for a in sorted((x for x in ast.walk(fn)
                         if isinstance(x, ast.Assign)),
                        key=lambda x: x.lineno):
            if len(a.targets) != 1 or not isinstance(a.targets[0], ast.Name):
                continue
            v = a.value
            if is_notmask(v):
                free_names.add(a.targets[0].id)
            elif isinstance(v, ast.Call) and U(v.func) in (
                    'np.concatenate', 'np.hstack') and v.args and isinstance(
                    v.args[0], (ast.Tuple, ast.List)):
                parts = v.args[0].elts
                if any(is_notmask(p_) for p_ in parts):
                    # the wrapped model's own parameters come last in the
                    # gradient: ~mask must be the last block
                    sel_names[a.targets[0].id] = (
                        is_notmask(parts[-1]) and not any(
                            is_notmask(p_) for p_ in parts[:-1]), a)
        filt = [n for n in ast.walk(fn) if isinstance(n, ast.Subscript)
                and isinstance(n.ctx, ast.Load)
                and (MASK in U(n.slice) or (isinstance(n.slice, ast.Name)
                                            and n.slice.id in free_names))]
        stores = [n for n in ast.walk(fn) if isinstance(n, ast.Assign)
                  and isinstance(n.targets[0], ast.Subscript)
                  and (MASK in U(n.value) or is_notmask(n.value))
                  and U(n.targets[0].value) != VALS
                  and not (isinstance(n.targets[0].value, ast.Name)
                           and n.targets[0].value.id in free_names)]
        n_ok = 0
        for name, (ok_, a) in sorted(sel_names.items()):
            if ok_:
                n_ok += 1
                ctx.ok(rule, repo.loc(a, cls, fn.name), construct,
                       'selection `%s` = [all other entries | ~mask]'
                       % norm_stmt(a)[:60])
            else:
                ctx.violation(
                    rule, repo.loc(a, cls, fn.name), construct,
                    'selection block',
                    '`%s` does not place ~mask on the last n_parameters '
                    'entries of the selection: the free/fixed flags are '
                    'not aligned with the wrapped model\'s own parameters at '
                    'the end of the gradient' % norm_stmt(a)[:70])
        for n in filt:
            if U(n.value) == VALS:
                continue
            if is_notmask(n.slice):
                n_ok += 1
                ctx.ok(rule, repo.loc(n, cls, fn.name), construct,
                       '`%s` keeps the free parameters\' sensitivities'
                       % U(n)[:60])
            else:
                ctx.violation(
                    rule, repo.loc(n, cls, fn.name), construct,
                    'filter %s' % U(n.slice)[:30],
                    'sensitivities are filtered with `%s` instead of '
                    '`~self._fixed_params_mask`: the entries of the fixed '
                    'parameters are returned' % U(n.slice))
        for n in stores:
            if is_notmask(n.value):
                w = _store_width(fn, n)
                if w is not None and w[0] is False:
                    ctx.violation(
                        rule, repo.loc(n, cls, fn.name), construct,
                        'selection block',
                        '`%s` writes the %s entries of ~mask into a block of '
                        '%s entries of the selection (total length %s): the '
                        'free/fixed flags are not aligned with the wrapped '
                        'model\'s own parameters at the end of the gradient'
                        % (norm_stmt(n)[:60], w[1], w[2], w[3]))
                    continue
                n_ok += 1
                ctx.ok(rule, repo.loc(n, cls, fn.name), construct,
                       'selection mask `%s` built from ~mask%s' % (
                           U(n)[:60], ', block = last n_parameters entries'
                           if w is not None else ''))
            else:
                ctx.violation(
                    rule, repo.loc(n, cls, fn.name), construct,
                    'selection %s' % U(n.value)[:30],
                    'the selection of returned sensitivities is built from '
                    '`%s` instead of `~self._fixed_params_mask`'
                    % U(n.value))
        n_found = len(ctx.findings)
        if n_ok == 0 and not any(
                f['rule'] == rule and f['construct'] == construct
                for f in ctx.findings):
            ctx.violation(
                rule, repo.loc(fn, cls, fn.name), construct, 'no filter',
                'compute_sensitivities returns the wrapped model\'s gradient '
                'without removing the entries of the fixed parameters')
    # (b) ReducedPopulationModel: split of the reduced score vector
    cls = 'ReducedPopulationModel'
    fn = repo.method(cls, 'compute_sensitivities')
    construct = '%s.compute_sensitivities' % cls
    splits = []
    for n in ast.walk(fn):
        if isinstance(n, ast.Subscript) and isinstance(n.slice, ast.Slice) \
                and isinstance(n.value, ast.Name):
            sl = n.slice
            b = sl.upper if sl.lower is None else sl.lower
            if b is not None and (sl.lower is None) != (sl.upper is None):
                splits.append((n, b))
    for n, b in splits:
        src = b
        if isinstance(b, ast.Name):
            defs = [s for s in ast.walk(fn) if isinstance(s, ast.Assign)
                    and any(isinstance(x, ast.Name) and x.id == b.id
                            for t in s.targets for x in ast.walk(t))]
            if defs:
                src = defs[-1].value
        txt = U(src)
        where = repo.loc(n, cls, fn.name)
        if 'n_hierarchical_parameters' in txt and \
                'self._population_model' in txt:
            ctx.ok(rule, where, construct,
                   'split `%s` uses the wrapped model\'s own hierarchical '
                   'count' % U(n))
        elif 'self._n_dim' in txt or '.n_dim()' in txt:
            ctx.violation(
                rule, where, construct, 'split by n_dim',
                'the reduced score vector is split at `%s`; the number of '
                'bottom-level entries is n_ids * n_hierarchical_dim '
                '(`n_hierarchical_parameters(n_ids)[0]`), which is smaller '
                'than n_ids * n_dim when a dimension is pooled or '
                'heterogeneous' % txt[:60])
        elif 'n_hierarchical_dim' in txt or 'len(dscore)' in txt:
            ctx.ok(rule, where, construct,
                   'split `%s` derives from the hierarchical count' % U(n))
        else:
            ctx.error(rule, '%s: split point `%s` is outside the recognised '
                      'idioms' % (construct, txt[:60]))
    # (c) the unfiltered shortcut `if mask is None: return <wrapped result>`
    # is taken only when nothing is fixed: a test that also holds for other
    # reasons (`mask is None or <anything else>`) returns the wrapped model's
    # full-length result while parameters are fixed
    for cls in WRAPPERS:
        for mname, fn in sorted(repo.cls(cls).methods.items()):
            for st in ast.walk(fn):
                if not isinstance(st, ast.If) or MASK not in U(st.test):
                    continue
                t = st.test
                if isinstance(t, ast.BoolOp) and isinstance(t.op, ast.Or) \
                        and any(_mask_test(v) is False for v in t.values) \
                        and any(MASK not in U(v) for v in t.values) \
                        and any(isinstance(x, ast.Return)
                                for b in st.body for x in ast.walk(b)):
                    other = [U(v) for v in t.values if MASK not in U(v)]
                    ctx.violation(
                        rule, repo.loc(st, cls, mname),
                        '%s.%s' % (cls, mname), 'weakened shortcut',
                        'the shortcut that returns the wrapped model\'s '
                        'result unfiltered is also taken when `%s` holds '
                        'while parameters are fixed: the result then has the '
                        'wrapped model\'s length / layout, not the reduced '
                        'one' % other[0][:50])
    ctx.floor(rule, 5)


def _fix_summary(fn):
    """Role tuple of a fix_parameters implementation."""
    out = dict(alloc_mask=False, alloc_vals=False, upd_mask=False,
               upd_vals=False, release=False, collapse=False, other=set(),
               names_from=None)
    w, r, sc, fc = direct(fn)
    out['other'] = {f for f in w if f not in (MASK, VALS)}
    for n in ast.walk(fn):
        if isinstance(n, ast.Assign) and len(n.targets) == 1:
            t = n.targets[0]
            tt = U(t)
            if tt == MASK and isinstance(n.value, ast.Call) and \
                    'zeros' in U(n.value.func):
                out['alloc_mask'] = True
            if tt == VALS and isinstance(n.value, ast.Call) and (
                    'empty' in U(n.value.func) or 'zeros' in U(
                        n.value.func)):
                out['alloc_vals'] = True
            if isinstance(t, ast.Subscript) and U(t.value) == MASK:
                out['upd_mask'] = True
                v = n.value
                if isinstance(v, ast.Compare) and isinstance(
                        v.ops[0], ast.IsNot) and isinstance(
                        v.comparators[0], ast.Constant) and \
                        v.comparators[0].value is None:
                    out['release'] = True
                out['mask_index'] = U(t.slice)
            if isinstance(t, ast.Subscript) and U(t.value) == VALS:
                out['upd_vals'] = True
                out['vals_index'] = U(t.slice)
            if tt == MASK and isinstance(n.value, ast.Constant) and \
                    n.value.value is None:
                out['collapse'] = True
        if isinstance(n, ast.For) and isinstance(n.iter, ast.Call) and U(
                n.iter.func) == 'enumerate' and n.iter.args:
            out['names_from'] = U(n.iter.args[0])
    return out


CASES = ('ABSENT', 'NONE', 'ZERO', 'NUM')
WANT_MASK = {'ABSENT': 'unchanged', 'NONE': False, 'ZERO': True, 'NUM': True}


class _Top(Exception):
    pass


def _case_effects(fn):
    """Abstract run of the per-name update loop of fix_parameters for the
    four kinds of dictionary entry a name can have: absent, None, a number
    that is falsy (0.0) and any other number.
    -> {case: (mask effect, values written?)}; raises _Top with a reason when
    the loop is outside the interpreted idioms."""
    params = [a.arg for a in fn.args.args if a.arg != 'self']
    if not params:
        raise _Top('no dictionary parameter')
    dnames = {params[0]}
    mask_alias, val_alias = {MASK}, {VALS}
    loop = None
    for st in fn.body:
        if isinstance(st, ast.Assign) and len(st.targets) == 1 \
                and isinstance(st.targets[0], ast.Name):
            v = st.value
            if isinstance(v, ast.Call) and U(v.func) == 'dict' and v.args \
                    and U(v.args[0]) in dnames:
                dnames.add(st.targets[0].id)
            if U(v) in mask_alias:
                mask_alias.add(st.targets[0].id)
            if U(v) in val_alias:
                val_alias.add(st.targets[0].id)
        if isinstance(st, ast.Try):
            for b in st.body:
                if isinstance(b, ast.Assign) and isinstance(
                        b.value, ast.Call) and U(b.value.func) == 'dict' \
                        and b.value.args and U(b.value.args[0]) in dnames \
                        and isinstance(b.targets[0], ast.Name):
                    dnames.add(b.targets[0].id)
        if isinstance(st, ast.For) and any(
                isinstance(x, (ast.Assign, ast.AugAssign)) and any(
                    isinstance(t, ast.Subscript) and U(t.value) in mask_alias
                    for t in (x.targets if isinstance(x, ast.Assign)
                              else [x.target]))
                for x in ast.walk(st)):
            loop = st
    if loop is None:
        raise _Top('per-name update loop not found')
    # the loop runs over the model's names (entries absent from the
    # dictionary are visited) or over the dictionary's items (they are not)
    over_items = isinstance(loop.iter, ast.Call) and isinstance(
        loop.iter.func, ast.Attribute) and loop.iter.func.attr == 'items' \
        and U(loop.iter.func.value) in dnames
    item_value = None
    if over_items:
        if isinstance(loop.target, ast.Tuple) and len(loop.target.elts) == 2 \
                and isinstance(loop.target.elts[1], ast.Name):
            item_value = loop.target.elts[1].id
        else:
            raise _Top('items() loop target not (name, value)')

    def is_lookup(e):
        """d[name] -> 'sub';  d.get(name[, default]) -> ('get', default)"""
        if isinstance(e, ast.Subscript) and U(e.value) in dnames:
            return 'sub'
        if isinstance(e, ast.Call) and isinstance(e.func, ast.Attribute) \
                and e.func.attr == 'get' and U(e.func.value) in dnames:
            return ('get', e.args[1] if len(e.args) > 1 else None)
        return None

    def truth(e, env):
        """three-valued truth of a test; None = unknown"""
        if isinstance(e, ast.UnaryOp) and isinstance(e.op, ast.Not):
            t = truth(e.operand, env)
            return None if t is None else (not t)
        if isinstance(e, ast.BoolOp):
            ts = [truth(v, env) for v in e.values]
            if isinstance(e.op, ast.And):
                if any(t is False for t in ts):
                    return False
                return True if all(t is True for t in ts) else None
            if any(t is True for t in ts):
                return True
            return False if all(t is False for t in ts) else None
        if isinstance(e, ast.Constant):
            return bool(e.value)
        if isinstance(e, ast.Call) and U(e.func) == 'bool' and e.args:
            return truth(e.args[0], env)
        if isinstance(e, ast.Name) and e.id in env:
            c = env[e.id]
            if isinstance(c, bool):
                return c
            if c in ('NONE', 'ZERO'):
                return False
            if c == 'NUM':
                return True
            return None
        if isinstance(e, ast.Subscript) and U(e.value) in mask_alias:
            # the entry of the mask before / during this call
            return env.get('@mask', env.get('@prev'))
        if isinstance(e, ast.Compare) and len(e.ops) == 1:
            l, r, op = e.left, e.comparators[0], e.ops[0]
            if isinstance(op, (ast.Eq, ast.NotEq, ast.Is, ast.IsNot)) and \
                    not (isinstance(r, ast.Constant) and r.value is None):
                a_, b_ = truth(l, env), truth(r, env)
                if a_ is not None and b_ is not None and (
                        isinstance(l, ast.Subscript)
                        or isinstance(r, ast.Subscript)
                        or isinstance(env.get(getattr(l, 'id', None)), bool)
                        or isinstance(env.get(getattr(r, 'id', None)),
                                      bool)):
                    same = a_ == b_
                    return same if isinstance(op, (ast.Eq, ast.Is)) \
                        else not same
            if isinstance(op, (ast.In, ast.NotIn)) and U(r) in dnames | {
                    '%s.keys()' % d for d in dnames}:
                present = env['@case'] != 'ABSENT'
                return present if isinstance(op, ast.In) else not present
            if isinstance(r, ast.Constant) and r.value is None and \
                    isinstance(l, ast.Name) and l.id in env and isinstance(
                        op, (ast.Is, ast.IsNot, ast.Eq, ast.NotEq)):
                isnone = env[l.id] == 'NONE'
                return isnone if isinstance(op, (ast.Is, ast.Eq)) \
                    else not isnone
        return None

    def absval(v, env):
        """kind of a value computed from the dictionary entry:
        'NONE' | 'ZERO' | 'NUM' | None (unknown)"""
        if isinstance(v, ast.Constant):
            if v.value is None:
                return 'NONE'
            if isinstance(v.value, (int, float)) and not isinstance(
                    v.value, bool):
                return 'ZERO' if v.value == 0 else 'NUM'
            return None
        if U(v) in ('np.nan', 'np.inf', 'numpy.nan', 'float("nan")',
                    "float('nan')"):
            return 'NUM'        # not None, and truthy
        if isinstance(v, ast.Name):
            c = env.get(v.id)
            return c if c in ('NONE', 'ZERO', 'NUM') else None
        if isinstance(v, ast.Call) and U(v.func) in (
                'float', 'int', 'np.float64', 'np.asarray', 'np.array') \
                and v.args:
            c = absval(v.args[0], env)
            return c if c in ('ZERO', 'NUM') else None
        if isinstance(v, ast.IfExp):
            t_ = truth(v.test, env)
            if t_ is None:
                return None
            return absval(v.body if t_ else v.orelse, env)
        return None

    def run(stmts, env, eff):
        """-> 'next' (fell through) | 'stop' (continue/break/return)"""
        for st in stmts:
            if isinstance(st, ast.Try):
                looked = [b for b in st.body if isinstance(b, ast.Assign)
                          and is_lookup(b.value) == 'sub']
                catches = any(h.type is None or 'KeyError' in U(h.type)
                              or U(h.type) in ('Exception', 'LookupError')
                              for h in st.handlers)
                if looked and catches and env['@case'] == 'ABSENT':
                    # statements before the lookup ran, then the handler
                    pre = st.body[:st.body.index(looked[0])]
                    if run(pre, env, eff) == 'stop':
                        return 'stop'
                    hs = [h for h in st.handlers if h.type is None
                          or 'KeyError' in U(h.type)
                          or U(h.type) in ('Exception', 'LookupError')]
                    if run(hs[0].body, env, eff) == 'stop':
                        return 'stop'
                    continue
                if run(st.body, env, eff) == 'stop':
                    return 'stop'
                if run(st.orelse, env, eff) == 'stop':
                    return 'stop'
                continue
            if isinstance(st, ast.If):
                t = truth(st.test, env)
                if t is None:
                    if any(isinstance(x, ast.Subscript) and U(x.value) in
                           mask_alias | val_alias for b in st.body + st.orelse
                           for x in ast.walk(b)) or any(isinstance(
                               x, (ast.Continue, ast.Break, ast.Return))
                            for b in st.body + st.orelse
                            for x in ast.walk(b)):
                        raise _Top('test `%s` not decided' % U(st.test)[:50])
                    continue
                if run(st.body if t else st.orelse, env, eff) == 'stop':
                    return 'stop'
                continue
            if isinstance(st, (ast.Continue, ast.Break, ast.Return)):
                return 'stop'
            if isinstance(st, ast.Raise):
                eff['raise'] = True
                return 'stop'
            if isinstance(st, ast.Assign) and len(st.targets) == 1:
                t, v = st.targets[0], st.value
                if isinstance(t, ast.Name):
                    lk = is_lookup(v)
                    if lk == 'sub':
                        if env['@case'] == 'ABSENT':
                            eff['raise'] = True     # uncaught KeyError
                            return 'stop'
                        env[t.id] = env['@case']
                    elif isinstance(lk, tuple):
                        if env['@case'] == 'ABSENT':
                            d = lk[1]
                            if d is None or (isinstance(d, ast.Constant)
                                             and d.value is None):
                                env[t.id] = 'NONE'
                            else:
                                env[t.id] = 'SENTINEL'
                        else:
                            env[t.id] = env['@case']
                    elif isinstance(v, ast.Name) and v.id in env:
                        env[t.id] = env[v.id]
                    elif absval(v, env) is not None:
                        env[t.id] = absval(v, env)
                    elif isinstance(v, (ast.Compare, ast.UnaryOp,
                                        ast.BoolOp)) and truth(
                            v, env) is not None:
                        env[t.id] = truth(v, env)     # a boolean local
                    else:
                        env.pop(t.id, None)
                    continue
                if isinstance(t, ast.Subscript) and U(t.value) in mask_alias:
                    if isinstance(v, ast.Constant) and isinstance(
                            v.value, bool):
                        eff['mask'] = v.value
                        env['@mask'] = v.value
                    elif isinstance(v, ast.Name) and isinstance(
                            env.get(v.id), bool):
                        eff['mask'] = env[v.id]
                        env['@mask'] = env[v.id]
                    else:
                        tv = truth(v, env)
                        if tv is None or not (isinstance(
                                v, (ast.Compare, ast.UnaryOp, ast.BoolOp))
                                or (isinstance(v, ast.Call)
                                    and U(v.func) == 'bool')):
                            raise _Top('mask value `%s` not decided'
                                       % U(v)[:50])
                        eff['mask'] = tv
                        env['@mask'] = tv
                    continue
                if isinstance(t, ast.Subscript) and U(t.value) in val_alias:
                    eff['vals'] = True
                    continue
        return 'next'

    out = {}
    for case in CASES:
        if over_items and case == 'ABSENT':
            out[case] = ('unchanged', False)
            continue
        res = []
        for prev in (False, True):       # the parameter was free / fixed
            env = {'@case': case, '@prev': prev}
            if item_value:
                env[item_value] = case
            eff = {}
            run(loop.body, env, eff)
            if eff.get('raise'):
                res.append(('raises', False))
            else:
                m_ = eff.get('mask', 'unchanged')
                if m_ == 'unchanged' and case != 'ABSENT':
                    # not written: the entry keeps its previous state
                    m_ = prev
                res.append((m_, eff.get('vals', False)))
        # the worse of the two histories is reported
        want = WANT_MASK[case]
        worst = res[0]
        for r_ in res:
            if r_[0] != want or (want is True and not r_[1]):
                worst = r_
        out[case] = worst
    return out


def r08_3(ctx, repo):
    rule = 'R08.3'
    for cls in WRAPPERS:
        fn = repo.method(cls, 'fix_parameters')
        s = _fix_summary(fn)
        # what a call does to one name, by the kind of its dictionary entry
        try:
            eff = _case_effects(fn)
        except _Top as e:
            ctx.error(rule, '%s.fix_parameters: %s' % (cls, e))
            eff = None
        if eff is not None:
            label = {'ABSENT': 'a name that is not in the dictionary',
                     'NONE': 'a name mapped to None',
                     'ZERO': 'a name mapped to 0 (a falsy number)',
                     'NUM': 'a name mapped to a non-zero number'}
            say = {True: 'fixed', False: 'released',
                   'unchanged': 'left as it is', 'raises': 'an error'}
            for case in CASES:
                got, wrote = eff[case]
                want = WANT_MASK[case]
                if got == want and (wrote or want is not True):
                    ctx.ok(rule, repo.loc(fn, cls, fn.name),
                           '%s.fix_parameters' % cls,
                           '%s is %s' % (label[case], say[want]))
                elif got == want:
                    ctx.violation(
                        rule, repo.loc(fn, cls, fn.name),
                        '%s.fix_parameters' % cls, 'entry %s' % case,
                        '%s is marked fixed but its value is not stored'
                        % label[case])
                else:
                    ctx.violation(
                        rule, repo.loc(fn, cls, fn.name),
                        '%s.fix_parameters' % cls, 'entry %s' % case,
                        '%s is %s by fix_parameters; documented: %s '
                        '(fixing at None releases, any number fixes, names '
                        'that are not mentioned keep their state)' % (
                            label[case], say.get(got, got), say[want]))
        construct = '%s.fix_parameters' % cls
        where = repo.loc(fn, cls, fn.name)
        checks = [
            ('alloc_mask', 'the mask is allocated when it is None'),
            ('alloc_vals', 'the value buffer is allocated when it is None'),
            ('upd_mask', 'mask[index] is updated per name'),
            ('upd_vals', 'values[index] is updated per name'),
            ('collapse', 'an all-free mask collapses to None'),
        ]
        for key, what in checks:
            if s[key]:
                ctx.ok(rule, where, construct, what)
            else:
                ctx.violation(rule, where, construct, 'missing ' + key,
                              'fix_parameters lacks: %s' % what)
        if s.get('mask_index') != s.get('vals_index'):
            ctx.violation(rule, where, construct, 'index mismatch',
                          'mask is updated at [%s] but the values at [%s]'
                          % (s.get('mask_index'), s.get('vals_index')))
        else:
            ctx.ok(rule, where, construct,
                   'mask and values are updated at the same index')
        if s['other']:
            ctx.violation(
                rule, where, construct, 'extra state',
                'fix_parameters writes %s besides mask and values: the '
                'state after a sequence of calls is then not a function of '
                'the resulting name-value set' % ', '.join(sorted(
                    s['other'])))
        else:
            ctx.ok(rule, where, construct,
                   'no field other than mask and values is written')
    ctx.floor(rule, 30)


def r08_4(ctx, repo):
    """Names and counts are derived from the same ~mask."""
    rule = 'R08.4'
    getters = {
        'ReducedErrorModel': ('get_parameter_names', 'n_parameters'),
        'ReducedMechanisticModel': ('parameters', 'n_parameters'),
        'ReducedPopulationModel': ('get_parameter_names', 'n_parameters'),
    }
    for cls, (names_m, count_m) in getters.items():
        fn = repo.method(cls, names_m)
        construct = '%s.%s' % (cls, names_m)
        subs = [n for n in ast.walk(fn) if isinstance(n, ast.Subscript)
                and MASK in U(n.slice)]
        if subs and all(U(n.slice) == NOTMASK for n in subs):
            ctx.ok(rule, repo.loc(fn, cls, names_m), construct,
                   'names are filtered with ~mask')
        else:
            ctx.violation(
                rule, repo.loc(fn, cls, names_m), construct, 'names filter',
                'the reported names are not filtered with '
                '`~self._fixed_params_mask` (%s)' % ', '.join(
                    U(n.slice) for n in subs) or 'no filter')
        fn = repo.method(cls, count_m)
        construct = '%s.%s' % (cls, count_m)
        where = repo.loc(fn, cls, count_m)
        # the count, evaluated symbolically on both mask states, equals
        # TOTAL - popcount(mask) (resp. TOTAL when no parameter is fixed)
        import sympy as sp
        from ..term import Lifter, Opaque, Unsupported, is_zero
        TOTAL, POPC = sp.Symbol('TOTAL', positive=True), \
            sp.Symbol('POPC', positive=True)

        class CountLifter(Lifter):
            def ev(self, n, env, fn_, depth, owner):
                if U(n) == MASK:
                    return Opaque('mask')
                if isinstance(n, ast.UnaryOp) and isinstance(
                        n.op, ast.Invert):
                    v = self.ev(n.operand, env, fn_, depth, owner)
                    if isinstance(v, Opaque) and v.what == 'mask':
                        return Opaque('notmask')
                return super().ev(n, env, fn_, depth, owner)

            def _call(self, n, env, fn_, depth, owner):
                f = U(n.func)
                if f in ('np.sum', 'np.count_nonzero', 'sum') and n.args:
                    v = self.ev(n.args[0], env, fn_, depth, owner)
                    if isinstance(v, Opaque) and v.what == 'mask':
                        return POPC
                    if isinstance(v, Opaque) and v.what == 'notmask':
                        return TOTAL - POPC
                if f == 'int' and n.args:
                    return self.ev(n.args[0], env, fn_, depth, owner)
                if isinstance(n.func, ast.Attribute) and n.func.attr == \
                        'sum' and not n.args:
                    v = self.ev(n.func.value, env, fn_, depth, owner)
                    if isinstance(v, Opaque) and v.what == 'mask':
                        return POPC
                    if isinstance(v, Opaque) and v.what == 'notmask':
                        return TOTAL - POPC
                return super()._call(n, env, fn_, depth, owner)
        verdicts = []
        for mask_none, want in ((False, TOTAL - POPC), (True, TOTAL)):
            lf = CountLifter(repo, cls, flags={MASK + ' is None': mask_none})
            try:
                val = lf.run(fn, {'self._n_parameters': TOTAL})
            except Unsupported as e:
                verdicts.append(('error', str(e)))
                continue
            if not isinstance(val, sp.Expr):
                verdicts.append(('error', 'count is not a number: %r' % (
                    val,)))
                continue
            z = is_zero(val - want)
            verdicts.append(('ok' if z is True else 'bad', (val, want,
                                                            mask_none)))
        if all(v[0] == 'ok' for v in verdicts):
            ctx.ok(rule, where, construct,
                   'count = total - popcount(mask), total when nothing is '
                   'fixed')
        elif any(v[0] == 'bad' for v in verdicts):
            val, want, mn = [v[1] for v in verdicts if v[0] == 'bad'][0]
            ctx.violation(
                rule, where, construct, 'count',
                'with the mask %s the reported count evaluates to `%s`; the '
                'names are filtered with ~mask, i.e. there are `%s` of them'
                % ('unset' if mn else 'set', val, want))
        else:
            ctx.error(rule, '%s: count expression not evaluated (%s)' % (
                construct, [v[1] for v in verdicts if v[0] == 'error'][0]))
    ctx.floor(rule, 6)


# -----------------------------------------------------------------------------
# R08.6 — re-indexing of positions under the mask
# -----------------------------------------------------------------------------
def r08_6(ctx, repo):
    """A position i of the wrapped model's parameter vector becomes
    i - popcount(mask[:i]) in the reduced vector (its rank among the free
    parameters).  ReducedPopulationModel.get_special_dims re-indexes the
    (start, end) parameter ranges of pooled / heterogeneous dimensions this
    way; the record is [dim start, dim end, start', end', pooled?]."""
    import sympy as sp
    rule = 'R08.6'
    cls = 'ReducedPopulationModel'
    fn = repo.method(cls, 'get_special_dims')
    construct = cls + '.get_special_dims'
    Pc = sp.Function('popcount_before')
    TOTAL = sp.Symbol('TOTAL')
    loops = [l for l in ast.walk(fn) if isinstance(l, ast.For)]
    n = 0
    for loop in loops:
        if isinstance(loop.target, ast.Name):
            elem, fields = loop.target.id, None
        elif isinstance(loop.target, ast.Tuple) and all(
                isinstance(x, ast.Name) for x in loop.target.elts):
            elem, fields = None, [x.id for x in loop.target.elts]
        else:
            continue
        env = {}
        if fields:
            for k, nm in enumerate(fields):
                env[nm] = sp.Symbol('s%d' % k)

        def ev(e):
            if isinstance(e, ast.Constant) and isinstance(e.value, int):
                return sp.Integer(e.value)
            if isinstance(e, ast.Name):
                return env.get(e.id)
            if isinstance(e, ast.Subscript) and isinstance(
                    e.value, ast.Name) and e.value.id == elem \
                    and isinstance(e.slice, ast.Constant):
                return sp.Symbol('s%d' % e.slice.value)
            if isinstance(e, ast.Call) and U(e.func) in ('int', 'np.int64'):
                return ev(e.args[0]) if e.args else None
            if isinstance(e, ast.Call) and U(e.func) in (
                    'np.sum', 'np.count_nonzero', 'sum') and e.args:
                a = e.args[0]
                if isinstance(a, ast.Subscript) and U(a.value) == MASK \
                        and isinstance(a.slice, ast.Slice):
                    lo = ev(a.slice.lower) if a.slice.lower is not None \
                        else sp.Integer(0)
                    hi = ev(a.slice.upper) if a.slice.upper is not None \
                        else TOTAL
                    if lo is None or hi is None:
                        return None
                    return Pc(hi) - (Pc(lo) if lo != 0 else 0)
                return None
            if isinstance(e, ast.BinOp) and isinstance(
                    e.op, (ast.Add, ast.Sub)):
                a, b = ev(e.left), ev(e.right)
                if a is None or b is None:
                    return None
                return a + b if isinstance(e.op, ast.Add) else a - b
            return None
        record = None
        for s in loop.body:
            five = [x for x in ast.walk(s) if isinstance(x, ast.List)
                    and len(x.elts) == 5]
            if five:
                record = (five[0], [ev(y) for y in five[0].elts])
                continue
            if isinstance(s, ast.Assign) and len(s.targets) == 1 and \
                    isinstance(s.targets[0], ast.Name):
                env[s.targets[0].id] = ev(s.value)
            elif isinstance(s, ast.Assign) and isinstance(
                    s.targets[0], ast.Tuple) and isinstance(
                    s.value, ast.Tuple):
                vals = [ev(x) for x in s.value.elts]
                for t, v in zip(s.targets[0].elts, vals):
                    if isinstance(t, ast.Name):
                        env[t.id] = v
            elif isinstance(s, ast.Assign) and isinstance(
                    s.targets[0], ast.Tuple) and isinstance(
                    s.value, ast.Name) and s.value.id == elem:
                for k, t in enumerate(s.targets[0].elts):
                    if isinstance(t, ast.Name):
                        env[t.id] = sp.Symbol('s%d' % k)
            elif isinstance(s, ast.AugAssign) and isinstance(
                    s.target, ast.Name) and isinstance(
                    s.op, (ast.Add, ast.Sub)):
                cur, d = env.get(s.target.id), ev(s.value)
                env[s.target.id] = None if cur is None or d is None else (
                    cur + d if isinstance(s.op, ast.Add) else cur - d)
            else:
                for x in ast.walk(s):
                    if isinstance(x, ast.List) and len(x.elts) == 5:
                        record = (x, [ev(y) for y in x.elts])
        if record is None:
            continue
        n += 1
        node, vals = record
        where = repo.loc(node, cls, fn.name)
        s2, s3 = sp.Symbol('s2'), sp.Symbol('s3')
        for k, (got, base, what) in enumerate((
                (vals[2], s2, 'start'), (vals[3], s3, 'end'))):
            want = base - Pc(base)
            if got is None:
                ctx.error(rule, '%s: re-indexed %s of the parameter range '
                          'not evaluated' % (construct, what))
            elif sp.expand(got - want) == 0:
                ctx.ok(rule, where, construct,
                       'parameter range %s is shifted by the number of '
                       'fixed parameters before it' % what)
            else:
                ctx.violation(
                    rule, where, construct, 'reindex ' + what,
                    'the %s of the parameter range of a special dimension '
                    'becomes `%s`; its position among the free parameters '
                    'is `%s` (index minus the number of fixed parameters '
                    'before it): with a parameter fixed in front of or '
                    'inside the range the reported range is wrong' % (
                        what, got, want))
    if n < 1:
        ctx.error(rule, '%s: re-indexing loop not found' % construct)
