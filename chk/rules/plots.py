"""C20 rules on the figure classes (engine C, def-use).

R20.1 add_data: every marker trace receives the rows {chosen observable, own
      ID} of the caller's frame, x and y from the same filtered frame; dose
      traces the rows {dose not null, own ID}.
R20.2 the caller's frame is not written through.
R20.3 prediction bands: polygon x = [t, reversed t], y = [upper, reversed
      lower] with t, upper, lower taken in the same (un-reordered) row order;
      percentile ranks are computed within each time point.
"""
import ast

from ..loader import U, norm_stmt, AnalysisError
from ..rows import Frame, Series, Mask, ev, walk

PLOT_FILES = ('chi/plots/_time_series.py', 'chi/plots/_residuals.py')
TRACE_ROLES = {
    # helper name -> (positions of the paired series, kind)
    '_add_data_trace': ((1, 2), 'data'),
    '_add_biom_trace': ((1, 2), 'data'),
    '_add_dose_trace': ((1, 2, 3), 'dose'),
}


def r20_1(ctx, repo):
    rule = 'R20.1'
    n = 0
    for rel, cls, fn in repo.all_functions(['chi/plots/_time_series.py']):
        if fn.name != 'add_data':
            continue
        construct = '%s.add_data' % cls
        sinks = []

        def on_stmt(s, env, val):
            if isinstance(s, ast.Expr) and isinstance(s.value, ast.Call) \
                    and isinstance(s.value.func, ast.Attribute) \
                    and s.value.func.attr in TRACE_ROLES:
                c = s.value
                sinks.append((c, [ev(a, env) for a in c.args]))
        env = {'data': Frame('data')}
        walk(fn.body, env, on_stmt)
        if not sinks:
            ctx.error(rule, '%s: no trace helper call found' % construct)
            continue
        for c, vals in sinks:
            n += 1
            helper = c.func.attr
            pos, kind = TRACE_ROLES[helper]
            where = repo.loc(c, cls, fn.name)
            idarg = U(c.args[0]) if c.args else '?'
            series = [vals[i] if i < len(vals) else None for i in pos]
            if not all(isinstance(v, Series) for v in series):
                ctx.error(rule, '%s: provenance of the arguments of %s not '
                          'derived' % (construct, helper))
                continue
            if kind == 'data':
                want = {'obs_key == observable', 'id_key == %s' % idarg}
            else:
                want = {'notnull(dose_key)', 'id_key == %s' % idarg}
            f0 = series[0]
            same = all(s.frame.key() == f0.frame.key()
                       and s.extra == f0.extra for s in series)
            got = f0.filters()
            if not same:
                ctx.violation(
                    rule, where, construct, '%s pairing' % helper,
                    'the series handed to %s come from differently filtered '
                    'frames: x and y are not paired row by row' % helper)
            elif got == want and f0.frame.src == 'data':
                ctx.ok(rule, where, construct,
                       '%s receives exactly the rows {%s} of the caller\'s '
                       'frame' % (helper, ', '.join(sorted(want))))
            else:
                missing, extra = want - got, got - want
                ctx.violation(
                    rule, where, construct, '%s rows' % helper,
                    '%s receives the rows {%s}; expected exactly {%s}%s%s' % (
                        helper, ', '.join(sorted(got)),
                        ', '.join(sorted(want)),
                        ' — missing filter: ' + ', '.join(sorted(missing))
                        if missing else '',
                        ' — additional filter drops rows: '
                        + ', '.join(sorted(extra)) if extra else ''))
    if n < 6:
        ctx.error(rule, 'only %d trace hand-overs analysed (floor 6)' % n)


def r20_2(ctx, repo):
    """No write-through on the caller's frame."""
    rule = 'R20.2'
    n = 0
    for rel, cls, fn in repo.all_functions(
            ['chi/plots/_time_series.py', 'chi/plots/_residuals.py',
             'chi/plots/_base.py', 'chi/plots/_optimisation.py',
             'chi/plots/_sampling.py']):
        params = [a.arg for a in fn.args.args]
        if 'data' not in params:
            continue
        n += 1
        construct = '%s.%s' % (cls, fn.name)
        # `data` aliases the caller's object until it is rebound to a
        # filtered copy (data[mask], .copy(), ...)
        alias = True
        bad = None
        for s in ast.walk(fn):
            pass
        for s in _linear(fn.body):
            if isinstance(s, ast.Assign):
                for t in s.targets:
                    if isinstance(t, ast.Subscript) and isinstance(
                            t.value, ast.Name) and t.value.id == 'data' \
                            and alias:
                        bad = s
                    if isinstance(t, ast.Attribute) and isinstance(
                            t.value, ast.Name) and t.value.id == 'data' \
                            and alias:
                        bad = s
                    if isinstance(t, ast.Name) and t.id == 'data':
                        alias = isinstance(s.value, ast.Name)
            for c in ast.walk(s):
                if isinstance(c, ast.Call) and isinstance(
                        c.func, ast.Attribute) and isinstance(
                        c.func.value, ast.Name) and c.func.value.id == \
                        'data' and alias:
                    if any(k.arg == 'inplace' and isinstance(
                            k.value, ast.Constant) and k.value.value is True
                            for k in c.keywords) or c.func.attr in (
                            'drop_duplicates_inplace', 'update', 'insert',
                            'pop'):
                        bad = s
        if bad is not None:
            ctx.violation(rule, repo.loc(bad, cls, fn.name), construct,
                          'write-through',
                          '`%s` modifies the caller\'s data frame' %
                          norm_stmt(bad)[:60])
        else:
            ctx.ok(rule, repo.loc(fn, cls, fn.name), construct,
                   'the caller\'s frame is only read (filtered copies are '
                   'rebound)')
    if n < 8:
        ctx.error(rule, 'only %d plotting functions with a data argument '
                  'found' % n)


def _linear(stmts):
    for s in stmts:
        yield s
        for attr in ('body', 'orelse', 'finalbody'):
            sub = getattr(s, attr, None)
            if isinstance(sub, list) and sub and isinstance(sub[0], ast.stmt):
                yield from _linear(sub)


ORDER_OK = {'unique', 'to_numpy', 'values', 'copy', 'tolist', 'to_list'}
ORDER_BAD = {'np.sort', 'sorted', 'np.unique', 'np.flip', 'np.argsort'}


def _order_chain(expr):
    """-> (root text, [ops]) of an expression built from a column by
    order-preserving or order-changing operations."""
    ops = []
    cur = expr
    while True:
        if isinstance(cur, ast.Call) and isinstance(cur.func, ast.Attribute) \
                and cur.func.attr in ORDER_OK | {'sort_values', 'sort'}:
            ops.append(cur.func.attr)
            cur = cur.func.value
        elif isinstance(cur, ast.Call) and U(cur.func) in ORDER_BAD \
                and cur.args:
            ops.append(U(cur.func))
            cur = cur.args[0]
        elif isinstance(cur, ast.Call) and U(cur.func) in (
                'np.array', 'np.asarray', 'list') and cur.args:
            cur = cur.args[0]
        elif isinstance(cur, ast.Attribute) and cur.attr == 'values':
            cur = cur.value
        else:
            return U(cur), ops


def r20_3(ctx, repo):
    rule = 'R20.3'
    n = 0
    for rel, cls, fn in repo.all_functions(['chi/plots/_time_series.py']):
        if fn.name == '_add_prediction_bulk_prob_trace':
            n += 1
            construct = '%s.%s' % (cls, fn.name)
            defs = {}
            for s in _linear(fn.body):
                if isinstance(s, ast.Assign) and isinstance(
                        s.targets[0], ast.Name):
                    defs.setdefault(s.targets[0].id, []).append(s)
            scat = [c for c in ast.walk(fn) if isinstance(c, ast.Call)
                    and U(c.func).endswith('go.Scatter')]
            if not scat:
                ctx.error(rule, '%s: Scatter call not found' % construct)
                continue
            kw = {k.arg: k.value for k in scat[0].keywords}
            x, y = kw.get('x'), kw.get('y')
            where = repo.loc(scat[0], cls, fn.name)

            def hstack_parts(name):
                for s in reversed(defs.get(name, [])):
                    v = s.value
                    if isinstance(v, ast.Call) and U(v.func) in (
                            'np.hstack', 'np.concatenate') and v.args \
                            and isinstance(v.args[0], (ast.List, ast.Tuple)):
                        return v.args[0].elts, s
                return None, None
            xp, xs = hstack_parts(x.id) if isinstance(x, ast.Name) \
                else (None, None)
            yp, ys = hstack_parts(y.id) if isinstance(y, ast.Name) \
                else (None, None)
            if not xp or not yp or len(xp) != 2 or len(yp) != 2:
                ctx.error(rule, '%s: polygon construction not recognised'
                          % construct)
                continue

            def rev_of(e):
                if isinstance(e, ast.Call) and U(e.func) in (
                        'np.flip', 'np.flipud') and len(e.args) == 1 \
                        and not e.keywords:
                    return U(e.args[0])
                return U(e.value) if isinstance(e, ast.Subscript) and U(
                    e.slice).replace(' ', '') == '::-1' else None
            ok = True
            if rev_of(xp[1]) != U(xp[0]):
                ctx.violation(rule, where, construct, 'polygon x',
                              'the polygon x-coordinates are `[%s, %s]`; '
                              'expected the times followed by the reversed '
                              'times' % (U(xp[0]), U(xp[1])))
                ok = False
            ynames = (U(yp[0]), rev_of(yp[1]))
            if ynames[1] is None or ynames[0] == ynames[1]:
                ctx.violation(rule, where, construct, 'polygon y',
                              'the polygon y-coordinates are `[%s, %s]`; '
                              'expected the upper limits followed by the '
                              'reversed lower limits' % (U(yp[0]),
                                                         U(yp[1])))
                ok = False
            else:
                cols = {}
                for nm in ynames:
                    d = defs.get(nm, [])
                    root, ops = _order_chain(d[-1].value) if d else ('?', [])
                    cols[nm] = (root, ops)
                up, lo = cols[ynames[0]], cols[ynames[1]]
                if "'Upper'" not in up[0] or "'Lower'" not in lo[0]:
                    ctx.violation(
                        rule, where, construct, 'band limits',
                        'the band polygon is built from `%s` (first) and '
                        '`%s` (reversed); expected the Upper column first '
                        'and the reversed Lower column' % (up[0], lo[0]))
                    ok = False
            # order provenance of the three sequences
            seqs = {}
            tdefs = [s for s in defs.get(U(xp[0]), []) if s is not xs]
            if tdefs:
                seqs['times'] = _order_chain(tdefs[0].value)
            for nm in ynames:
                if nm and defs.get(nm):
                    seqs[nm] = _order_chain(defs[nm][-1].value)
            bad = {k: v for k, v in seqs.items()
                   if any(o in ORDER_BAD or o in ('sort_values', 'sort')
                          for o in v[1])}
            if bad and len(bad) != len(seqs):
                k, v = sorted(bad.items())[0]
                ctx.violation(
                    rule, where, construct, 'reordered ' + k,
                    '`%s` is re-ordered (%s) while the other polygon '
                    'coordinates keep the row order of the frame: for '
                    'frames that are not already sorted by time the band '
                    'limits are attached to the wrong time points' % (
                        k, ', '.join(v[1])))
                ok = False
            # the limits are read from all rows of one band: a frame that
            # drops rows (missing limits at some times) no longer lines up
            # with the full time vector
            DROPS = ('dropna', 'drop_duplicates', 'head', 'tail', 'sample',
                     'query', 'nlargest', 'nsmallest')
            for nm in ynames:
                d = defs.get(nm, []) if nm else []
                if not d:
                    continue
                frames = [x for x in ast.walk(d[-1].value)
                          if isinstance(x, ast.Name) and x.id in defs]
                chain = [d[-1].value] + [defs[f.id][-1].value
                                         for f in frames]
                dropped = [c.func.attr for v in chain for c in ast.walk(v)
                           if isinstance(c, ast.Call) and isinstance(
                               c.func, ast.Attribute)
                           and c.func.attr in DROPS]
                if dropped:
                    ctx.violation(
                        rule, where, construct, 'rows dropped ' + nm,
                        'the band limits `%s` are read after `%s()` removed '
                        'rows, while the x-coordinates are all time points: '
                        'when a limit is undefined at some times the '
                        'remaining limits are drawn at the wrong times' % (
                            nm, dropped[0]))
                    ok = False
                    break
            if ok:
                ctx.ok(rule, where, construct,
                       'band polygon: x = [t, reversed t], y = [upper, '
                       'reversed lower], all in the row order of the frame')
        if fn.name == '_compute_bulk_probs':
            n += 1
            construct = '%s.%s' % (cls, fn.name)
            ranks = [c for c in ast.walk(fn) if isinstance(c, ast.Call)
                     and isinstance(c.func, ast.Attribute)
                     and c.func.attr == 'rank']
            if len(ranks) != 1:
                quant = [c for c in ast.walk(fn) if isinstance(c, ast.Call)
                         and isinstance(c.func, ast.Attribute)
                         and c.func.attr in ('quantile', 'percentile',
                                             'nanquantile', 'nanpercentile')]
                if quant and not ranks:
                    ctx.violation(
                        rule, repo.loc(quant[0], cls, fn.name), construct,
                        'interpolated quantiles',
                        '`%s` computes the band limits by interpolating '
                        'between order statistics: the limits are no longer '
                        'sample values of that time point and can enclose '
                        'fewer samples than the requested share' % U(
                            quant[0])[:50])
                    continue
                ctx.error(rule, '%s: rank call not found' % construct)
                continue
            r = ranks[0]
            where = repo.loc(r, cls, fn.name)
            recv = U(r.func.value)
            pct = any(k.arg == 'pct' and isinstance(k.value, ast.Constant)
                      and k.value.value is True for k in r.keywords)
            dense = [k for k in r.keywords if k.arg == 'method' and not (
                isinstance(k.value, ast.Constant) and k.value.value in (
                    'average', 'min', 'max', 'first'))]
            if dense:
                ctx.violation(
                    rule, where, construct, 'rank method',
                    '`%s` ranks with method=%s: the percentile of a sample '
                    'is then a fraction of the *distinct* values, not of '
                    'the samples, so with repeated values a band holds '
                    'less than the requested share of the samples' % (
                        U(r)[:50], U(dense[0].value)))
                continue
            # the ranked series must be the per-time frame
            loop = None
            cur = getattr(r, '_parent', None)
            while cur is not None and cur is not fn:
                if isinstance(cur, ast.For):
                    loop = cur
                cur = getattr(cur, '_parent', None)
            # provenance of the ranked series (engine C): rows of the
            # caller's frame at the time point of the enclosing loop
            snap = {}

            def on_stmt(s_, env_, val_, r=r, snap=snap):
                if any(x is r for x in ast.walk(s_)) and 'env' not in snap \
                        and not isinstance(s_, (ast.For, ast.If)):
                    snap['env'] = dict(env_)
            env0 = {a.arg: Frame(a.arg) for a in fn.args.args[1:2]}
            walk(fn.body, env0, on_stmt)
            ranked = ev(r.func.value, snap.get('env', {}))
            tvar = U(loop.target) if loop is not None else None

            def at_time(v):
                return isinstance(v, Series) and tvar is not None and any(
                    f.endswith('== ' + tvar) for f in v.filters())
            approx = isinstance(ranked, Series) and tvar is not None and [
                f for f in ranked.filters() if f.endswith('~= ' + tvar)]
            if approx:
                ctx.violation(
                    rule, where, construct, 'approximate time match',
                    'the samples of a time point are selected with `%s`, an '
                    'approximate comparison: distinct time points that are '
                    'close relative to their magnitude are pooled, so the '
                    'band limits at a time are no longer ranks of that '
                    'time\'s own samples' % approx[0])
                continue
            per_time = loop is not None and at_time(ranked)
            if loop is not None and not isinstance(ranked, Series):
                ctx.error(rule, '%s: provenance of the ranked series `%s` '
                          'not derived' % (construct, recv))
                continue
            par = getattr(r, '_parent', None)
            if pct and per_time:
                ctx.ok(rule, where, construct,
                       'percentile ranks are computed within each time '
                       'point (rank(pct=True) on the per-time rows)')
            elif not per_time:
                ctx.violation(rule, where, construct, 'global ranks',
                              'ranks are computed on `%s`, not on the rows '
                              'of one time point' % recv)
            else:
                # rank() / count: the count must be the per-time size
                den = par.right if isinstance(par, ast.BinOp) and \
                    isinstance(par.op, ast.Div) else None
                dv = None
                if den is not None:
                    d0 = den.args[0] if isinstance(den, ast.Call) and U(
                        den.func) == 'len' and den.args else den
                    if isinstance(d0, ast.Call) and isinstance(
                            d0.func, ast.Attribute) and d0.func.attr in (
                            'count', 'size', '__len__'):
                        d0 = d0.func.value
                    dv = ev(d0, snap.get('env', {}))
                if dv is not None and (at_time(dv) or (isinstance(
                        dv, Frame) and any(f.endswith('== ' + tvar)
                                           for f in dv.filters))):
                    ctx.ok(rule, where, construct,
                           'ranks are normalised by the number of samples '
                           'at that time point')
                else:
                    ctx.violation(
                        rule, where, construct, 'rank normalisation',
                        'ranks are turned into fractions with `%s`, which '
                        'is not the number of samples at this time point: '
                        'with unequal sample counts per time the band '
                        'limits are taken at the wrong ranks and enclose '
                        'less than the requested fraction' % (
                            U(den) if den is not None else '?'))
    if n < 4:
        ctx.error(rule, 'only %d band functions analysed (floor 4)' % n)


def r20_4(ctx, repo):
    """Figure classes keep no data between calls: outside the constructor a
    method writes only the figure handles (`_fig`, `_figs`) and the column
    keys it was given (`_*_key`).  Anything else — in particular a store into
    a container field — is state that a later call with another dataset
    reads back (a cache keyed by time or ID is wrong for the next frame)."""
    rule = 'R20.4'
    from ..effects import Effects
    E = Effects(repo)
    n = 0
    for cname, c in sorted(repo.classes.items()):
        if not c.relpath.startswith('chi/plots'):
            continue
        for m, fn in sorted(c.methods.items()):
            if m == '__init__':
                continue
            n += 1
            w, r, fc = E.summary(cname, m)
            stores = {}
            for a in ast.walk(fn):
                if isinstance(a, (ast.Assign, ast.AugAssign)):
                    tg = a.targets if isinstance(a, ast.Assign) \
                        else [a.target]
                    for t in tg:
                        if isinstance(t, ast.Subscript) and U(
                                t.value).startswith('self._'):
                            stores[U(t.value)] = a
            bad = sorted(f for f in set(w) | set(stores)
                         if f not in ('self._fig', 'self._figs')
                         and not f.endswith('_key'))
            construct = '%s.%s' % (cname, m)
            where = repo.loc(stores[bad[0]] if bad and bad[0] in stores
                             else fn, cname, m)
            if bad:
                ctx.violation(
                    rule, where, construct, 'state ' + ','.join(bad),
                    '%s writes %s, which outlives the call: the next call '
                    '(another dataset, another prediction) reads values '
                    'computed for this one' % (construct, ', '.join(bad)))
            else:
                ctx.ok(rule, where, construct,
                       'writes only the figure handle / column keys')
    if n < 20:
        ctx.error(rule, 'only %d plot methods analysed (floor 20)' % n)
