"""C12 rules on the population filters.

R12.1 score = sum over measurements of the documented log-density given the
      estimator atoms (term algebra).
R12.2 estimator arguments: mean / var(ddof=1) over the simulated axis, rule
      of thumb bandwidth on the variance of the simulated values, equal-size
      consecutive blocks for the mixture.
R12.3 gradients of the Gaussian and log-normal filters = chain rule through
      the estimators.
R12.4 composed filter: inputs are gathered with the inverse permutation,
      outputs with the permutation itself; sub-filters receive consecutive
      time blocks (cursor rule R05.4).
"""
import ast

import sympy as sp

from ..loader import U, norm_stmt, AnalysisError
from ..term import (Lifter, Tup, Opaque, Unsupported, NotASum, summand,
                    is_zero, S)

ENG = 'term-algebra'
Y = sp.Symbol('y', positive=True)          # one measurement
YS = sp.Symbol('ys', positive=True)        # one simulated measurement
N = sp.Symbol('n_sim', positive=True)
K = sp.Symbol('n_kernels', positive=True)
MEAN = sp.Function('MEAN')
VAR1 = sp.Function('VAR1')
LSE = sp.Function('LSE')
SOFTMAX = sp.Function('SOFTMAX')
SI = sp.Function('SI')                     # sum over measured individuals
MU, V = sp.Symbol('mu', real=True), sp.Symbol('v', positive=True)
SJR = sp.Function('SJR')                   # sum over observables and times
NROWS = sp.Symbol('n_rows', positive=True)  # rows of the measurement array


class FilterLifter(Lifter):
    """Estimator calls become atoms; their arguments are recorded."""

    def ev(self, n, env, fn, depth, owner):
        # any axis length of the stored measurement array counts missing
        # values as well (`self._observations.shape[k]`, `.size`)
        if isinstance(n, ast.Subscript) and U(n.value) == \
                'self._observations.shape':
            return NROWS
        if isinstance(n, ast.Attribute) and U(n) == \
                'self._observations.size':
            return NROWS
        return super().ev(n, env, fn, depth, owner)

    def __init__(self, repo, cls, sim_axis=0, **kw):
        super().__init__(repo, cls, **kw)
        self.sim_axis = sim_axis
        self.estimators = []      # (kind, node, axis, ddof)
        self.inner_sums = []

    def _axis(self, n):
        for k in n.keywords:
            if k.arg == 'axis':
                return U(k.value)
        if len(n.args) > 1:
            return U(n.args[1])
        return None

    def _call(self, n, env, fn, depth, owner):
        f = U(n.func)
        ev = lambda e: self.ev(e, env, fn, depth, owner)   # noqa: E731
        if f in ('np.mean', 'np.ma.mean') and n.args:
            x = ev(n.args[0])
            self.estimators.append(('mean', n, self._axis(n), None))
            return MEAN(x)
        if f in ('np.var', 'np.ma.var') and n.args:
            x = ev(n.args[0])
            ddof = None
            for k in n.keywords:
                if k.arg == 'ddof':
                    ddof = U(k.value)
            self.estimators.append(('var', n, self._axis(n), ddof))
            return VAR1(x)
        if f == 'logsumexp' and n.args:
            x = ev(n.args[0])
            self.estimators.append(('logsumexp', n, self._axis(n), None))
            return LSE(x)
        if f == 'softmax' and n.args:
            return SOFTMAX(ev(n.args[0]))
        if f == 'len' and n.args:
            if U(n.args[0]) == 'self._observations':
                return NROWS
            return env.get('__len__', N)
        if f == 'np.sum' and n.args:
            ax = self._axis(n)
            x = ev(n.args[0])
            if ax is None:
                if isinstance(x, sp.Expr) and not x.has(Y):
                    # a sum that does not involve the measurements runs over
                    # observables and times only
                    return SJR(x)
                return S(x)
            self.inner_sums.append((n, ax))
            return SI(x)
        if isinstance(n.func, ast.Attribute) and n.func.attr == 'reshape':
            return ev(n.func.value)
        if f in ('np.ma.is_masked', 'np.isnan'):
            return Opaque('bool')
        return super()._call(n, env, fn, depth, owner)


def _obs_binding(repo, cls):
    """self._observations after __init__, as a term in y (dummy axes are
    elementwise views)."""
    v = Y
    for k in reversed(repo.mro(cls)):
        fn = repo.cls(k).methods.get('__init__')
        if fn is None:
            continue
        for s in ast.walk(fn):
            if isinstance(s, ast.Assign) and U(s.targets[0]) == \
                    'self._observations':
                val = s.value
                # strip subscripts (newaxis views)
                while isinstance(val, ast.Subscript):
                    val = val.value
                if isinstance(val, ast.Call) and U(val.func) == 'np.log':
                    v = sp.log(v)
                elif isinstance(val, ast.Call) and U(val.func) in (
                        'np.exp', 'np.sqrt', 'np.abs'):
                    raise AnalysisError('%s.__init__ transforms the '
                                        'observations with %s' % (
                                            k, U(val.func)))
    return v


def _lognormpdf(x, m, var):
    return -sp.log(2 * sp.pi * var) / 2 - (x - m)**2 / (2 * var)


def _bw2(var):
    return (sp.Rational(4, 3) / N) ** sp.Rational(2, 5) * var


def specs():
    mu, var = MEAN(YS), VAR1(YS)
    lmu, lvar = MEAN(sp.log(YS)), VAR1(sp.log(YS))
    return {
        # log N(y | mu, sigma^2), mu/sigma^2 empirical over simulations
        'GaussianFilter': _lognormpdf(Y, mu, var),
        # log LN(y | mu, sigma) with log-mean / log-variance estimates
        'LogNormalFilter': -sp.log(Y) + _lognormpdf(sp.log(Y), lmu, lvar),
        # log( 1/n sum_s N(y | ys, bw^2) ), rule-of-thumb bandwidth
        'GaussianKDEFilter': LSE(-(YS - Y)**2 / (2 * _bw2(var)))
        - sp.log(N) - sp.log(2 * sp.pi * _bw2(var)) / 2,
        # log( 1/n sum_s LN(y | log ys, bw) )
        'LogNormalKDEFilter': -sp.log(Y) + LSE(
            -(sp.log(YS) - sp.log(Y))**2 / (2 * _bw2(lvar)))
        - sp.log(N) - sp.log(2 * sp.pi * _bw2(lvar)) / 2,
        # log( 1/M sum_m N(y | mu_m, sigma_m^2) ) over blocks of simulations
        'GaussianMixtureFilter': LSE(
            -(mu - Y)**2 / (2 * var) - sp.log(var) / 2)
        - sp.log(K) - sp.log(2 * sp.pi) / 2,
    }


def _canon(e):
    def fix(x):
        return LSE(sp.simplify(sp.expand_log(x.args[0], force=True)))
    e = e.replace(lambda x: getattr(x, 'func', None) == LSE, fix)
    return e


def _lift_score(repo, cls, method):
    fn = repo.method(cls, method)
    lf = FilterLifter(repo, cls)
    env = {'self._observations': _obs_binding(repo, cls),
           'simulated_obs': YS, 'self._n_kernels': K,
           'simulated_obs.shape': Tup([N, sp.Symbol('n_obs'),
                                       sp.Symbol('n_times')])}
    val = lf.run(fn, env)
    return fn, lf, val


def r12_1(ctx, repo):
    rule = 'R12.1'
    sp_ = specs()
    for cls, want in sp_.items():
        repo.cls(cls)
        scores = {}
        for m in ('compute_log_likelihood', 'compute_sensitivities'):
            construct = '%s.%s' % (cls, m)
            try:
                fn, lf, val = _lift_score(repo, cls, m)
            except Unsupported as e:
                ctx.error(rule, 'cannot lift %s: %s' % (construct, e))
                continue
            where = repo.loc(fn, cls, m)
            score = val[0] if isinstance(val, (tuple, Tup)) else val
            # neither the score nor the gradient may be weighted by a count
            # that includes missing measurements
            parts = list(val) if isinstance(val, (tuple, Tup)) else [val]
            if any(isinstance(x_, sp.Expr) and x_.has(NROWS)
                   for x_ in parts[1:]):
                ctx.violation(
                    rule, where, construct, 'gradient counts missing',
                    'the returned sensitivities contain a term multiplied by '
                    'an axis length of the measurement array '
                    '(`self._observations.shape[..]` / len): that count '
                    'includes missing (masked) measurements, which the '
                    'masked sums of the score skip — the gradient is not the '
                    'derivative of the score when values are missing',
                    engine=ENG)
            try:
                l = summand(sp.nsimplify(score, rational=True))
            except NotASum as e:
                extra = ''
                if score.has(NROWS) or score.has(SJR):
                    extra = (' (a term is summed over observables and times '
                             'and multiplied by the number of rows of the '
                             'measurement array, which counts missing '
                             'values)')
                ctx.violation(
                    rule, where, construct, 'not a sum',
                    'the score is not a sum over the non-missing '
                    'measurements of a per-measurement log-density: %s%s'
                    % (e, extra), engine=ENG)
                continue
            except Unsupported as e:
                ctx.error(rule, '%s: %s' % (construct, e))
                continue
            scores[m] = l
            d = _canon(l) - _canon(want)
            z = is_zero(d)
            if z is True:
                ctx.ok(rule, where, construct,
                       'score = sum over measurements of the documented '
                       'log-density with empirical estimates from the '
                       'simulated measurements', engine=ENG)
            elif z is False:
                ctx.violation(
                    rule, where, construct, 'score!=documented',
                    'per-measurement score differs from the documented '
                    'log-density by %s' % str(sp.simplify(
                        sp.expand_log(d, force=True)))[:140], engine=ENG)
            else:
                ctx.error(rule, '%s: residual undecided: %s' % (
                    construct, str(d)[:120]))
        if len(scores) == 2:
            z = is_zero(_canon(scores['compute_log_likelihood'])
                        - _canon(scores['compute_sensitivities']))
            fn = repo.method(cls, 'compute_sensitivities')
            if z is True:
                ctx.ok(rule, repo.loc(fn, cls, fn.name),
                       '%s.compute_sensitivities' % cls,
                       'score returned with the sensitivities = '
                       'log-likelihood', engine=ENG)
            elif z is False:
                ctx.violation(
                    rule, repo.loc(fn, cls, fn.name),
                    '%s.compute_sensitivities' % cls, 'score!=total',
                    'the score returned with the sensitivities differs from '
                    'compute_log_likelihood', engine=ENG)
    ctx.floor(rule, 12)


def r12_2(ctx, repo):
    """Estimator arguments."""
    rule = 'R12.2'
    sim_axis = {'GaussianMixtureFilter': '1'}
    for cls in specs():
        for m in ('compute_log_likelihood', 'compute_sensitivities'):
            construct = '%s.%s' % (cls, m)
            try:
                fn, lf, val = _lift_score(repo, cls, m)
            except Unsupported as e:
                ctx.error(rule, 'cannot lift %s: %s' % (construct, e))
                continue
            want_axis = sim_axis.get(cls, '0')
            for kind, node, axis, ddof in lf.estimators:
                where = repo.loc(node, cls, m)
                if kind in ('mean', 'var'):
                    # estimators inside the gradient on already reduced
                    # values keep the axis too
                    if axis != want_axis:
                        ctx.violation(
                            rule, where, construct,
                            '%s axis %s' % (kind, axis),
                            '`%s` reduces over axis %s; the empirical '
                            'estimate is over the simulated individuals '
                            '(axis %s)' % (norm_stmt(node)[:60], axis,
                                           want_axis))
                    else:
                        ctx.ok(rule, where, construct,
                               '%s over the simulated axis' % kind)
                    if kind == 'var':
                        if ddof == '1':
                            ctx.ok(rule, where, construct,
                                   'unbiased variance (ddof=1)')
                        else:
                            ctx.violation(
                                rule, where, construct, 'var ddof',
                                '`%s` uses ddof=%s; the documented estimate '
                                'divides by n_s - 1' % (
                                    norm_stmt(node)[:60], ddof))
                elif kind == 'logsumexp':
                    if axis == '0':
                        ctx.ok(rule, where, construct,
                               'mixture is formed over the kernel axis')
                    else:
                        ctx.violation(
                            rule, where, construct, 'logsumexp axis',
                            'logsumexp over axis %s; kernels are on axis 0'
                            % axis)
        if cls == 'GaussianMixtureFilter':
            for m in ('compute_log_likelihood', 'compute_sensitivities'):
                fn = repo.method(cls, m)
                construct = '%s.%s' % (cls, m)
                try:
                    _, lf_, _ = _lift_score(repo, cls, m)
                except Unsupported as e:
                    ctx.error(rule, 'cannot lift %s: %s' % (construct, e))
                    continue
                rs = [(c, sh) for c, sh in lf_.reshapes
                      if 'simulated_obs' in U(c.func.value)]
                if not rs:
                    ctx.error(rule, '%s: reshape of the simulations into '
                              'kernel blocks not found' % construct)
                for c, sh in rs:
                    ok = sh is not None and len(sh) >= 2 and sp.simplify(
                        sh[0] - K) == 0 and sp.simplify(
                        sh[1] * K - N) == 0
                    if ok:
                        ctx.ok(rule, repo.loc(c, cls, m), construct,
                               'simulations are split into n_kernels '
                               'consecutive blocks of n_sim // n_kernels')
                    else:
                        ctx.violation(
                            rule, repo.loc(c, cls, m), construct,
                            'block split',
                            '`%s` does not split the simulated individuals '
                            'into n_kernels consecutive blocks of equal '
                            'size' % norm_stmt(c)[:70])
    ctx.floor(rule, 20)


def _mean_lin(e):
    """MEAN is linear over the simulated axis: MEAN(a*x + b) with a, b free
    of ys-dependent atoms other than MEAN/VAR1 atoms -> a*MEAN(x) + b."""
    def rw(x):
        arg = sp.expand(x.args[0])
        out = 0
        for t in sp.Add.make_args(arg):
            dep = [f for f in t.free_symbols if f == YS]
            if not dep:
                out += t
            else:
                c, rest = t.as_independent(YS, sp.log(YS))
                out += c * MEAN(rest)
        return out
    return e.replace(lambda x: getattr(x, 'func', None) == MEAN, rw)


def r12_3(ctx, repo):
    rule = 'R12.3'
    for cls, logscale in (('GaussianFilter', False),
                          ('LogNormalFilter', True)):
        construct = '%s.compute_sensitivities' % cls
        try:
            fn, lf, val = _lift_score(repo, cls, 'compute_sensitivities')
        except Unsupported as e:
            ctx.error(rule, 'cannot lift %s: %s' % (construct, e))
            continue
        where = repo.loc(fn, cls, fn.name)
        if not (isinstance(val, (tuple, Tup)) and len(val) == 2):
            ctx.error(rule, '%s does not return (score, sensitivities)'
                      % construct)
            continue
        score, grad = val
        x = sp.log(YS) if logscale else YS
        try:
            l = summand(sp.nsimplify(score, rational=True))
        except Unsupported as e:
            ctx.error(rule, '%s: %s' % (construct, e))
            continue
        l = l.subs({MEAN(x): MU, VAR1(x): V})
        if l.has(MEAN) or l.has(VAR1):
            ctx.error(rule, '%s: score uses estimators of something other '
                      'than the %ssimulated values' % (
                          construct, 'log-' if logscale else ''))
            continue
        # chain rule through mu = mean_s x_s and v = var1_s x_s
        dx = 1 / YS if logscale else 1
        want = (SI(sp.diff(l, MU)) / N
                + SI(sp.diff(l, V)) * 2 * (x - MU) / (N - 1)) * dx
        got = sp.nsimplify(grad, rational=True)
        got = got.subs({MEAN(x): MU, VAR1(x): V})
        got = _mean_lin(got).subs({MEAN(x): MU, VAR1(x): V})

        def lin(e):
            # SI is linear: pull constants (free of y) out
            def rw(t):
                arg = sp.expand(t.args[0])
                out = 0
                for a in sp.Add.make_args(arg):
                    c, rest = a.as_independent(Y, sp.log(Y))
                    out += c * SI(rest)
                return out
            return e.replace(lambda t: getattr(t, 'func', None) == SI, rw)
        d = sp.expand(lin(sp.expand(got)) - lin(sp.expand(want)))
        z = is_zero(d)
        if z is True:
            ctx.ok(rule, where, construct,
                   'sensitivities = chain rule through the empirical mean '
                   '(1/n) and variance (2(x - mu)/(n - 1))%s' % (
                       ' and d log(ys)/d ys' if logscale else ''),
                   engine=ENG)
        elif z is False:
            ctx.violation(
                rule, where, construct, 'gradient',
                'the returned sensitivities are not the derivative of the '
                'score w.r.t. a simulated measurement: residual %s'
                % str(sp.simplify(d))[:160], engine=ENG)
        else:
            ctx.error(rule, '%s: residual undecided: %s' % (
                construct, str(d)[:160]))
    ctx.floor(rule, 2)


def r12_4(ctx, repo):
    rule = 'R12.4'
    cls = 'ComposedPopulationFilter'
    st = repo.method(cls, 'sort_times')
    direct = inverse = None
    for s in ast.walk(st):
        if isinstance(s, ast.Assign) and isinstance(
                s.targets[0], ast.Attribute) and U(
                s.targets[0].value) == 'self':
            v = s.value
            if isinstance(v, ast.Call) and U(v.func) == 'np.argsort' \
                    and v.args:
                inverse = (U(s.targets[0]), U(v.args[0]))
            elif isinstance(v, ast.Call) and U(v.func) in (
                    'np.copy', 'np.array', 'np.asarray') and v.args and U(
                    v.args[0]) == 'order':
                direct = U(s.targets[0])
            elif isinstance(v, ast.Name) and v.id == 'order':
                direct = U(s.targets[0])
    if not direct or not inverse or inverse[1] != direct:
        ctx.error(rule, '%s.sort_times: permutation / inverse-permutation '
                  'pair not recognised (direct=%s, inverse=%s)' % (
                      cls, direct, inverse))
        return
    inv = inverse[0]
    ctx.ok(rule, repo.loc(st, cls, 'sort_times'), cls + '.sort_times',
           '%s = argsort(%s) is the inverse permutation' % (inv, direct))
    for m in ('compute_log_likelihood', 'compute_sensitivities'):
        fn = repo.method(cls, m)
        construct = '%s.%s' % (cls, m)
        n = 0
        for s in ast.walk(fn):
            if not (isinstance(s, ast.Assign) and isinstance(
                    s.value, ast.Subscript)):
                continue
            idx = [e for e in (s.value.slice.elts if isinstance(
                s.value.slice, ast.Tuple) else [s.value.slice])
                if U(e) in (direct, inv)]
            if not idx:
                continue
            n += 1
            used = U(idx[0])
            src = U(s.value.value)
            where = repo.loc(s, cls, m)
            if src == 'simulated_obs':
                if used == inv:
                    ctx.ok(rule, where, construct, 'inputs are gathered '
                           'with the inverse permutation')
                else:
                    ctx.violation(
                        rule, where, construct, 'input gather',
                        'simulated measurements arrive in sorted time order '
                        'and must be brought into the sub-filters\' order '
                        'with the inverse permutation `%s`, not `%s`' % (
                            inv, used))
            else:
                if used == direct:
                    ctx.ok(rule, where, construct, 'outputs are gathered '
                           'with the permutation itself')
                else:
                    ctx.violation(
                        rule, where, construct, 'output gather',
                        'sensitivities are computed in the sub-filters\' '
                        'time order and must be returned in sorted order '
                        'with `%s`; `%s` is used, which is only correct for '
                        'permutations that are their own inverse' % (
                            direct, used))
        want = 1 if m == 'compute_log_likelihood' else 2
        if n < want:
            ctx.violation(
                rule, repo.loc(fn, cls, m), construct, 'missing gather',
                '%s applies %d of the %d required re-orderings of the time '
                'axis' % (construct, n, want))
    ctx.floor(rule, 4)


def r12_5(ctx, repo):
    """Per-time caches derived from the measurements at construction are
    re-ordered by sort_times."""
    rule = 'R12.5'
    n = 0
    for cls in repo.subclasses('PopulationFilter', strict=True):
        if cls == 'ComposedPopulationFilter':
            continue
        k, st = repo.resolve(cls, 'sort_times')
        if st is None:
            continue
        reordered = set()
        for s in ast.walk(st):
            if isinstance(s, ast.Assign) and isinstance(
                    s.targets[0], ast.Attribute) and U(
                    s.targets[0].value) == 'self':
                reordered.add('self.' + s.targets[0].attr)
        for kk in repo.mro(cls):
            fn = repo.cls(kk).methods.get('__init__')
            if fn is None:
                continue
            for s in ast.walk(fn):
                if not (isinstance(s, ast.Assign) and len(s.targets) == 1):
                    continue
                t = s.targets[0]
                tg = [t] if not isinstance(t, ast.Tuple) else list(t.elts)
                for x in tg:
                    if not (isinstance(x, ast.Attribute) and U(
                            x.value) == 'self'):
                        continue
                    f = 'self.' + x.attr
                    txt = U(s.value)
                    if 'observations' not in txt:
                        continue
                    if txt.endswith('.shape') or isinstance(t, ast.Tuple):
                        continue      # scalar counts
                    n += 1
                    construct = '%s %s' % (cls, f)
                    where = repo.loc(s, kk, '__init__')
                    if f in reordered:
                        ctx.ok(rule, where, construct,
                               '%s is re-indexed by %s.sort_times' % (f, k))
                    else:
                        ctx.violation(
                            rule, where, construct, 'not reordered',
                            '%s is derived from the measurements along the '
                            'time axis (`%s`) but %s.sort_times only '
                            're-orders %s: after sorting the times it '
                            'belongs to the wrong time points' % (
                                f, norm_stmt(s)[:60], k,
                                ', '.join(sorted(reordered)) or 'nothing'))
    if n < 5:
        ctx.error(rule, 'only %d measurement-derived fields found' % n)


# -----------------------------------------------------------------------------
# R12.6 — sort_times gathers along the time axis of every filter's store
# -----------------------------------------------------------------------------
def _stored_rank(repo, cls):
    """Rank of self._observations after construction: the documented input
    has rank 3 (n_ids, n_observables, n_times); every
    `self._observations = <f>(self._observations)[np.newaxis, ...]` in the
    constructor chain adds the number of np.newaxis entries.  None if a
    constructor reshapes in a way that is not understood."""
    rank = None
    for k in reversed(repo.mro(cls)):
        fn = repo.cls(k).methods.get('__init__')
        if fn is None:
            continue
        for s in ast.walk(fn):
            if not (isinstance(s, ast.Assign) and U(s.targets[0]) ==
                    'self._observations'):
                continue
            v = s.value
            if isinstance(v, ast.Subscript) and 'self._observations' in U(
                    v.value):
                if rank is None:
                    return None
                elts = v.slice.elts if isinstance(v.slice, ast.Tuple) \
                    else [v.slice]
                if not all(U(e) in ('np.newaxis', 'None', '...', 'Ellipsis')
                           or (isinstance(e, ast.Slice) and e.lower is None
                               and e.upper is None) for e in elts):
                    return None
                rank += sum(1 for e in elts if U(e) in ('np.newaxis',
                                                        'None'))
            elif 'self._observations' in U(v):
                if rank is None:
                    return None
                if any(isinstance(c, ast.Call) and isinstance(
                        c.func, ast.Attribute) and c.func.attr in (
                        'reshape', 'squeeze', 'flatten', 'ravel')
                        for c in ast.walk(v)):
                    return None
            else:
                rank = 3
    return rank


def r12_6(ctx, repo):
    rule = 'R12.6'
    n = 0
    for cls in sorted(repo.subclasses('PopulationFilter')):
        k, fn = repo.resolve(cls, 'sort_times')
        if fn is None or repo.is_abstract(fn):
            continue
        stores = [s for s in ast.walk(fn) if isinstance(s, ast.Assign)
                  and U(s.targets[0]) == 'self._observations']
        if not stores:
            continue        # composed filter: remembers the order instead
        if repo.is_abstract(repo.resolve(cls, 'compute_log_likelihood')[1]) \
                and cls != k:
            continue
        rank = _stored_rank(repo, cls)
        construct = '%s.sort_times' % cls
        n += 1
        for s in stores:
            where = repo.loc(s, k, 'sort_times')
            v = s.value
            hops = 0
            scatter = None
            while isinstance(v, ast.Name) and hops < 3:
                name = v.id
                # element stores into the local: a scatter
                for a in ast.walk(fn):
                    if isinstance(a, ast.Assign) and isinstance(
                            a.targets[0], ast.Subscript) and U(
                            a.targets[0].value) == name and 'order' in U(
                            a.targets[0].slice):
                        scatter = a
                d = [a for a in ast.walk(fn) if isinstance(a, ast.Assign)
                     and U(a.targets[0]) == name and a.lineno < s.lineno]
                if not d:
                    break
                v = d[-1].value
                hops += 1
            if scatter is not None:
                ctx.violation(
                    rule, repo.loc(scatter, k, 'sort_times'), construct,
                    'scatter',
                    '`%s` places column j of the stored observations at '
                    'position order[j]; sort_times(order) must make the new '
                    'column j the old column order[j] (a gather, '
                    '`observations[..., order]`): the two differ for every '
                    'permutation that is not its own inverse' % norm_stmt(
                        scatter)[:70])
                continue
            if not (isinstance(v, ast.Subscript) and U(v.value) ==
                    'self._observations'):
                ctx.error(rule, '%s: re-ordering `%s` not recognised' % (
                    construct, norm_stmt(s)[:60]))
                continue
            elts = v.slice.elts if isinstance(v.slice, ast.Tuple) \
                else [v.slice]
            pos = [i for i, e in enumerate(elts) if 'order' in U(e)]
            has_ell = any(U(e) in ('...', 'Ellipsis') for e in elts)
            if len(pos) != 1:
                ctx.error(rule, '%s: index `%s` not recognised' % (
                    construct, U(v.slice)))
                continue
            last = pos[0] == len(elts) - 1
            if has_ell and last:
                ctx.ok(rule, where, construct,
                       'the time axis (last axis of the rank-%s store) is '
                       'gathered with order' % (rank if rank else '?'))
            elif rank is None:
                ctx.error(rule, '%s: rank of the stored observations not '
                          'derived' % construct)
            elif not has_ell and last and len(elts) == rank:
                ctx.ok(rule, where, construct,
                       'axis %d of the rank-%d store (the time axis) is '
                       'gathered with order' % (pos[0], rank))
            else:
                ctx.violation(
                    rule, where, construct, 'axis',
                    '`%s` applies the time order to axis %d; %s stores its '
                    'observations with rank %d and the measurement times on '
                    'the last axis: the wrong axis is permuted (or the '
                    'index raises)' % (U(v)[:60], pos[0], cls, rank))
    if n < 4:
        ctx.error(rule, 'only %d filters with a stored observation array '
                  'found (floor 4)' % n)
