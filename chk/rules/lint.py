"""Generic def-use rules (repository-specific instance counts, all zero on a
healthy tree; each has a positive fixture in the mutant self-test).

L1  the element variable of a loop over a container is read in the loop body
    (otherwise every iteration acts on the same object);
L2  a loop body does not read the loop variable of an earlier, finished loop
    (stale variable after a rename);
L3  a local that is assigned is read somewhere (a value computed and bound to
    a name nobody reads is a lost result — the wrong-variable slip).
L4  a named parameter of a concrete method is read in its body (a parameter
    that is accepted and then ignored is a dropped argument: the wrapper that
    stops forwarding `return_eta` or `num`).  The ten parameters today's tree
    ignores on purpose are listed in UNUSED_OK, one reason each.
"""
import ast

from ..loader import U, norm_stmt

SKIP = ('chi/library/_data_library_api.py',)
REDUCTIONS = {'np.max', 'np.min', 'np.sum', 'np.mean', 'np.amax', 'np.amin',
              'np.prod', 'np.nanmax', 'np.nanmin', 'np.nansum', 'np.ma.max',
              'np.ma.sum'}

UNUSED_OK = {
    ('CovariateModel', 'set_parameter_names', 'mask_names'):
        'accepted for signature compatibility; covariate models have no '
        'name masking',
    ('LogNormalKDEFilter', '__init__', 'bandwidth'):
        'documented hyperparameter that is not implemented (rule-of-thumb '
        'bandwidth is always used); outside the given properties',
    ('PopulationModel', 'set_covariate_names', 'names'):
        'base implementation: models without covariates ignore the names',
    ('HeterogeneousModel', 'compute_individual_parameters', 'eta'):
        'psi is the parameter itself; eta does not enter',
    ('HeterogeneousModel', 'compute_individual_parameters', 'return_eta'):
        'psi = eta for this model',
    ('PooledModel', 'compute_individual_parameters', 'eta'):
        'psi is the pooled parameter; eta does not enter',
    ('PooledModel', 'compute_individual_parameters', 'return_eta'):
        'psi = eta for this model',
    ('PooledModel', 'n_hierarchical_parameters', 'n_ids'):
        'pooled models contribute no bottom-level parameters',
    ('TruncatedGaussianModel', 'compute_individual_parameters', 'parameters'):
        'only the centred parametrisation exists: psi = eta',
    ('TruncatedGaussianModel', 'compute_individual_parameters', 'return_eta'):
        'psi = eta for this model',
}


def _names_read(e):
    out=set()
    for x in ast.walk(e):
        if isinstance(x,ast.Name) and isinstance(x.ctx,ast.Load): out.add(x.id)
    return out

def dead_stores(fn):
    """Assignments to a local whose value no later statement can read
    (backward liveness over the structured statements; stores inside try
    blocks are not judged)."""
    if any(isinstance(x,(ast.Global,ast.Nonlocal)) for x in ast.walk(fn)): return []
    found=[]
    def targets(t):
        if isinstance(t,ast.Name): return [t.id],set()
        if isinstance(t,(ast.Tuple,ast.List)):
            ks=[];rs=set()
            for e in t.elts:
                k,r=targets(e); ks+=k; rs|=r
            return ks,rs
        if isinstance(t,ast.Starred): return targets(t.value)
        return [],_names_read(t)
    def block(stmts,live,in_try,loop_live):
        for s in reversed(stmts):
            live=stmt(s,live,in_try,loop_live)
        return live
    def stmt(s,live,in_try,loop_live):
        if isinstance(s,(ast.Assign,ast.AnnAssign,ast.AugAssign)):
            tgs=s.targets if isinstance(s,ast.Assign) else [s.target]
            val=s.value
            kills=[];reads=set()
            for t in tgs:
                k,r=targets(t); kills+=k; reads|=r
            if isinstance(s,ast.AugAssign) and isinstance(s.target,ast.Name):
                reads.add(s.target.id)
            if len(tgs)==1 and isinstance(tgs[0],ast.Name) and not in_try and val is not None:
                nm=tgs[0].id
                if nm not in live and not nm.startswith('_'):
                    found.append((s,nm))
            new=set(live)-set(kills)
            if val is not None: new|=_names_read(val)
            return new|reads
        if isinstance(s,ast.If):
            a=block(s.body,set(live),in_try,loop_live); b=block(s.orelse,set(live),in_try,loop_live)
            return a|b|_names_read(s.test)
        if isinstance(s,(ast.For,ast.While)):
            head=set(live)
            if isinstance(s,ast.For): cond=_names_read(s.iter)
            else: cond=_names_read(s.test)
            cur=set(live)|cond
            saved=len(found)
            for _ in range(3):
                del found[saved:]
                body_live=block(s.body,set(cur),in_try,(set(live),set(cur)))
                if isinstance(s,ast.For):
                    k,r=targets(s.target); body_live=(body_live-set(k))|r
                nxt=cur|body_live
                if nxt==cur: break
                cur=nxt
            oe=block(s.orelse,set(live),in_try,loop_live)
            return cur|oe
        if isinstance(s,ast.Try):
            after=block(s.finalbody,set(live),True,loop_live) if s.finalbody else set(live)
            hl=set()
            for h in s.handlers: hl|=block(h.body,set(after),True,loop_live)
            oe=block(s.orelse,set(after),True,loop_live) if s.orelse else set(after)
            b=block(s.body,set(oe)|hl,True,loop_live)
            return b|hl
        if isinstance(s,ast.With):
            b=block(s.body,set(live),in_try,loop_live)
            for it in s.items:
                b|=_names_read(it.context_expr)
            return b
        if isinstance(s,ast.Return):
            return _names_read(s.value) if s.value is not None else set()
        if isinstance(s,ast.Raise):
            return _names_read(s)
        if isinstance(s,(ast.Break,)):
            return set(loop_live[0]) if loop_live else set(live)
        if isinstance(s,(ast.Continue,)):
            return set(loop_live[1]) if loop_live else set(live)
        if isinstance(s,(ast.FunctionDef,ast.ClassDef)):
            return live|_names_read(s)
        return live|_names_read(s)
    block(fn.body,set(),False,None)
    return found


# dead stores of the pinned tree: (class, function) -> the right-hand sides
# (local names abstracted to `?`), one reason each
DEAD_STORE_OK = {
    ('LinearCovariateModel', 'compute_sensitivities'): {
        '? * ?': 'left-over bookkeeping after the flattening'},
    ('GaussianModel', '_compute_sensitivities'): {
        'len(?)': 'left-over count'},
    ('LogNormalModel', '_compute_sensitivities'): {
        'len(?)': 'left-over count'},
    ('GaussianModel', 'compute_individual_parameters'): {
        '?[np.newaxis, ...]': 'the rank-dispatch slip recorded as D-08a '
                              '(reported by R05.1)'},
    ('LogNormalModel', 'compute_individual_parameters'): {
        '?[np.newaxis, ...]': 'the rank-dispatch slip recorded as D-08b '
                              '(reported by R05.1)'},
    ('LogNormalModel', 'compute_sensitivities'): {
        '?[np.newaxis, ...]': 'the rank-dispatch slip recorded as D-08c '
                              '(reported by R05.1)'},
}


def _abstract_rhs(v):
    import copy

    class R(ast.NodeTransformer):
        def visit_Name(self, n):
            if n.id in ('np', 'self', 'len', 'int', 'float'):
                return n
            return ast.copy_location(ast.Name(id='?', ctx=n.ctx), n)
    return U(R().visit(copy.deepcopy(v)))


def _targets(t):
    return {x.id for x in ast.walk(t) if isinstance(x, ast.Name)}


FIXED_WIDTH_OK = {
    ('ReducedErrorModel', 'set_parameter_names'):
        'names are validated to at most 50 characters first',
    ('ReducedPopulationModel', 'set_parameter_names'):
        'names are validated to at most 50 characters first',
}
LEN_COINCIDENCE_OK = {
    ('LogLikelihood', '__init__', 'len(observations)!=?'):
        'documented convenience: flat observations for a single-output '
        'problem are wrapped (inside `if n_outputs == 1`)',
    ('LogLikelihood', '__init__', 'len(times)!=?'):
        'documented convenience: flat times for a single-output problem',
}
# keywords whose default legitimately differs between functions
DEFAULTS_DIFFER_OK = {
    'n_samples': 'samplers default to one sample (None), the filter '
                 'posterior to 100 simulated individuals',
    'shared_y': 'the two figure templates differ on purpose',
}


def _innermost_for(node, fn):
    cur = getattr(node, '_parent', None)
    while cur is not None and cur is not fn:
        if isinstance(cur, (ast.For, ast.While)):
            return cur
        cur = getattr(cur, '_parent', None)
    return None


def scoped(name, files):
    def rule(ctx, repo):
        return r00(ctx, repo, files=files)
    rule.__name__ = name
    return rule


# `x[-n:]` / `x[:-n]` with a computed n: for n == 0 the first is the whole
# array and the second is empty.  Sites where n cannot be 0, one reason each.
NEG_SLICE_OK = {
    ('ReducedErrorModel', 'compute_sensitivities', '-self._n_parameters:'):
        'an error model has at least one parameter',
}
PURE_CALLS = {'dict', 'list', 'tuple', 'set', 'int', 'float', 'str', 'bool',
              'np.asarray', 'np.array', 'sorted', 'len', 'np.copy',
              'copy.copy', 'copy.deepcopy', 'np.sort', 'np.unique'}
GLOBAL_SETTERS = {'np.seterr', 'np.seterrcall', 'np.set_printoptions',
                  'warnings.simplefilter', 'warnings.filterwarnings',
                  'os.chdir', 'sys.setrecursionlimit', 'np.setbufsize',
                  'pd.set_option'}
DUCK_RELATED = {('ReducedErrorModel', 'ErrorModel')}
MEMO_DECORATORS = ('lru_cache', 'cache', 'cached_property')


def _returns_object(repo, fn):
    """The function returns an instance of a chi class (constructed here)."""
    made = set()
    for a in ast.walk(fn):
        if isinstance(a, ast.Assign) and len(a.targets) == 1 and isinstance(
                a.targets[0], ast.Name) and isinstance(a.value, ast.Call) \
                and repo.has_cls(U(a.value.func).split('.')[-1]):
            made.add(a.targets[0].id)
    for r in ast.walk(fn):
        if isinstance(r, ast.Return) and r.value is not None:
            v = r.value
            if isinstance(v, ast.Call) and repo.has_cls(
                    U(v.func).split('.')[-1]):
                return True
            if isinstance(v, ast.Name) and v.id in made:
                return True
    return False


def r00(ctx, repo, files=None):
    rule = 'R00'
    n_fn = 0
    from ..types import Types
    T = Types(repo)
    for rel, cls, fn in repo.all_functions(files):
        if rel in SKIP:
            continue
        n_fn += 1
        construct = '%s.%s' % (cls, fn.name) if cls else fn.name
        loops = [l for l in ast.walk(fn) if isinstance(l, ast.For)]
        bad = 0
        # L1
        for l in loops:
            it = l.iter
            elem = l.target
            if isinstance(it, ast.Call) and U(it.func) == 'enumerate' \
                    and isinstance(l.target, ast.Tuple) and len(
                        l.target.elts) == 2:
                elem = l.target.elts[1]
                it = it.args[0] if it.args else it
            if isinstance(it, ast.Call) and U(it.func) in ('range', 'tqdm'):
                continue
            reads = {x.id for s in l.body for x in ast.walk(s)
                     if isinstance(x, ast.Name) and isinstance(
                         x.ctx, ast.Load)}
            for v in sorted(_targets(elem)):
                if v.startswith('_') and len(v) <= 2:
                    continue
                if v not in reads:
                    bad += 1
                    ctx.violation(
                        rule, repo.loc(l, cls, fn.name), construct,
                        'L1 unused loop element %s' % v,
                        'the loop over `%s` never reads its element `%s`: '
                        'every iteration acts on the same object instead of '
                        'the current element' % (U(l.iter)[:50], v))
        # L2
        for l2 in loops:
            t2 = _targets(l2.target)
            assigned = {x.id for s in l2.body for x in ast.walk(s)
                        if isinstance(x, ast.Name) and isinstance(
                            x.ctx, ast.Store)}
            for l1 in loops:
                if l1 is l2 or not (l1.end_lineno < l2.lineno):
                    continue
                if any(l1 in ast.walk(s) for s in l2.body):
                    continue
                for v in sorted(_targets(l1.target)):
                    if v in t2 or v in assigned:
                        continue
                    between = any(
                        isinstance(x, ast.Name) and x.id == v and isinstance(
                            x.ctx, ast.Store)
                        and l1.end_lineno < x.lineno < l2.lineno
                        for x in ast.walk(fn))
                    if between:
                        continue
                    reads = [x for s in l2.body for x in ast.walk(s)
                             if isinstance(x, ast.Name) and x.id == v
                             and isinstance(x.ctx, ast.Load)]
                    if reads:
                        bad += 1
                        ctx.violation(
                            rule, repo.loc(reads[0], cls, fn.name),
                            construct, 'L2 stale loop variable %s' % v,
                            '`%s` is the loop variable of the loop at line '
                            '%d, which has finished; the loop at line %d '
                            'reads it without assigning it, so it always '
                            'sees the last element of the earlier loop' % (
                                v, l1.lineno, l2.lineno))
        # L3
        stores, loads = {}, set()
        for x in ast.walk(fn):
            if isinstance(x, ast.Name):
                if isinstance(x.ctx, ast.Store):
                    stores.setdefault(x.id, []).append(x)
                else:
                    loads.add(x.id)
            if isinstance(x, ast.AugAssign) and isinstance(x.target,
                                                           ast.Name):
                # in-place update of an array view reads (and writes
                # through) the name
                loads.add(x.target.id)
        params = {a.arg for a in fn.args.args + fn.args.kwonlyargs}
        for v, nodes in sorted(stores.items()):
            if v in loads or v.startswith('_') or v in params:
                continue
            par = getattr(nodes[0], '_parent', None)
            # loop counters / elements are L1's business
            cur = nodes[0]
            in_for_target = False
            while cur is not None and cur is not fn:
                p = getattr(cur, '_parent', None)
                if isinstance(p, ast.For) and cur is p.target:
                    in_for_target = True
                cur = p
            if in_for_target:
                continue
            stmt = nodes[0]
            while not isinstance(stmt, ast.stmt):
                stmt = stmt._parent
            # an unused *size query* (`n = len(x)`, `n, d = x.shape`) is a
            # harmless left-over of a refactoring; what matters is whether
            # x itself is still used, which L4 / the shape rules decide
            rv = getattr(stmt, 'value', None)
            if isinstance(rv, ast.Call) and U(rv.func) in ('len', 'int') \
                    and rv.args and not any(isinstance(
                        c, ast.Call) for c in ast.walk(rv.args[0])):
                continue
            if rv is not None and (U(rv).endswith(('.shape', '.size',
                                                    '.ndim'))
                                   or (isinstance(rv, ast.Subscript) and U(
                                       rv.value).endswith('.shape'))):
                continue
            bad += 1
            ctx.violation(
                rule, repo.loc(nodes[0], cls, fn.name), construct,
                'L3 never read %s' % v,
                '`%s` is assigned (`%s`) but never read in %s: the value is '
                'lost — typically the statement was meant to (re)bind '
                'another name' % (v, norm_stmt(stmt)[:60], construct))
        # L4
        body = repo.body_wo_doc(fn)
        trivial = len(body) == 1 and isinstance(body[0], (ast.Raise,
                                                          ast.Pass))
        if not repo.is_abstract(fn) and not trivial:
            for p in [a.arg for a in fn.args.args + fn.args.kwonlyargs]:
                if p == 'self' or p in loads or p.startswith('_'):
                    continue
                if (cls, fn.name, p) in UNUSED_OK:
                    continue
                bad += 1
                ctx.violation(
                    rule, repo.loc(fn, cls, fn.name), construct,
                    'L4 ignored parameter %s' % p,
                    '%s accepts the argument `%s` and never reads it: the '
                    'caller\'s value is silently dropped (not forwarded to '
                    'the call that implements the method)' % (construct, p))
        # L6: inside a loop, a name bound in a `try` body and read after the
        # try is also bound on every handler that falls through (or earlier
        # in the iteration): otherwise a failing iteration silently reuses
        # the result of the previous one
        for l in loops + [w for w in ast.walk(fn)
                          if isinstance(w, ast.While)]:
            for k, st in enumerate(l.body):
                if not isinstance(st, ast.Try):
                    continue
                bound = {x.id for b in st.body for x in ast.walk(b)
                         if isinstance(x, ast.Name)
                         and isinstance(x.ctx, ast.Store)}
                earlier = {x.id for b in l.body[:k] for x in ast.walk(b)
                           if isinstance(x, ast.Name)
                           and isinstance(x.ctx, ast.Store)}
                later = {x.id for b in l.body[k + 1:] for x in ast.walk(b)
                         if isinstance(x, ast.Name)
                         and isinstance(x.ctx, ast.Load)}
                for h in st.handlers:
                    if h.body and isinstance(h.body[-1], (
                            ast.Raise, ast.Continue, ast.Break, ast.Return)):
                        continue
                    hb = {x.id for b in h.body for x in ast.walk(b)
                          if isinstance(x, ast.Name)
                          and isinstance(x.ctx, ast.Store)}
                    for v in sorted((bound & later) - hb - earlier):
                        bad += 1
                        ctx.violation(
                            rule, repo.loc(h, cls, fn.name), construct,
                            'L6 stale result after except %s' % v,
                            '`%s` is bound in the try body and read after '
                            'it, but the `except` path leaves it untouched: '
                            'when the call fails in iteration k the code '
                            'after the try uses the value of iteration k-1 '
                            '(or of before the loop)' % v)
        # L7: an isinstance test against a class that no value of the
        # receiver's known type can be an instance of never holds
        if cls:
            for c in ast.walk(fn):
                if not (isinstance(c, ast.Call) and U(c.func) == 'isinstance'
                        and len(c.args) == 2):
                    continue
                t = T.type_of(c.args[0], cls, fn)
                if not t:
                    continue
                tt = t[1] if t[0] == 'list' else t
                if not tt or not isinstance(tt[0], str):
                    continue
                ks = [U(x).split('.')[-1] for x in (
                    c.args[1].elts if isinstance(c.args[1], ast.Tuple)
                    else [c.args[1]])]
                ks = [k for k in ks if repo.has_cls(k)]
                if not ks:
                    continue
                cands = set(T.candidates(tt)) | {tt[0]}
                related = any(repo.is_subclass(c2, k) or repo.is_subclass(
                    k, c2) or (k, c2) in DUCK_RELATED or any(
                        (k, b) in DUCK_RELATED for b in repo.mro(c2))
                    for c2 in cands for k in ks)
                if not related:
                    bad += 1
                    ctx.violation(
                        rule, repo.loc(c, cls, fn.name), construct,
                        'L7 isinstance never holds %s' % U(c.args[1])[:30],
                        '`%s` tests a value known to be a %s against %s, '
                        'which no %s can be: the test is always False, so '
                        'the branch it guards is dead (or always taken)' % (
                            U(c)[:60], tt[0], ', '.join(ks), tt[0]))
        # L8: memoised factories of mutable objects
        for dec in fn.decorator_list:
            dn = U(dec.func if isinstance(dec, ast.Call) else dec)
            if dn.split('.')[-1] in MEMO_DECORATORS and _returns_object(
                    repo, fn):
                bad += 1
                ctx.violation(
                    rule, repo.loc(fn, cls, fn.name), construct,
                    'L8 memoised mutable',
                    '%s is memoised (`@%s`) but returns a model object: '
                    'every caller gets the same mutable instance, so '
                    'configuring one (dosing, outputs, names) changes what '
                    'the next caller receives' % (construct, dn))
        # L9: inside a loop an object from outside the loop is modified in
        # place and a reference to it is collected: all collected entries
        # are the same object and show the last modification
        for l in loops:
            outer = set()
            for x in ast.walk(fn):
                if isinstance(x, ast.Name) and isinstance(x.ctx, ast.Store) \
                        and not (l.lineno <= x.lineno <= l.end_lineno):
                    outer.add(x.id)
            inner = {x.id for s_ in l.body for x in ast.walk(s_)
                     if isinstance(x, ast.Name)
                     and isinstance(x.ctx, ast.Store)}
            inner |= _targets(l.target)
            mutated = set()
            for s_ in l.body:
                for a in ast.walk(s_):
                    if isinstance(a, (ast.Assign, ast.AugAssign)):
                        tg = a.targets if isinstance(a, ast.Assign) \
                            else [a.target]
                        for t in tg:
                            if isinstance(t, (ast.Subscript, ast.Attribute)) \
                                    and isinstance(t.value, ast.Name):
                                mutated.add(t.value.id)
            for s_ in l.body:
                for c in ast.walk(s_):
                    if isinstance(c, ast.Call) and isinstance(
                            c.func, ast.Attribute) and c.func.attr == \
                            'append' and len(c.args) == 1 and isinstance(
                            c.args[0], ast.Name):
                        v = c.args[0].id
                        if v in mutated and v in outer and v not in inner:
                            bad += 1
                            ctx.violation(
                                rule, repo.loc(c, cls, fn.name), construct,
                                'L9 aliased element %s' % v,
                                '`%s` collects a reference to `%s`, which '
                                'is created outside the loop and modified '
                                'in place in every iteration: all collected '
                                'entries are one object and carry the last '
                                'iteration\'s values' % (U(c)[:50], v))
        # L10: log of a product over an array under/overflows for long or
        # badly scaled series where the sum of the logs does not
        for c in ast.walk(fn):
            if isinstance(c, ast.Call) and U(c.func) in (
                    'np.log', 'math.log') and c.args and isinstance(
                    c.args[0], ast.Call) and U(c.args[0].func) in (
                    'np.prod', 'np.product'):
                bad += 1
                ctx.violation(
                    rule, repo.loc(c, cls, fn.name), construct,
                    'L10 log of product',
                    '`%s` takes the logarithm of a product over an array: '
                    'the product under- or overflows for long or badly '
                    'scaled series (the result becomes +-inf) where the sum '
                    'of the logarithms stays finite' % U(c)[:60])
        # L11: a transposition that is decided by comparing one axis length
        # with an unrelated length is ambiguous when the two coincide
        for st in ast.walk(fn):
            if not isinstance(st, ast.If):
                continue
            shp = [x for x in ast.walk(st.test) if isinstance(x, ast.Subscript)
                   and isinstance(x.value, ast.Attribute)
                   and x.value.attr == 'shape' and isinstance(
                       x.value.value, ast.Name)]
            eqs = [x for x in ast.walk(st.test) if isinstance(x, ast.Compare)
                   and isinstance(x.ops[0], ast.Eq)]
            if not shp or not eqs:
                continue
            arr = shp[0].value.value.id
            for a in st.body:
                if isinstance(a, ast.Assign) and U(a.targets[0]) == arr and (
                        U(a.value) in ('%s.T' % arr,
                                       'np.transpose(%s)' % arr,
                                       '%s.transpose()' % arr)
                        or (isinstance(a.value, ast.Call) and U(
                            a.value.func) == 'np.swapaxes')):
                    bad += 1
                    ctx.violation(
                        rule, repo.loc(st, cls, fn.name), construct,
                        'L11 shape-guessed transpose %s' % arr,
                        '`%s` is transposed when `%s` holds: the layout of '
                        'the caller\'s array is guessed from a coincidence '
                        'of axis lengths, so a correctly laid-out array '
                        'whose two axes happen to have equal length is '
                        'transposed as well' % (arr, U(st.test)[:60]))
        # L11b: any non-raising branch (statement or conditional expression)
        # decided by the *equality of two run-time lengths*: the library
        # dispatches on rank (`x.ndim == k`) and on constant counts only; a
        # layout or shortcut chosen because two sizes happen to agree is
        # wrong for the inputs where they agree by coincidence
        def _len_coincidence(test):
            for c in ast.walk(test):
                if not (isinstance(c, ast.Compare) and len(c.ops) == 1
                        and isinstance(c.ops[0], (ast.Eq, ast.NotEq))):
                    continue
                l_, r_ = c.left, c.comparators[0]
                for a_, b_ in ((l_, r_), (r_, l_)):
                    sa = U(a_)
                    is_len = (isinstance(a_, ast.Call) and U(a_.func) == 'len'
                              ) or '.shape[' in sa or sa.endswith('.size')
                    if is_len and not isinstance(b_, ast.Constant):
                        # a collection compared with its own de-duplicated /
                        # filtered version is a property of one value
                        na = {x.id for x in ast.walk(a_)
                              if isinstance(x, ast.Name)} - {'len', 'np'}
                        nb = {x.id for x in ast.walk(b_)
                              if isinstance(x, ast.Name)} - {'len', 'np'}
                        if na & nb:
                            continue
                        return c
            return None
        for st in ast.walk(fn):
            if isinstance(st, ast.If):
                c = _len_coincidence(st.test)
                if c is None or any(isinstance(x, ast.Raise)
                                    for b in st.body + st.orelse
                                    for x in ast.walk(b)):
                    continue
            elif isinstance(st, ast.IfExp):
                c = _len_coincidence(st.test)
                if c is None:
                    continue
            else:
                continue
            import copy as _cp
            _par = {a.arg for a in fn.args.args}

            class _Abs(ast.NodeTransformer):
                def visit_Name(self, n_):
                    if n_.id in _par or n_.id in ('len', 'np', 'self'):
                        return n_
                    return ast.copy_location(ast.Name(id='?', ctx=n_.ctx),
                                             n_)
            key_ = U(_Abs().visit(_cp.deepcopy(c))).replace(' ', '')
            if (cls, fn.name, key_) in LEN_COINCIDENCE_OK:
                continue
            bad += 1
            ctx.violation(
                rule, repo.loc(st, cls, fn.name), construct,
                'L11 length coincidence %s' % U(c)[:40],
                'a branch is chosen because `%s` holds: two run-time sizes '
                'that agree by coincidence (as many measurements as union '
                'time points, as many individuals as covariates) take the '
                'shortcut / the other layout although it does not apply'
                % U(c)[:60])
        # L25: `<looked-up value> or <number>` as a default for a data value:
        # a valid 0 is replaced, a missing value that is NaN (truthy) is kept
        # (a plain name, `n or 1`, is the conditional-expression idiom the
        # library uses for optional counts)
        for b_ in ast.walk(fn):
            if isinstance(b_, ast.BoolOp) and isinstance(b_.op, ast.Or) \
                    and not isinstance(b_.values[0], ast.Name) \
                    and isinstance(b_.values[-1], ast.Constant) \
                    and isinstance(b_.values[-1].value, (int, float)) \
                    and not isinstance(b_.values[-1].value, bool):
                bad += 1
                ctx.violation(
                    rule, repo.loc(b_, cls, fn.name), construct,
                    'L25 or-default %s' % U(b_)[:30],
                    '`%s` supplies a default through truthiness: a missing '
                    'value that is NaN is truthy and is kept, a valid 0 is '
                    'falsy and is replaced' % U(b_)[:60])
        # L26: duplicates removed by comparing neighbours need sorted data
        for c in ast.walk(fn):
            if not (isinstance(c, ast.Compare) and len(c.ops) == 1
                    and isinstance(c.ops[0], (ast.Eq, ast.NotEq))):
                continue
            l_, r_ = c.left, c.comparators[0]
            if not (isinstance(l_, ast.Subscript)
                    and isinstance(r_, ast.Subscript)
                    and U(l_.value) == U(r_.value)):
                continue
            sl = {U(l_.slice).replace(' ', ''), U(r_.slice).replace(' ', '')}
            if not any(x.startswith('1:') for x in sl) or not any(
                    x.startswith(':-1') for x in sl):
                continue
            base = U(l_.value)
            defs_ = [a for a in ast.walk(fn) if isinstance(a, ast.Assign)
                     and any(U(t) == base for t in a.targets)
                     and a.lineno <= c.lineno]
            srt = defs_ and any(
                isinstance(x, ast.Call) and (U(x.func) in (
                    'np.sort', 'sorted', 'np.unique', 'np.lexsort',
                    'np.argsort') or (isinstance(x.func, ast.Attribute)
                                      and x.func.attr in ('sort',
                                                          'sort_values')))
                for x in ast.walk(defs_[-1].value))
            if not srt:
                bad += 1
                ctx.violation(
                    rule, repo.loc(c, cls, fn.name), construct,
                    'L26 neighbour comparison on unsorted %s' % base,
                    '`%s` detects repeated entries by comparing neighbours, '
                    'but `%s` is not sorted at that point: repeats that are '
                    'not adjacent survive' % (U(c)[:60], base))
        # L27: groupby orders its result by the sorted keys; a positional
        # use of that result is paired with tables kept in another order
        for c in ast.walk(fn):
            if isinstance(c, ast.Call) and isinstance(
                    c.func, ast.Attribute) and c.func.attr == 'groupby' \
                    and not any(k.arg == 'sort' and isinstance(
                        k.value, ast.Constant) and k.value.value is False
                        for k in c.keywords):
                bad += 1
                ctx.violation(
                    rule, repo.loc(c, cls, fn.name), construct,
                    'L27 groupby order',
                    '`%s` returns its groups ordered by the *sorted* key '
                    '(strings: "10" < "2"), not in the order of first '
                    'appearance in which the library keeps its ID tables: '
                    'a positional use pairs rows with the wrong individual'
                    % U(c)[:60])
        # L28: contradiction — `x in acc` treats x as an element of the list,
        # `acc += x` treats it as a list of elements (a string is extended
        # character by character)
        for a_ in ast.walk(fn):
            if isinstance(a_, ast.AugAssign) and isinstance(
                    a_.op, ast.Add) and isinstance(a_.target, ast.Name) \
                    and isinstance(a_.value, ast.Name):
                acc, x_ = a_.target.id, a_.value.id
                if any(isinstance(c, ast.Compare) and len(c.ops) == 1
                       and isinstance(c.ops[0], (ast.In, ast.NotIn))
                       and U(c.left) == x_ and U(c.comparators[0]) == acc
                       for c in ast.walk(fn)):
                    bad += 1
                    ctx.violation(
                        rule, repo.loc(a_, cls, fn.name), construct,
                        'L28 element extended into %s' % acc,
                        '`%s` extends the list by the *parts* of `%s` '
                        '(characters of a string, entries of a tuple) while '
                        '`%s in %s` in the same function treats it as one '
                        'element: membership / uniqueness tests on the list '
                        'no longer see the element' % (
                            norm_stmt(a_), x_, x_, acc))
        # L29: the index of an enumerate over a *filtered* array addresses
        # another, unfiltered sequence
        for l_ in ast.walk(fn):
            if not (isinstance(l_, ast.For) and isinstance(
                    l_.iter, ast.Call) and U(l_.iter.func) == 'enumerate'
                    and l_.iter.args and isinstance(l_.iter.args[0], ast.Name)
                    and isinstance(l_.target, ast.Tuple)
                    and isinstance(l_.target.elts[0], ast.Name)):
                continue
            seq, idx = l_.iter.args[0].id, l_.target.elts[0].id
            d_ = [a for a in ast.walk(fn) if isinstance(a, ast.Assign)
                  and any(U(t) == seq for t in a.targets)
                  and a.lineno < l_.lineno]
            if not d_:
                continue
            last = sorted(d_, key=lambda a: a.lineno)[-1].value
            filt = isinstance(last, ast.Subscript) and any(
                isinstance(x, ast.Compare) for x in ast.walk(last.slice))
            if not filt:
                continue
            for sub in ast.walk(l_):
                if isinstance(sub, ast.Subscript) and U(sub.slice) == idx \
                        and U(sub.value) != seq and isinstance(
                            sub.ctx, ast.Load):
                    bad += 1
                    ctx.violation(
                        rule, repo.loc(sub, cls, fn.name), construct,
                        'L29 filtered index into %s' % U(sub.value)[:30],
                        '`%s` is addressed with the position `%s` in `%s`, '
                        'which was filtered (`%s`) before the loop: after an '
                        'entry was dropped every later position refers to '
                        'the wrong element of `%s`' % (
                            U(sub), idx, seq, U(last)[:40], U(sub.value)))
                    break
        # L30: inside a loop, `acc[<the same block every time>] = <a value
        # that changes per iteration>` keeps only the last iteration; a
        # shared block that every element contributes to is accumulated
        for l_ in ast.walk(fn):
            if not isinstance(l_, ast.For):
                continue
            assigned = {x.id for x in ast.walk(l_) if isinstance(x, ast.Name)
                        and isinstance(x.ctx, ast.Store)}
            for st in ast.walk(l_):
                if not (isinstance(st, ast.Assign) and len(st.targets) == 1
                        and isinstance(st.targets[0], ast.Subscript)
                        and isinstance(st.targets[0].value, ast.Name)):
                    continue
                t_ = st.targets[0]
                if t_.value.id in assigned:
                    continue
                if any(isinstance(x, ast.Constant) and isinstance(
                        x.value, str) for x in ast.walk(t_.slice)):
                    continue        # a column of a frame / a dict entry
                idx = {x.id for x in ast.walk(t_.slice)
                       if isinstance(x, ast.Name)}
                if idx & assigned or not any(
                        isinstance(x, ast.Slice) for x in ast.walk(t_.slice)):
                    continue
                rhs = {x.id for x in ast.walk(st.value)
                       if isinstance(x, ast.Name)}
                if rhs & assigned and _innermost_for(st, fn) is l_:
                    bad += 1
                    ctx.violation(
                        rule, repo.loc(st, cls, fn.name), construct,
                        'L30 block overwritten per iteration',
                        '`%s` writes the same block of `%s` in every '
                        'iteration of the loop with a value that differs '
                        'per iteration: only the last element\'s '
                        'contribution survives (a block shared by all '
                        'elements must be accumulated)' % (
                            norm_stmt(st)[:60], t_.value.id))
        # L31: `x = x.get_population_model()` (a wrapper replaced by what it
        # wraps, e.g. to walk its sub-models) followed by an evaluation /
        # sampling call on x: the parameter vector at hand is the
        # *wrapper's* (fixed parameters removed, covariate coefficients
        # appended), not the wrapped model's
        UNWRAP = ('get_population_model', 'get_error_model',
                  'mechanistic_model', 'get_predictive_model')
        EVALS_ = ('sample', 'compute_log_likelihood', 'compute_sensitivities',
                  'compute_individual_parameters', 'compute_pointwise_ll',
                  'simulate', 'get_mean_and_std')
        for a_ in ast.walk(fn):
            if not (isinstance(a_, ast.Assign) and len(a_.targets) == 1
                    and isinstance(a_.targets[0], ast.Name)
                    and isinstance(a_.value, ast.Call)
                    and isinstance(a_.value.func, ast.Attribute)
                    and a_.value.func.attr in UNWRAP
                    and U(a_.value.func.value) == a_.targets[0].id):
                continue
            x_ = a_.targets[0].id
            for c in ast.walk(fn):
                if isinstance(c, ast.Call) and isinstance(
                        c.func, ast.Attribute) and c.func.attr in EVALS_ \
                        and U(c.func.value) == x_ \
                        and c.lineno > a_.lineno:
                    bad += 1
                    ctx.violation(
                        rule, repo.loc(c, cls, fn.name), construct,
                        'L31 evaluation after unwrap %s' % x_,
                        '`%s` is evaluated after `%s` replaced the wrapper '
                        'by the model it wraps: the vector handed over was '
                        'built for the wrapper (fixed parameters removed / '
                        'covariate coefficients included)' % (
                            U(c)[:50], norm_stmt(a_)[:50]))
                    break
        # L31b: ... or by a *query* that the wrapper answers differently
        # from the model it wraps (it overrides the method with more than a
        # pass-through): counts, names and index tables of the wrapped model
        # are in the wrapped model's coordinates, the data at hand in the
        # wrapper's
        for a_ in ast.walk(fn):
            if not (isinstance(a_, ast.Assign) and len(a_.targets) == 1
                    and isinstance(a_.targets[0], ast.Name)
                    and isinstance(a_.value, ast.Call)
                    and isinstance(a_.value.func, ast.Attribute)
                    and a_.value.func.attr in UNWRAP
                    and U(a_.value.func.value) in (
                        a_.targets[0].id, 'self._' + a_.targets[0].id)):
                continue
            x_ = a_.targets[0].id
            wrappers_ = [k for k in repo.classes
                         if a_.value.func.attr in repo.classes[k].methods]
            for c in ast.walk(fn):
                if not (isinstance(c, ast.Call) and isinstance(
                        c.func, ast.Attribute) and U(c.func.value) == x_
                        and c.lineno > a_.lineno
                        and c.func.attr not in EVALS_
                        and c.func.attr not in UNWRAP):
                    continue
                m_ = c.func.attr
                for w_ in sorted(wrappers_):
                    wf = repo.classes[w_].methods.get(m_)
                    if wf is None:
                        continue
                    body_ = repo.body_wo_doc(wf)
                    passthrough = len(body_) == 1 and isinstance(
                        body_[0], ast.Return) and isinstance(
                        body_[0].value, ast.Call) and isinstance(
                        body_[0].value.func, ast.Attribute) \
                        and body_[0].value.func.attr == m_
                    if passthrough:
                        continue
                    bad += 1
                    ctx.violation(
                        rule, repo.loc(c, cls, fn.name), construct,
                        'L31 query after unwrap %s.%s' % (x_, m_),
                        '`%s` asks the wrapped model after `%s` replaced '
                        'the wrapper; %s.%s answers differently (it is not a '
                        'pass-through), so the answer is in the wrapped '
                        'model\'s coordinates while the vectors at hand are '
                        'the wrapper\'s' % (U(c)[:50], norm_stmt(a_)[:50],
                                            w_, m_))
                    break
        # L32: a one-shot iterator (enumerate / zip / map / filter / iter /
        # generator expression) bound to a name outside a loop and iterated
        # inside it is empty from the second pass on
        for a_ in ast.walk(fn):
            if not (isinstance(a_, ast.Assign) and len(a_.targets) == 1
                    and isinstance(a_.targets[0], ast.Name) and (
                        isinstance(a_.value, ast.GeneratorExp) or (
                            isinstance(a_.value, ast.Call) and U(
                                a_.value.func) in ('enumerate', 'zip', 'map',
                                                   'filter', 'iter',
                                                   'reversed')))):
                continue
            nm = a_.targets[0].id
            for l_ in ast.walk(fn):
                if isinstance(l_, (ast.For, ast.While)) and not any(
                        x is a_ for x in ast.walk(l_)):
                    inner = [x for b in l_.body for x in ast.walk(b)
                             if isinstance(x, ast.For) and isinstance(
                                 x.iter, ast.Name) and x.iter.id == nm]
                    if inner:
                        bad += 1
                        ctx.violation(
                            rule, repo.loc(inner[0], cls, fn.name), construct,
                            'L32 iterator consumed twice %s' % nm,
                            '`%s` is a one-shot iterator (`%s`) created '
                            'outside the loop `%s` and iterated inside it: '
                            'it is exhausted after the first pass, later '
                            'passes do nothing' % (
                                nm, U(a_.value)[:40], norm_stmt(l_)[:40]))
                        break
        # L33: `not np.sum(x)` / `np.sum(x) == 0` as a test for "all zero":
        # entries of both signs cancel
        for c in ast.walk(fn):
            t_ = None
            if isinstance(c, ast.UnaryOp) and isinstance(c.op, ast.Not) \
                    and isinstance(c.operand, ast.Call) and U(
                        c.operand.func) in ('np.sum', 'sum', 'np.mean'):
                t_ = c
            if isinstance(c, ast.Compare) and len(c.ops) == 1 and isinstance(
                    c.ops[0], (ast.Eq, ast.NotEq)) and isinstance(
                    c.left, ast.Call) and U(c.left.func) in (
                    'np.sum', 'sum', 'np.mean') and isinstance(
                    c.comparators[0], ast.Constant) \
                    and c.comparators[0].value == 0 and not any(
                        isinstance(x, (ast.Compare, ast.Call)) and x is not
                        c.left and (isinstance(x, ast.Compare) or U(
                            x.func) in ('np.abs', 'abs', 'np.isnan',
                                        'np.square'))
                        for x in ast.walk(c.left)):
                t_ = c
            if t_ is not None:
                bad += 1
                ctx.violation(
                    rule, repo.loc(t_, cls, fn.name), construct,
                    'L33 sum as all-zero test',
                    '`%s` treats a vanishing sum as "all entries are zero": '
                    'entries of opposite sign cancel (0.5 and -0.5)' % U(
                        t_)[:50])
        # L34: fixed-width string arrays truncate longer entries silently
        for c in ast.walk(fn):
            if isinstance(c, ast.Call):
                for k in c.keywords:
                    if k.arg == 'dtype' and isinstance(
                            k.value, ast.Constant) and isinstance(
                            k.value.value, str):
                        dv = k.value.value.lstrip('<>|=')
                        if dv[:1] in ('U', 'S') and dv[1:].isdigit() and (
                                cls, fn.name) not in FIXED_WIDTH_OK:
                            bad += 1
                            ctx.violation(
                                rule, repo.loc(c, cls, fn.name), construct,
                                'L34 fixed-width strings',
                                '`%s` stores strings in a fixed-width array '
                                '(%s): longer names are truncated without a '
                                'warning and no longer match the names of '
                                'the wrapped model' % (U(c)[:50],
                                                       k.value.value))
        # L35: counts from np.unique without their labels: values that do not
        # occur have no entry, so position k is not the count of value k
        for a_ in ast.walk(fn):
            if isinstance(a_, ast.Assign) and isinstance(
                    a_.value, ast.Call) and U(a_.value.func) in (
                    'np.unique', 'numpy.unique') and any(
                        k.arg == 'return_counts' for k in a_.value.keywords) \
                    and isinstance(a_.targets[0], ast.Tuple) and isinstance(
                        a_.targets[0].elts[0], ast.Name) \
                    and a_.targets[0].elts[0].id.startswith('_'):
                bad += 1
                ctx.violation(
                    rule, repo.loc(a_, cls, fn.name), construct,
                    'L35 counts without labels',
                    '`%s` keeps the counts and drops the values they belong '
                    'to: a value that does not occur has no entry, so the '
                    'k-th count is not the count of the k-th candidate' % (
                        norm_stmt(a_)[:60]))
        # L36: hash() of a string is salted per process
        for c in ast.walk(fn):
            if isinstance(c, ast.Call) and U(c.func) == 'hash':
                bad += 1
                ctx.violation(
                    rule, repo.loc(c, cls, fn.name), construct,
                    'L36 process-dependent hash',
                    '`%s`: the hash of a string differs between interpreter '
                    'sessions (PYTHONHASHSEED), so whatever is derived from '
                    'it (a seed, an order) is not reproducible' % U(c)[:50])
        # L37: identity comparison of values
        for c in ast.walk(fn):
            if isinstance(c, ast.Compare):
                for op, r_ in zip(c.ops, c.comparators):
                    if isinstance(op, (ast.Is, ast.IsNot)) and not (
                            isinstance(r_, ast.Constant) and (
                                r_.value is None or isinstance(
                                    r_.value, bool) or r_.value is Ellipsis)
                    ) and not isinstance(c.left, ast.Constant) \
                            and not (isinstance(r_, (ast.Name, ast.Attribute))
                                     and U(r_) in ('self', 'cls')) \
                            and any((isinstance(x_, ast.Call) and U(
                                x_.func) != 'bool') or isinstance(
                                x_, (ast.BinOp, ast.Subscript)) or (
                                isinstance(x_, ast.Constant) and isinstance(
                                    x_.value, (int, float, str))
                                and not isinstance(x_.value, bool))
                                for x_ in (c.left, r_)):
                        # (two plain names may both hold booleans / the same
                        # object on purpose; a computed value never does)
                        bad += 1
                        ctx.violation(
                            rule, repo.loc(c, cls, fn.name), construct,
                            'L37 identity comparison',
                            '`%s` compares identities, not values: equal '
                            'numbers / strings are the same object only by '
                            'an implementation accident (small-integer '
                            'cache)' % U(c)[:60])
        # L38: chained comparison that mixes (in)equality with ordering
        for c in ast.walk(fn):
            if isinstance(c, ast.Compare) and len(c.ops) > 1:
                fam = {'eq' if isinstance(o, (ast.Eq, ast.NotEq)) else
                       'ord' if isinstance(o, (ast.Lt, ast.LtE, ast.Gt,
                                               ast.GtE)) else 'other'
                       for o in c.ops}
                if len(fam) > 1:
                    bad += 1
                    ctx.violation(
                        rule, repo.loc(c, cls, fn.name), construct,
                        'L38 mixed chained comparison',
                        '`%s` chains an (in)equality with an ordering: it '
                        'means `(a op1 b) and (b op2 c)`, which drops every '
                        'condition on `a` alone' % U(c)[:60])
        # L39: nan-ignoring reductions turn an invalid value (NaN from a
        # point outside the support, a failed solve) into a finite result
        for c in ast.walk(fn):
            if isinstance(c, ast.Call) and U(c.func) in (
                    'np.nansum', 'np.nanmean', 'np.nanprod', 'np.nanmax',
                    'np.nanmin', 'np.nanvar', 'np.nanstd'):
                bad += 1
                ctx.violation(
                    rule, repo.loc(c, cls, fn.name), construct,
                    'L39 nan-ignoring reduction',
                    '`%s` drops NaN terms: a term that is NaN because the '
                    'point lies outside the support (or a value is invalid) '
                    'no longer propagates, and the routes that use the '
                    'plain reduction disagree with this one' % U(c)[:50])
        # L41: np.array_split(x, <count>) cuts into (nearly) equal shares,
        # whatever the lengths of the pieces that were concatenated into x
        for c in ast.walk(fn):
            if isinstance(c, ast.Call) and U(c.func) in (
                    'np.array_split', 'numpy.array_split') \
                    and len(c.args) >= 2 and not isinstance(
                        c.args[1], (ast.List, ast.Tuple)) and not any(
                        isinstance(x, ast.Call) and U(x.func) in (
                            'np.cumsum', 'numpy.cumsum')
                        for x in ast.walk(c.args[1])):
                bad += 1
                ctx.violation(
                    rule, repo.loc(c, cls, fn.name), construct,
                    'L41 equal shares',
                    '`%s` splits into `%s` shares of (nearly) equal length: '
                    'pieces of different length that were joined before do '
                    'not come back as they were' % (U(c)[:50],
                                                    U(c.args[1])[:20]))
        # L42: np.atleast_2d turns a 1-D input into one *row*; the documented
        # 1-D inputs of the library are one value per individual (a column)
        for c in ast.walk(fn):
            if isinstance(c, ast.Call) and U(c.func) in (
                    'np.atleast_2d', 'np.atleast_3d') and c.args and any(
                        isinstance(x, ast.Name) and x.id in {
                            a.arg for a in fn.args.args}
                        for x in ast.walk(c.args[0])):
                bad += 1
                ctx.violation(
                    rule, repo.loc(c, cls, fn.name), construct,
                    'L42 atleast_2d row',
                    '`%s` prepends the new axis: a 1-D input of n values '
                    'becomes shape (1, n), one row, where the library\'s '
                    '1-D layouts mean n individuals (n, 1); the row then '
                    'broadcasts silently against per-individual arrays'
                    % U(c)[:50])
        # L12: squeeze without axis turns a length-1 input into a 0-d
        # array (len() and indexing then fail)
        pset = {a.arg for a in fn.args.args + fn.args.kwonlyargs} - {'self'}
        derived = set(pset)
        changed = True
        while changed:
            changed = False
            for a in ast.walk(fn):
                if isinstance(a, ast.Assign) and len(a.targets) == 1 \
                        and isinstance(a.targets[0], ast.Name) \
                        and a.targets[0].id not in derived and any(
                            isinstance(x, ast.Name) and x.id in derived
                            for x in ast.walk(a.value)):
                    derived.add(a.targets[0].id)
                    changed = True
        for c in ast.walk(fn):
            if not isinstance(c, ast.Call):
                continue
            arg = None
            if U(c.func) in ('np.squeeze', 'numpy.squeeze') \
                    and len(c.args) == 1 and not any(
                        k.arg == 'axis' for k in c.keywords):
                arg = c.args[0]
            elif isinstance(c.func, ast.Attribute) and c.func.attr == \
                    'squeeze' and not c.args and not c.keywords and U(
                        c.func.value) not in ('np', 'numpy'):
                arg = c.func.value
            if arg is None:
                continue
            src = [x.id for x in ast.walk(arg) if isinstance(x, ast.Name)
                   and x.id in derived]
            if src:
                bad += 1
                ctx.violation(
                    rule, repo.loc(c, cls, fn.name), construct,
                    'L12 squeeze of an argument %s' % src[0],
                    '`%s` removes *every* axis of length one from the '
                    'caller\'s array: an input with a single entry becomes '
                    '0-dimensional and the following len() / indexing '
                    'raises' % U(c)[:50])
        # L13: rounding a computed value replaces it by a different number;
        # no documented quantity of the library is defined up to a tolerance
        for c in ast.walk(fn):
            if not isinstance(c, ast.Call):
                continue
            f = U(c.func)
            is_round = f in ('round', 'np.round', 'np.around', 'np.rint',
                             'np.floor', 'np.ceil', 'np.trunc', 'np.fix',
                             'np.round_', 'math.floor', 'math.ceil') or (
                isinstance(c.func, ast.Attribute) and c.func.attr == 'round'
                and U(c.func.value) not in ('np', 'numpy'))
            if not is_round:
                continue
            par = getattr(c, '_parent', None)
            shown = False
            while par is not None and not isinstance(par, ast.stmt):
                if isinstance(par, (ast.JoinedStr, ast.FormattedValue)) or (
                        isinstance(par, ast.Call) and U(par.func) in (
                            'str', 'repr', 'print', 'format')):
                    shown = True
                par = getattr(par, '_parent', None)
            if shown:
                continue
            bad += 1
            ctx.violation(
                rule, repo.loc(c, cls, fn.name), construct,
                'L13 rounded value',
                '`%s` rounds a computed value: times, measurements, '
                'parameters, ranks and scores that differ by less than the '
                'rounding step are merged / moved, which none of the '
                'documented quantities allows' % U(c)[:60])
        # L15: sampling individuals / rows with `choice(.., replace=<not
        # True>)` draws without replacement: the draws are no longer
        # independent samples of the documented (discrete) distribution
        for c in ast.walk(fn):
            if isinstance(c, ast.Call) and isinstance(
                    c.func, ast.Attribute) and c.func.attr == 'choice':
                for k in c.keywords:
                    if k.arg == 'replace' and not (isinstance(
                            k.value, ast.Constant) and k.value.value is True):
                        bad += 1
                        ctx.violation(
                            rule, repo.loc(c, cls, fn.name), construct,
                            'L15 draws without replacement',
                            '`%s` draws without replacement (replace=%s): '
                            'the returned samples are a partial permutation, '
                            'not independent draws from the distribution' % (
                                U(c)[:50], U(k.value)[:30]))
        # L23: lost update — a local is re-computed from its own previous
        # value and the result is never read (flow sensitive: the name is
        # re-bound or the function ends first)
        for st, nm in dead_stores(fn):
            if _abstract_rhs(st.value) in DEAD_STORE_OK.get(
                    (cls, fn.name), {}):
                continue
            # only *lost updates*: the dead value was computed from the
            # name's own previous value (`v = v + g` on a view, `x = x.T`);
            # a plain unused temporary changes nothing
            if not (isinstance(st.value, ast.BinOp) and any(
                    isinstance(x, ast.Name) and x.id == nm
                    for x in (st.value.left, st.value.right))):
                # `v = v + g` / `v = v * k`; a method call kept for its
                # validation (`x = x.reshape(..)`) is not an update
                continue
            bad += 1
            ctx.violation(
                rule, repo.loc(st, cls, fn.name), construct,
                'L23 dead store %s' % nm,
                '`%s` stores a value in `%s` that nothing reads afterwards: '
                'if it was meant to update an array in place (a view was '
                're-bound instead of written through) or to replace an '
                'input, that update is lost' % (norm_stmt(st)[:60], nm))
        # L16: a negated computed length as a slice bound
        for sl in ast.walk(fn):
            if not isinstance(sl, ast.Slice):
                continue
            for b in (sl.lower, sl.upper):
                if isinstance(b, ast.UnaryOp) and isinstance(
                        b.op, ast.USub) and not isinstance(
                        b.operand, ast.Constant):
                    if (cls, fn.name, U(sl).replace(' ', '')) in \
                            NEG_SLICE_OK:
                        continue
                    # a dominating test that the length is non-zero
                    nm = U(b.operand)
                    guarded = False
                    cur = getattr(sl, '_parent', None)
                    while cur is not None and cur is not fn:
                        if isinstance(cur, ast.If) and nm in U(cur.test):
                            guarded = True
                        cur = getattr(cur, '_parent', None)
                    if guarded:
                        continue
                    bad += 1
                    ctx.violation(
                        rule, repo.loc(sl, cls, fn.name), construct,
                        'L16 negated length in slice %s' % U(sl)[:30],
                        'the slice `%s` counts from the end with the '
                        'computed length `%s`: when that length is 0 the '
                        'slice is %s instead of %s' % (
                            U(sl), nm,
                            'empty' if b is sl.upper else 'the whole array',
                            'the whole array' if b is sl.upper
                            else 'empty'))
        # L17: comparisons up to a tolerance where the library compares
        # exactly (a point mass accepts only its own value)
        for c in ast.walk(fn):
            if isinstance(c, ast.Call) and U(c.func) in (
                    'np.isclose', 'np.allclose', 'math.isclose') \
                    and not rel.startswith('chi/plots'):
                bad += 1
                ctx.violation(
                    rule, repo.loc(c, cls, fn.name), construct,
                    'L17 tolerance comparison',
                    '`%s` accepts values that differ by the default '
                    'tolerances (rtol 1e-5, atol 1e-8); the documented '
                    'densities, supports and point masses are exact' % U(
                        c)[:60])
        # L18: the result of a pure conversion is discarded (the converted
        # value was meant to replace its argument)
        for st in ast.walk(fn):
            if isinstance(st, ast.Expr) and isinstance(
                    st.value, ast.Call) and U(st.value.func) in PURE_CALLS:
                bad += 1
                ctx.violation(
                    rule, repo.loc(st, cls, fn.name), construct,
                    'L18 discarded result %s' % U(st.value.func),
                    '`%s` computes a value and drops it: the code below '
                    'keeps working on the unconverted argument (a one-shot '
                    'iterable is consumed by the conversion and then '
                    'empty)' % U(st)[:60])
        # L19: np.arange with a (possibly non-integer) step: the number of
        # elements depends on floating point rounding of (stop-start)/step
        for c in ast.walk(fn):
            if isinstance(c, ast.Call) and U(c.func) in (
                    'np.arange', 'numpy.arange'):
                step = c.args[2] if len(c.args) >= 3 else None
                for k in c.keywords:
                    if k.arg == 'step':
                        step = k.value
                if step is not None and not (isinstance(
                        step, ast.Constant) and isinstance(step.value, int)):
                    bad += 1
                    ctx.violation(
                        rule, repo.loc(c, cls, fn.name), construct,
                        'L19 arange with computed step',
                        '`%s` builds a grid with the step `%s`: for '
                        'non-integer steps the length of the result depends '
                        'on rounding (numpy documents that it can contain '
                        'one element more than (stop - start) / step)' % (
                            U(c)[:60], U(step)[:20]))
        # L20: filled() without a fill value writes the default 1e20
        for c in ast.walk(fn):
            if isinstance(c, ast.Call) and ((
                    U(c.func) == 'np.ma.filled' and len(c.args) < 2
                    and not c.keywords) or (
                    isinstance(c.func, ast.Attribute)
                    and c.func.attr == 'filled'
                    and U(c.func) != 'np.ma.filled' and not c.args
                    and not c.keywords)):
                bad += 1
                ctx.violation(
                    rule, repo.loc(c, cls, fn.name), construct,
                    'L20 filled without value',
                    '`%s` replaces masked entries by numpy\'s default fill '
                    'value (1e20 for floats)' % U(c)[:60])
        # L21: a loop whose body always leaves in its first iteration
        for l in ast.walk(fn):
            if isinstance(l, (ast.For, ast.While)) and l.body and isinstance(
                    l.body[-1], (ast.Return, ast.Break)) and not any(
                        isinstance(x, ast.Continue) for b in l.body
                        for x in ast.walk(b)):
                bad += 1
                ctx.violation(
                    rule, repo.loc(l.body[-1], cls, fn.name), construct,
                    'L21 loop leaves in first iteration',
                    'the loop `%s` ends every first iteration with `%s`: '
                    'only the first element is processed' % (
                        norm_stmt(l)[:50], norm_stmt(l.body[-1])[:30]))
        # L22: process-wide settings changed by library code
        for c in ast.walk(fn):
            if isinstance(c, ast.Call) and (U(c.func) in GLOBAL_SETTERS or (
                    isinstance(c.func, ast.Attribute) and U(
                        c.func.value).startswith('os.environ'))):
                par = getattr(c, '_parent', None)
                if isinstance(par, ast.withitem):
                    continue
                bad += 1
                ctx.violation(
                    rule, repo.loc(c, cls, fn.name), construct,
                    'L22 global setting %s' % U(c.func),
                    '`%s` changes a process-wide setting and does not '
                    'restore it: evaluations then alter the behaviour of '
                    'the caller\'s own code' % U(c)[:60])
        # L14: a container created with *_like(<argument>) inherits the
        # argument's dtype; storing computed (floating point) values into it
        # truncates them for integer input
        stored_into = set()
        for a in ast.walk(fn):
            if isinstance(a, (ast.Assign, ast.AugAssign)):
                tg = a.targets if isinstance(a, ast.Assign) else [a.target]
                for t in tg:
                    if isinstance(t, ast.Subscript) and isinstance(
                            t.value, ast.Name):
                        stored_into.add(t.value.id)
                    if isinstance(a, ast.AugAssign) and isinstance(
                            t, ast.Name):
                        stored_into.add(t.id)
        for a in ast.walk(fn):
            if isinstance(a, ast.Assign) and len(a.targets) == 1 \
                    and isinstance(a.targets[0], ast.Name) \
                    and isinstance(a.value, ast.Call) and U(
                        a.value.func) in ('np.zeros_like', 'np.empty_like',
                                          'np.ones_like', 'np.full_like',
                                          'np.repeat', 'np.tile') \
                    and a.value.args and not any(
                        k.arg == 'dtype' for k in a.value.keywords) \
                    and a.targets[0].id in stored_into and any(
                        isinstance(x, ast.Name) and x.id in derived
                        for x in ast.walk(a.value.args[0])):
                bad += 1
                ctx.violation(
                    rule, repo.loc(a, cls, fn.name), construct,
                    'L14 container inherits dtype %s' % a.targets[0].id,
                    '`%s` allocates the result container with the dtype of '
                    'the caller\'s array: for integer-valued input the '
                    'computed floating point entries are truncated when '
                    'they are stored into it' % norm_stmt(a)[:60])
        # L5: a function that takes `axis` hands it to every reduction over
        # its array argument (a reduction without it collapses all axes)
        pnames = [a.arg for a in fn.args.args + fn.args.kwonlyargs]
        if 'axis' in pnames:
            first = [p for p in pnames if p not in ('self', 'axis',
                                                    'keepdims')][:1]
            for c in ast.walk(fn):
                if isinstance(c, ast.Call) and U(c.func) in REDUCTIONS \
                        and c.args and first and isinstance(
                            c.args[0], ast.Name) and c.args[0].id in first:
                    has_axis = len(c.args) > 1 or any(
                        k.arg == 'axis' for k in c.keywords)
                    if not has_axis:
                        bad += 1
                        ctx.violation(
                            rule, repo.loc(c, cls, fn.name), construct,
                            'L5 reduction without axis',
                            '`%s` reduces `%s` over all axes although %s '
                            'takes an `axis` argument and its other '
                            'reductions use it: the result is a global '
                            'instead of a per-slice quantity' % (
                                norm_stmt(c)[:60], first[0], construct))
        from . import lint2
        bad += lint2.check(ctx, repo, T, rel, cls, fn, construct, rule)
        if not bad:
            ctx.ok(rule, repo.loc(fn, cls, fn.name), construct,
                   'loop elements are used, no stale loop variable, every '
                   'assigned local is read')
    # L24: a keyword that several API functions share has one default; a
    # function whose default differs from all its siblings behaves
    # differently for the standard call (exceptions tabled with a reason)
    import collections
    table = collections.defaultdict(lambda: collections.defaultdict(list))
    for rel2, cls2, fn2 in repo.all_functions():
        a = fn2.args
        pos, dfl = a.args, a.defaults
        pairs = list(zip(pos[len(pos) - len(dfl):], dfl)) + [
            (x, d) for x, d in zip(a.kwonlyargs, a.kw_defaults)
            if d is not None]
        for arg, de in pairs:
            table[arg.arg][U(de)].append((rel2, cls2, fn2))
    for pname, vals in sorted(table.items()):
        total = sum(len(v) for v in vals.values())
        if len(vals) < 2 or total < 3 or pname in DEFAULTS_DIFFER_OK:
            continue
        major = max(vals.items(), key=lambda kv: len(kv[1]))
        if len(major[1]) < total - 1:
            continue
        for dv, sites in vals.items():
            if dv == major[0]:
                continue
            for rel2, cls2, fn2 in sites:
                if files is not None and rel2 not in files:
                    continue
                construct = '%s.%s' % (cls2, fn2.name) if cls2 else fn2.name
                ctx.violation(
                    rule, repo.loc(fn2, cls2, fn2.name), construct,
                    'L24 default of %s' % pname,
                    '`%s=%s` in %s, while the %d other functions that take '
                    '`%s` default to %s: the standard call (no explicit '
                    'value) behaves differently here' % (
                        pname, dv, construct, len(major[1]), pname,
                        major[0]))
    if n_fn < 5:
        ctx.error(rule, 'only %d functions analysed' % n_fn)
