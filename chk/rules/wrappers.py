"""R02.2 — wrapper population models forward state-changing interface calls
and keep no stale cache of a quantity the forwarded call can change.

"Can change" is a least fixpoint over the class hierarchy (engine D):
  changed(K, F)   field F of class K is assigned, in K's resolved mutator (or a
                  helper it self-calls), a value that depends on the mutator's
                  argument, on a changed field, or on a changed getter of a
                  sub-model (control dependence through for/if included);
  changes(g)      some class's resolved getter g reads a changed field or
                  calls a changed getter on a sub-model.
"""
import ast

from ..loader import U
from ..types import Types
from ..effects import Effects, direct, _self_field
from .iface import is_abstract_base

ROOT = 'PopulationModel'
MUTATORS = ('set_n_ids',)
NAMING_MUTATORS = ('set_dim_names', 'set_parameter_names',
                   'set_covariate_names')
# getters whose value matters for counts/evaluation (armed); naming getters
# are only noted
COUNT_GETTERS = ('n_parameters', 'n_hierarchical_parameters', 'n_ids',
                 'n_dim', 'n_hierarchical_dim', 'n_covariates',
                 'get_special_dims')


def _names(expr):
    return {n.id for n in ast.walk(expr) if isinstance(n, ast.Name)}


def _fields(expr):
    out = set()
    for n in ast.walk(expr):
        if isinstance(n, ast.Attribute) and isinstance(n.value, ast.Name) \
                and n.value.id == 'self':
            out.add('self.' + n.attr)
    return out


class Changed:
    def __init__(self, repo, mutator):
        self.repo = repo
        self.T = Types(repo)
        self.E = Effects(repo)
        self.mutator = mutator
        self.classes = [k for k in repo.subclasses(ROOT)]
        self.changed = set()          # (K, 'self.f')
        self.getters = set()          # getter names that may change
        self._solve()

    # getter g of class K changes?
    def getter_changes(self, K, g, depth=0):
        k, fn = self.repo.resolve(K, g)
        if fn is None or depth > 3:
            return False
        w, r, fc = self.E.summary(K, g)
        if any((K, f) in self.changed for f in r):
            return True
        for f, m, call in fc:
            if m in self.getters:
                return True
        # calls on loop variables over sub-model lists
        for n in ast.walk(fn):
            if isinstance(n, ast.Call) and isinstance(n.func, ast.Attribute) \
                    and n.func.attr in self.getters:
                t = self.T.type_of(n.func.value, k, fn)
                if t and t[0] != 'list' and ROOT in (
                        t[0] if isinstance(t[0], tuple) else (t[0],)):
                    return True
        return False

    def _fn_taint(self, K, k, fn, tainted_params):
        """One pass over fn: returns newly changed fields; follows
        self-calls (depth 2)."""
        new = set()
        tainted = set(tainted_params)

        def expr_tainted(e, ctrl):
            if ctrl:
                return True
            if _names(e) & tainted:
                return True
            if any((K, f) in self.changed for f in _fields(e)):
                return True
            for n in ast.walk(e):
                if isinstance(n, ast.Call) and isinstance(
                        n.func, ast.Attribute):
                    recv = n.func.value
                    if isinstance(recv, ast.Name) and recv.id == 'self':
                        if self.getter_changes(K, n.func.attr):
                            return True
                    elif n.func.attr in self.getters:
                        t = self.T.type_of(recv, k, fn)
                        if t and t[0] != 'list':
                            return True
            return False

        def walk(stmts, ctrl):
            for s in stmts:
                if isinstance(s, ast.For):
                    c = ctrl or expr_tainted(s.iter, False)
                    if c:
                        tainted.update(_names(s.target))
                    walk(s.body, c)
                    walk(s.orelse, ctrl)
                elif isinstance(s, ast.While):
                    walk(s.body, ctrl or expr_tainted(s.test, False))
                elif isinstance(s, ast.If):
                    # early-exit guards do not make later code dependent
                    exits = all(isinstance(x, (ast.Return, ast.Raise))
                                for x in s.body[-1:])
                    c = ctrl or (expr_tainted(s.test, False) and not exits)
                    walk(s.body, c)
                    walk(s.orelse, c)
                elif isinstance(s, (ast.Try, ast.With)):
                    walk(s.body, ctrl)
                    for h in getattr(s, 'handlers', []):
                        walk(h.body, ctrl)
                elif isinstance(s, (ast.Assign, ast.AugAssign)):
                    tgts = s.targets if isinstance(s, ast.Assign) \
                        else [s.target]
                    val_t = expr_tainted(s.value, ctrl)
                    if isinstance(s, ast.AugAssign):
                        val_t = val_t or expr_tainted(s.target, False)
                    if val_t:
                        for t in tgts:
                            for x in (t.elts if isinstance(
                                    t, (ast.Tuple, ast.List)) else [t]):
                                f = _self_field(x)
                                if f:
                                    if (K, f) not in self.changed:
                                        new.add((K, f))
                                elif isinstance(x, ast.Name):
                                    tainted.add(x.id)
                elif isinstance(s, ast.Expr) and isinstance(
                        s.value, ast.Call):
                    pass
        for _ in range(3):
            walk(fn.body, False)
        # self-called helpers
        w, r, sc, fc = direct(fn)
        return new, sc, tainted

    def _solve(self):
        repo = self.repo
        for _ in range(12):
            before = (len(self.changed), len(self.getters))
            for K in self.classes:
                k, fn = repo.resolve(K, self.mutator)
                if fn is None:
                    continue
                params = [a.arg for a in fn.args.args][1:]
                work = [(k, fn, params, 0)]
                seen = set()
                while work:
                    kk, f, tp, d = work.pop()
                    if (kk, f.name) in seen:
                        continue
                    seen.add((kk, f.name))
                    new, sc, tainted = self._fn_taint(K, kk, f, tp)
                    self.changed |= new
                    if d >= 2:
                        continue
                    for name, call, via in sc:
                        if name == self.mutator and via is None:
                            continue
                        k2, f2 = repo.resolve(
                            K, name, after=kk if via else None)
                        if f2 is None:
                            continue
                        p2 = [a.arg for a in f2.args.args][1:]
                        passed = any(
                            _names(a) & tainted for a in call.args) or any(
                            _names(kw.value) & tainted
                            for kw in call.keywords)
                        work.append((k2, f2, p2 if passed else [], d + 1))
            # getters
            all_getters = set()
            for K in self.classes:
                for kx in repo.mro(K):
                    for m in repo.cls(kx).methods:
                        if not m.startswith(('set_', '_', 'fix_')):
                            all_getters.add(m)
            for g in sorted(all_getters):
                if g in self.getters:
                    continue
                if any(self.getter_changes(K, g) for K in self.classes):
                    self.getters.add(g)
            if (len(self.changed), len(self.getters)) == before:
                break


def _wrappers(repo, T):
    """(W, field text, type, is_list) for PopulationModel subclasses that hold
    PopulationModel-typed fields."""
    out = []
    for W in repo.subclasses(ROOT, strict=True):
        for (k, f), t in T.fields.items():
            if k != W:
                continue
            et = t[1] if t[0] == 'list' else t
            base = et[0] if isinstance(et[0], tuple) else (et[0],)
            if ROOT in base:
                out.append((W, f, et, t[0] == 'list'))
    return out


def _forwards(repo, E, W, field, m):
    """Does W's resolved m (transitively) call m on the wrapped field, or on
    a loop variable over the wrapped list?"""
    k, fn = repo.resolve(W, m)
    if fn is None:
        return False, None, None
    w, r, fc = E.summary(W, m)
    for f, name, call in fc:
        if f == field and name == m:
            return True, k, fn
    # list: `for x in self._fs: x.m(...)`
    for n in ast.walk(fn):
        if isinstance(n, ast.For) and U(n.iter) == field and isinstance(
                n.target, ast.Name):
            for c in ast.walk(n):
                if isinstance(c, ast.Call) and isinstance(
                        c.func, ast.Attribute) and c.func.attr == m \
                        and U(c.func.value) == n.target.id:
                    return True, k, fn
    return False, k, fn


def r02_2(ctx, repo):
    rule = 'R02.2'
    T = Types(repo)
    E = Effects(repo)
    wrappers = _wrappers(repo, T)
    if len(wrappers) < 3:
        ctx.error(rule, 'only %d wrapper classes recognised (floor 3)'
                  % len(wrappers))
    for m in MUTATORS + NAMING_MUTATORS:
        ch = Changed(repo, m)
        armed = m in MUTATORS
        for W, field, et, is_list in wrappers:
            cands = [k for k in T.candidates(et)
                     if not is_abstract_base(repo, k)]
            # (a) forwarding: needed when some wrapped class gives m an effect
            eff = [K for K in cands if any(kk == K for kk, f in ch.changed)]
            fwd, k, fn = _forwards(repo, E, W, field, m)
            construct = '%s.%s' % (W, m)
            where = repo.loc(fn, k, m) if fn is not None else W
            if eff and not fwd:
                msg = ('%s holds a wrapped model in `%s` but its `%s` '
                       'resolves to %s.%s, which does not forward the call; '
                       'wrapped classes with state that depends on it: %s' % (
                           W, field, m, k, m, ', '.join(sorted(eff)[:6])))
                if armed:
                    ctx.violation(rule, where, construct, 'not forwarded',
                                  msg, wrapped=field)
                else:
                    ctx.note(rule, 'naming only, not armed: ' + msg)
                continue
            if eff:
                ctx.ok(rule, where, construct,
                       '`%s` is forwarded to %s' % (m, field))
            if not armed or not fwd:
                continue
            # (b) caches of changed getters must be refreshed by W.m
            wW, rW, fcW = E.summary(W, m)
            caches = _caches(repo, T, W, field, is_list)
            for cfield, g, node, meth in caches:
                if g not in ch.getters:
                    continue
                culprits = [K for K in cands if ch.getter_changes(K, g)]
                if not culprits:
                    continue
                if cfield in wW:
                    ctx.ok(rule, repo.loc(node, W, meth), construct,
                           'cache %s of wrapped %s() is refreshed by %s' % (
                               cfield, g, m))
                else:
                    ctx.violation(
                        rule, repo.loc(node, W, meth), construct,
                        'stale cache %s' % cfield,
                        '%s caches wrapped `%s()` in `%s` (%s) but `%s` '
                        'forwards without refreshing it; `%s()` changes with '
                        '%s for %s' % (W, g, cfield, meth, m, g, m,
                                       ', '.join(sorted(culprits)[:5])),
                        cache=cfield, getter=g)
            # (c) W's own inherited state written by the base mutator
            kb, fb = repo.resolve(ROOT, m)
            if fb is not None and k != kb:
                wb, _, _ = E.summary(ROOT, m)
                for f in sorted(wb):
                    if f in wW:
                        continue
                    readers = []
                    for g in COUNT_GETTERS:
                        kg, fg = repo.resolve(W, g)
                        if fg is None:
                            continue
                        _, rg, fcg = E.summary(W, g)
                        if f in rg and not any(
                                ff == field for ff, _, _ in fcg):
                            readers.append('%s.%s' % (kg, g))
                    if readers:
                        ctx.violation(
                            rule, where, construct, 'own state %s' % f,
                            '%s.%s overrides the base mutator without '
                            'updating `%s`, which %s still reports' % (
                                W, m, f, ', '.join(readers)),
                            field=f)
    ctx.floor(rule, 3)


def _caches(repo, T, W, field, is_list):
    """Assignments `self._c = <wrapped>.g()` (also tuple targets) anywhere in
    W outside the mutators: (cache field, getter, node, method)."""
    out = []
    for mname, fn in repo.cls(W).methods.items():
        if mname.startswith('set_') and mname != 'set_population_parameters':
            continue
        for n in ast.walk(fn):
            if not isinstance(n, ast.Assign) or len(n.targets) != 1:
                continue
            v = n.value
            if not (isinstance(v, ast.Call) and isinstance(
                    v.func, ast.Attribute)):
                continue
            t = T.type_of(v.func.value, W, fn)
            if not t or t[0] == 'list':
                continue
            base = t[0] if isinstance(t[0], tuple) else (t[0],)
            if ROOT not in base:
                continue
            tg = n.targets[0]
            for x in (tg.elts if isinstance(tg, ast.Tuple) else [tg]):
                f = _self_field(x)
                if f and isinstance(x, ast.Attribute):
                    out.append((f, v.func.attr, n, mname))
    return out
