"""Layout agreement rules (engine B, chk/shapes.py).

R07.1  covariate model: the flat coefficient vector is read, differentiated
       and named in one layout (selected > covariate); shapes of the forward
       transform and its adjoint agree.
"""
import ast

import sympy as sp

from ..loader import U, AnalysisError
from ..shapes import (ShapeLifter, Arr, Ax, TOP, nest_eq, nest_str, eq)
from ..term import Tup, Opaque, Unsupported

ENG = 'shape-layout'


def sym(name):
    return sp.Symbol(name, positive=True, integer=True)


N_SEL, N_COV, N_IDS, N_POP, N_DIM = (sym('n_selected'), sym('n_cov'),
                                     sym('n_ids'), sym('n_pop'),
                                     sym('n_dim'))


def _emit_events(ctx, rule, repo, cls, fn, lf, construct):
    n = 0
    seen = set()
    for ev in lf.events:
        key = '%s %s' % (ev.kind, ' '.join(ev.msg.split())[:80])
        if key in seen:
            continue
        seen.add(key)
        n += 1
        ctx.violation(rule, repo.loc(ev.node, cls, fn.name), construct,
                      key, ev.msg, engine=ENG)
    return n


def _cov_env():
    return {
        'self._n_selected': N_SEL, 'self._n_cov': N_COV,
        'self._pidx': Arr([Ax(N_SEL)]), 'self._didx': Arr([Ax(N_SEL)]),
        'parameters': Arr([Ax(N_SEL * N_COV, (('?beta', N_SEL * N_COV),))]),
        'pop_parameters': Arr([Ax(N_POP), Ax(N_DIM)]),
        'covariates': Arr([Ax(N_IDS), Ax(N_COV)]),
        'dlogp_dvartheta': Arr([Ax(N_IDS), Ax(N_POP), Ax(N_DIM)]),
    }


def _names_nest(repo, cls, fn, call):
    """Layout of the list handed to set_parameter_names: built from a source
    sequence of the selected names (one per selected parameter) repeated
    n_cov times, by a loop `acc += [name] * k`, a nested comprehension,
    np.repeat or np.tile / list multiplication.  The source sequence is the
    iterable of the loop / first argument of the repeat call."""
    arg = call.args[0]
    ncov = {'self._n_covariates': N_COV, 'n_cov': N_COV}
    SEL = Arr((Ax(N_SEL, ((N_SEL.name, N_SEL),)),), is_list=True)

    class L(ShapeLifter):
        sources = ()

        def ev(self, n, env, fn_, depth, owner):
            if any(n is x for x in self.sources):
                return SEL
            return super().ev(n, env, fn_, depth, owner)

        def _call(self, n, env, fn_, depth, owner):
            f = U(n.func)
            if f.endswith('_covariate_model.n_covariates'):
                return N_COV
            if f in ('np.repeat', 'np.tile') and len(n.args) == 2:
                v = self.ev(n.args[0], env, fn_, depth, owner)
                k = self.as_int(self.ev(n.args[1], env, fn_, depth, owner))
                if isinstance(v, Arr) and v.ndim == 1 and k is not None:
                    rep = ((str(k), k),)
                    nest = v.axes[0].nest + rep if f == 'np.repeat' \
                        else rep + v.axes[0].nest
                    return Arr((Ax(v.axes[0].size * k, nest),), is_list=True)
            return super()._call(n, env, fn_, depth, owner)

    def nest_of(val):
        if isinstance(val, Arr) and val.ndim == 1:
            return val.axes[0].nest
        return None

    def sources_of(expr):
        out = []
        for n in ast.walk(expr):
            if isinstance(n, ast.comprehension) and not (
                    isinstance(n.iter, ast.Call)
                    and U(n.iter.func) == 'range'):
                out.append(n.iter)
            if isinstance(n, ast.Call) and U(n.func) in (
                    'np.repeat', 'np.tile') and n.args:
                out.append(n.args[0])
        return out
    lf = L(repo, cls)
    if not isinstance(arg, ast.Name):
        lf.sources = sources_of(arg)
        return nest_of(lf.ev(arg, dict(ncov), fn, 0, cls))
    x = arg.id
    # last construction of x before the call
    best = None
    for st in ast.walk(fn):
        if st.__class__ is ast.For and st.lineno < call.lineno and any(
                isinstance(a, ast.AugAssign) and U(a.target) == x
                for a in st.body):
            if best is None or st.lineno > best.lineno:
                best = st
        if isinstance(st, ast.Assign) and st.lineno < call.lineno and any(
                U(t) == x for t in st.targets) and not (
                isinstance(st.value, ast.List) and not st.value.elts):
            if best is None or st.lineno > best.lineno:
                best = st
    if best is None:
        return None
    # locals defined before the construction (e.g. `n_cov = <getter>()`)
    pre = dict(ncov)
    for st in fn.body:
        if st.lineno >= best.lineno:
            break
        if isinstance(st, ast.Assign) and len(st.targets) == 1 and \
                isinstance(st.targets[0], ast.Name):
            try:
                v_ = lf.ev(st.value, pre, fn, 0, cls)
                if isinstance(v_, sp.Expr):
                    pre[st.targets[0].id] = v_
            except Exception:
                pass
    ncov = pre
    if isinstance(best, ast.For):
        lf.sources = [best.iter]
        env = dict(ncov)
        env[x] = Arr((Ax(0, ()),), is_list=True)
        lf.for_loop(best, env, fn, 0, cls)
        return nest_of(env.get(x))
    lf.sources = sources_of(best.value)
    return nest_of(lf.ev(best.value, dict(ncov), fn, 0, cls))


def r07_1(ctx, repo):
    rule = 'R07.1'
    want = ((N_SEL.name, N_SEL), (N_COV.name, N_COV))
    classes = [k for k in repo.subclasses('CovariateModel', strict=True)
               if repo.has_method(k, 'compute_population_parameters')
               and repo.has_method(k, 'compute_sensitivities')]
    if not classes:
        raise AnalysisError('no concrete covariate model found')
    for cls in classes:
        layouts = {}
        # (1) forward transform
        fn = repo.method(cls, 'compute_population_parameters')
        construct = '%s.compute_population_parameters' % cls
        lf = ShapeLifter(repo, cls)
        val = lf.run(fn, _cov_env())
        bad = _emit_events(ctx, rule, repo, cls, fn, lf, construct)
        where = repo.loc(fn, cls, fn.name)
        if '?beta' in lf.defined:
            layouts['forward transform'] = (lf.defined['?beta'], fn)
        if isinstance(val, Arr) and val.ndim == 3 and all(
                eq(a.size, s) for a, s in zip(val.axes,
                                              (N_IDS, N_POP, N_DIM))):
            ctx.ok(rule, where, construct,
                   'vartheta has shape (n_ids, n_pop, n_dim)', engine=ENG)
        elif not bad:
            ctx.error(rule, '%s: result shape not derived (%r)' % (
                construct, val))
        # (1b) the documented matrix layout (n_selected, n_cov) of the
        # coefficients goes through the same transform
        for m2 in ('compute_population_parameters', 'compute_sensitivities'):
            fn2 = repo.method(cls, m2)
            env2 = _cov_env()
            env2['parameters'] = Arr([Ax(N_SEL), Ax(N_COV)])
            lf2 = ShapeLifter(repo, cls)
            site = '%s.%s[matrix layout]' % (cls, m2)
            try:
                v2 = lf2.run(fn2, env2)
            except Exception as e:
                ctx.error(rule, '%s: %s' % (site, e))
                continue
            if not _emit_events(ctx, rule, repo, cls, fn2, lf2, site):
                ctx.ok(rule, repo.loc(fn2, cls, m2), site,
                       'coefficients given as (n_selected, n_cov) are '
                       'applied like the flat vector', engine=ENG)
        # (2) adjoint
        fn = repo.method(cls, 'compute_sensitivities')
        construct = '%s.compute_sensitivities' % cls
        lf = ShapeLifter(repo, cls)
        val = lf.run(fn, _cov_env())
        bad = _emit_events(ctx, rule, repo, cls, fn, lf, construct)
        where = repo.loc(fn, cls, fn.name)
        if isinstance(val, (tuple, Tup)) and len(val) == 2 and all(
                isinstance(v, Arr) and v.ndim == 1 for v in val):
            dpop, dpar = val
            layouts['gradient w.r.t. the coefficients'] = (
                dpar.axes[0].nest, fn)
            if nest_eq(dpop.axes[0].nest,
                       ((N_POP.name, N_POP), (N_DIM.name, N_DIM))):
                ctx.ok(rule, where, construct,
                       'dpop is flattened as (n_pop > n_dim)', engine=ENG)
            else:
                ctx.violation(
                    rule, where, construct, 'dpop layout',
                    'the gradient w.r.t. the population parameters is '
                    'flattened as (%s); the parameters are laid out '
                    '(n_pop > n_dim)' % nest_str(dpop.axes[0].nest),
                    engine=ENG)
        elif not bad:
            ctx.error(rule, '%s: result not derived (%r)' % (construct, val))
        # (3) default names
        k, fn = repo.resolve(cls, 'set_parameter_names')
        if fn is not None:
            construct = '%s.set_parameter_names' % k
            lf = ShapeLifter(repo, cls, flags={'names is None': True})
            env = _cov_env()
            env['names'] = None
            try:
                lf._block(fn.body, env, fn, 0, cls)
            except Exception:
                pass
            names = None
            for key in ('self._parameter_names', 'names'):
                if isinstance(env.get(key), Arr) and env[key].ndim == 1 \
                        and not eq(env[key].total(), 0):
                    names = env[key]
                    break
            # names built in a loop the generic walker summarises
            if names is None:
                for st in ast.walk(fn):
                    if isinstance(st, ast.For):
                        e2 = dict(_cov_env())
                        e2['names'] = Arr((Ax(0, ()),), is_list=True)
                        lf2 = ShapeLifter(repo, cls)
                        lf2.for_loop(st, e2, fn, 0, cls)
                        if isinstance(e2.get('names'), Arr):
                            names = e2['names']
            if names is not None:
                layouts['default names'] = (names.axes[0].nest, fn)
        # compare
        for what, (nest, f) in layouts.items():
            construct = '%s.%s (%s)' % (cls, f.name, what)
            where = repo.loc(f, cls, f.name)
            if nest_eq(nest, want):
                ctx.ok(rule, where, construct,
                       'coefficients laid out (n_selected > n_cov)',
                       engine=ENG)
            else:
                ctx.violation(
                    rule, where, construct, 'layout ' + what,
                    'the %s uses the layout (%s) for the flat coefficient '
                    'vector, but the published order (names, n_parameters) '
                    'is (n_selected > n_cov): coefficient k is applied to / '
                    'reported for the wrong (parameter, covariate) pair '
                    'whenever both counts exceed one' % (
                        what, nest_str(nest)), engine=ENG)
        if len(layouts) < 3:
            ctx.error(rule, '%s: only %d of 3 layout sites derived (%s)' % (
                cls, len(layouts), ', '.join(layouts)))
    # (4) names the covariate population model hands to the covariate model:
    # the list passed to set_parameter_names is laid out (selected > n_cov)
    cls = 'CovariatePopulationModel'
    for m in ('__init__', 'set_dim_names', 'set_population_parameters'):
        fn = repo.method(cls, m)
        construct = '%s.%s' % (cls, m)
        for call in ast.walk(fn):
            if not (isinstance(call, ast.Call) and U(call.func).endswith(
                    '_covariate_model.set_parameter_names') and call.args):
                continue
            nest = _names_nest(repo, cls, fn, call)
            where = repo.loc(call, cls, m)
            if nest is None:
                ctx.error(rule, '%s: construction of the names handed to '
                          'the covariate model (`%s`) not recognised' % (
                              construct, U(call.args[0])[:40]))
            elif nest_eq(nest, want):
                ctx.ok(rule, where, construct,
                       'names repeat each selected parameter n_cov times '
                       '(selected > covariate)', engine=ENG)
            else:
                ctx.violation(
                    rule, where, construct, 'names nesting',
                    'the covariate parameter names handed to the covariate '
                    'model are laid out (%s); the coefficient vector is '
                    '(n_selected > n_cov): names label the wrong '
                    'coefficients' % nest_str(nest), engine=ENG)
    ctx.floor(rule, 10)


def _names_selection_axes(ctx, rule, repo, cls):
    """`names.reshape(a, b)[i, j]`: the published names of the wrapped model
    are laid out (parameter-per-dimension > dimension); the reshape must
    split them that way and the parameter index must address the parameter
    axis, the dimension index the dimension axis."""
    NPD = sym('n_param_per_dim')

    class Idx:
        def __init__(self, role):
            self.role = role

    class L(ShapeLifter):
        def _call(self, n, env, fn, depth, owner):
            f = U(n.func)
            if f.endswith('_population_model.get_parameter_names'):
                return Arr([Ax(NPD * N_DIM, ((NPD.name, NPD),
                                             (N_DIM.name, N_DIM)))],
                           is_list=True)
            if f.endswith('get_set_population_parameters'):
                return Tup([Idx('parameter'), Idx('dimension')])
            return super()._call(n, env, fn, depth, owner)

        def subscript(self, n, env, fn, depth, owner):
            if isinstance(n.slice, ast.Tuple) and len(n.slice.elts) == 2:
                idx = [self.ev(e, env, fn, depth, owner)
                       for e in n.slice.elts]
                if all(isinstance(i, Idx) for i in idx):
                    v = self.ev(n.value, env, fn, depth, owner)
                    self.sites.append((n, v, idx))
                    return TOP
            return super().subscript(n, env, fn, depth, owner)
    for m in ('set_dim_names', 'set_population_parameters'):
        fn = repo.method(cls, m)
        construct = '%s.%s' % (cls, m)
        lf = L(repo, cls)
        lf.sites = []
        env = {'self._n_pop': NPD * N_DIM, 'self._n_dim': N_DIM,
               'self._n_covariates': N_COV}
        try:
            lf._block(fn.body, env, fn, 0, cls)
        except Exception as e:
            ctx.error(rule, '%s: %s' % (construct, e))
            continue
        if _emit_events(ctx, rule, repo, cls, fn, lf, construct):
            continue
        for node, v, idx in lf.sites:
            where = repo.loc(node, cls, m)
            if not (isinstance(v, Arr) and v.ndim == 2):
                ctx.error(rule, '%s: layout of the name table `%s` not '
                          'derived' % (construct, U(node.value)[:40]))
                continue
            want = {'parameter': NPD, 'dimension': N_DIM}
            bad = [(k, i.role) for k, i in enumerate(idx)
                   if not eq(v.axes[k].size, want[i.role])]
            if bad:
                k, role = bad[0]
                ctx.violation(
                    rule, where, construct, 'index axes',
                    '`%s` addresses axis %d (size %s) of the name table '
                    'with the %s indices; the names are laid out '
                    '(parameter > dimension), so the selected names label '
                    'other entries than the covariate model modifies' % (
                        U(node)[:60], k, v.axes[k].size, role),
                    engine=ENG)
            else:
                ctx.ok(rule, where, construct,
                       'name table (parameter, dimension) is addressed '
                       'with (parameter indices, dimension indices)',
                       engine=ENG)


def r07_3(ctx, repo):
    """Index provenance: names handed to the covariate model are selected
    with the covariate model's own normalised selection."""
    rule = 'R07.3'
    cls = 'CovariatePopulationModel'
    c = repo.cls(cls)
    _names_selection_axes(ctx, rule, repo, cls)
    n = 0
    for m, fn in sorted(c.methods.items()):
        calls = [x for x in ast.walk(fn) if isinstance(x, ast.Call)
                 and U(x.func) == 'self._covariate_model.set_parameter_names'
                 and x.args]
        if not calls:
            continue
        params = {a.arg for a in fn.args.args}
        construct = '%s.%s' % (cls, m)
        # fancy index expressions applied to the name array
        subs = [s for s in ast.walk(fn) if isinstance(s, ast.Subscript)
                and isinstance(s.slice, ast.Tuple)
                and len(s.slice.elts) == 2
                and not any(isinstance(e, ast.Slice) for e in s.slice.elts)
                and isinstance(s.ctx, ast.Load)
                and 'names' in U(s.value)]
        if not subs:
            if any(U(a) == 'None' for cl in calls for a in cl.args):
                continue
            n += 1
            ctx.ok(rule, repo.loc(fn, cls, m), construct,
                   'all names are handed over in flatten order (no '
                   'selection)')
            continue
        for s in subs:
            n += 1
            idx_names = {x.id for e in s.slice.elts for x in ast.walk(e)
                         if isinstance(x, ast.Name)}
            # where do the index names come from?
            from_getter = False
            raw = idx_names & params
            for a in ast.walk(fn):
                if isinstance(a, ast.Assign) and isinstance(
                        a.value, ast.Call) and U(a.value.func).endswith(
                        '_covariate_model.get_set_population_parameters'):
                    tg = {x.id for t in a.targets for x in ast.walk(t)
                          if isinstance(x, ast.Name)}
                    if idx_names and idx_names <= tg:
                        from_getter = True
            # locals derived from a parameter (np.array(indices))
            for a in ast.walk(fn):
                if isinstance(a, ast.Assign) and isinstance(
                        a.targets[0], ast.Name) and a.targets[0].id in \
                        idx_names:
                    src = {x.id for x in ast.walk(a.value)
                           if isinstance(x, ast.Name)}
                    if src & params:
                        raw |= {a.targets[0].id}
            where = repo.loc(s, cls, m)
            if from_getter:
                ctx.ok(rule, where, construct,
                       'names are selected with the covariate model\'s own '
                       '(sorted, de-duplicated) selection')
            elif raw:
                ctx.violation(
                    rule, where, construct, 'raw indices',
                    'the names handed to the covariate model are selected '
                    'with the caller\'s raw `%s` (`%s`), while the covariate '
                    'model sorts and de-duplicates its selection: for '
                    'unsorted or repeated pairs the names label the wrong '
                    'coefficients or have the wrong length' % (
                        ', '.join(sorted(raw)), U(s)[:60]))
            else:
                ctx.error(rule, '%s: provenance of the selection `%s` not '
                          'recognised' % (construct, U(s)[:50]))
    if n < 3:
        ctx.error(rule, 'only %d name hand-overs found (floor 3)' % n)


def r07_4(ctx, repo):
    """Membership tests on values that may be ndarray rows."""
    rule = 'R07.4'
    from ..types import Types
    T = Types(repo)
    n = 0
    for cls in repo.subclasses('CovariateModel'):
        for m, fn in repo.cls(cls).methods.items():
            params = [a.arg for a in fn.args.args][1:]
            for loop in ast.walk(fn):
                if not (isinstance(loop, ast.For) and isinstance(
                        loop.target, ast.Name) and isinstance(
                        loop.iter, ast.Name) and loop.iter.id in params):
                    continue
                x = loop.target.id
                tests = [c for c in ast.walk(loop) if isinstance(
                    c, ast.Compare) and isinstance(c.ops[0], (ast.In,
                                                              ast.NotIn))
                    and isinstance(c.left, ast.Name)]
                # only tests on the row itself or on a value built from it
                def from_row(name, depth=0):
                    if name == x:
                        return True
                    if depth > 2:
                        return False
                    for a in ast.walk(loop):
                        if isinstance(a, ast.Assign) and isinstance(
                                a.targets[0], ast.Name) and \
                                a.targets[0].id == name and any(
                                    isinstance(y, ast.Name) and from_row(
                                        y.id, depth + 1) and y.id != name
                                    for y in ast.walk(a.value)):
                            return True
                    return False
                tests = [c for c in tests if from_row(c.left.id)]
                if not tests:
                    continue
                tested = tests[0].left.id
                # the tested value is a fresh python list / tuple of scalars
                # (built before the test), not the raw row
                rebound = any(isinstance(a, ast.Assign) and isinstance(
                    a.targets[0], ast.Name) and a.targets[0].id == tested
                    and a.lineno < tests[0].lineno
                    and isinstance(a.value, (ast.List, ast.Tuple))
                    for a in ast.walk(loop))
                pidx = params.index(loop.iter.id)
                array_callers = []
                for rel, c2, f2 in repo.all_functions():
                    for call in ast.walk(f2):
                        if isinstance(call, ast.Call) and isinstance(
                                call.func, ast.Attribute) and \
                                call.func.attr == m and call.args:
                            t = T.type_of(call.func.value, c2, f2)
                            if not t or t[0] == 'list' or cls not in \
                                    T.candidates(t):
                                continue
                            if pidx < len(call.args) and isinstance(
                                    call.args[pidx], ast.Name):
                                an = call.args[pidx].id
                                for a in ast.walk(f2):
                                    if isinstance(a, ast.Assign) and any(
                                            isinstance(t2, ast.Name)
                                            and t2.id == an
                                            for t2 in a.targets) and \
                                            isinstance(a.value, ast.Call) \
                                            and U(a.value.func) in (
                                                'np.array', 'np.asarray'):
                                        array_callers.append(
                                            '%s.%s' % (c2, f2.name))
                n += 1
                construct = '%s.%s' % (cls, m)
                where = repo.loc(tests[0], cls, m)
                if array_callers and not rebound:
                    ctx.violation(
                        rule, where, construct, 'ndarray membership',
                        '`%s` tests membership of `%s`, a row of `%s`; %s '
                        'passes a numpy array, whose rows compare '
                        'element-wise, so the test raises "truth value of an '
                        'array is ambiguous" as soon as the list holds one '
                        'pair (any selection of two or more pairs)' % (
                            U(tests[0]), x, loop.iter.id,
                            ', '.join(sorted(set(array_callers)))))
                else:
                    ctx.ok(rule, where, construct,
                           'membership test on plain python values')
    if n < 1:
        # a hazard rule: without a membership test on rows there is nothing
        # that can raise (its firing is shown by the self-test mutant)
        ctx.ok(rule, 'chi/_covariate_models.py', 'CovariateModel',
               'no membership test on rows of an array argument')


# -----------------------------------------------------------------------------
# R05.3 / R17.1 — elementary population models
# -----------------------------------------------------------------------------
R_OBS = sym('n_obs_ids')       # rows of `observations` / eta


def _class_invariants(repo, cls):
    """self._n_parameters etc. as symbolic expressions, from __init__ (and
    set_n_ids) of the class."""
    env = {'self._n_dim': N_DIM, 'self._n_ids': N_IDS,
           'n_dim': N_DIM, 'dim_names': None, 'centered': True,
           'n_ids': N_IDS}
    lf = ShapeLifter(repo, cls, flags={'no_shortcut': True,
                                       'dim_names': False})
    for m in ('__init__', 'set_n_ids'):
        k, fn = repo.resolve(cls, m)
        if fn is None or k == 'PopulationModel':
            continue
        e2 = dict(env)
        e2['no_shortcut'] = True
        try:
            lf._block(fn.body, e2, fn, 0, cls)
        except Exception:
            pass
        for key, v in e2.items():
            if key.startswith('self.') and key not in ('self._n_dim',
                                                       'self._n_ids'):
                env.setdefault(key, v)
            elif key.startswith('self.'):
                pass
        # later definitions win for fields assigned in both
        for key in ('self._n_parameters', 'self._parameter_names'):
            if key in e2 and not isinstance(e2[key], Opaque):
                env[key] = e2[key]
    return env


def _elementary(repo):
    out = []
    for k in repo.subclasses('PopulationModel', strict=True):
        fn = repo.cls(k).methods.get('compute_sensitivities')
        if fn is None:
            continue
        if any(isinstance(n, ast.Call) and U(n.func) == 'self._shape'
               for n in ast.walk(fn)):
            out.append(k)
    return out


def r05_3(ctx, repo):
    rule = 'R05.3'
    classes = _elementary(repo)
    if len(classes) < 5:
        ctx.error(rule, 'only %d elementary population models with a '
                  '_shape-terminated compute_sensitivities (floor 5)'
                  % len(classes))
    for cls in classes:
        inv = _class_invariants(repo, cls)
        P = inv.get('self._n_parameters')
        if not isinstance(P, sp.Expr):
            ctx.error(rule, '%s: n_parameters not derived from __init__'
                      % cls)
            continue
        fn = repo.method(cls, 'compute_sensitivities')
        init = repo.method(cls, '__init__')
        cent = 'centered' in [a.arg for a in init.args.args]
        seen = set()
        for centered in ([True, False] if cent else [True]):
            for upstream in (False, True):
                env = dict(inv)
                env.update({
                    'parameters': Arr([Ax(P, (('?theta', P),))]),
                    'observations': Arr([Ax(R_OBS), Ax(N_DIM)]),
                    'dlogp_dpsi': Arr([Ax(R_OBS), Ax(N_DIM)])
                    if upstream else None,
                    'reduce': Opaque('flag'), 'flattened': Opaque('flag'),
                    'self._centered': centered,
                })
                lf = ShapeLifter(repo, cls, flags={
                    'self._centered': centered,
                    'dlogp_dpsi is None': not upstream})
                lf.terminal = '_shape'
                lf.explore_guards = True
                try:
                    lf.run(fn, env)
                except Exception as e:
                    ctx.error(rule, '%s.compute_sensitivities: %s: %s' % (
                        cls, type(e).__name__, e))
                    continue
                construct = '%s.compute_sensitivities' % cls
                for ev in lf.events:
                    key = '%s %s' % (ev.kind, ' '.join(ev.msg.split())[:70])
                    if (cls, key) in seen:
                        continue
                    seen.add((cls, key))
                    ctx.violation(rule, repo.loc(ev.node, cls, fn.name),
                                  construct, key, ev.msg, engine=ENG)
                for node, vals in lf.terminals:
                    if (cls, node.lineno, centered) in seen:
                        continue
                    seen.add((cls, node.lineno, centered))
                    where = repo.loc(node, cls, fn.name)
                    site = '%s [%s]' % (construct, 'centred' if centered
                                        else 'non-centred')
                    if len(vals) < 3 or not isinstance(vals[1], Arr) \
                            or not isinstance(vals[2], Arr):
                        ctx.error(rule, '%s line %d: dpsi/dtheta shapes not '
                                  'derived (%r, %r)' % (
                                      site, node.lineno, vals[1:2],
                                      vals[2:3]))
                        continue
                    dpsi, dth = vals[1], vals[2]
                    ok = dpsi.ndim == 2 and eq(dpsi.axes[0].size, R_OBS) \
                        and eq(dpsi.axes[1].size, N_DIM)
                    if ok:
                        ctx.ok(rule, where, site, 'dpsi has shape '
                               '(n_ids, n_dim)', engine=ENG)
                    else:
                        ctx.violation(
                            rule, where, site, 'dpsi shape',
                            'dpsi handed to _shape has shape %s, expected '
                            '(n_ids, n_dim)' % (tuple(
                                str(a.size) for a in dpsi.axes),),
                            engine=ENG)
                    if dth.ndim != 3:
                        ctx.violation(
                            rule, where, site, 'dtheta rank',
                            'dtheta handed to _shape has %d axes, expected '
                            '(n_ids, n_param_per_dim, n_dim)' % dth.ndim,
                            engine=ENG)
                        continue
                    pp = sp.expand(dth.axes[1].size * dth.axes[2].size)
                    if eq(pp, P) and eq(dth.axes[2].size, N_DIM) and eq(
                            dth.axes[0].size, R_OBS):
                        ctx.ok(rule, where, site,
                               'dtheta has shape (n_ids, %s, n_dim) and '
                               '%s * n_dim = n_parameters' % (
                                   dth.axes[1].size, dth.axes[1].size),
                               engine=ENG)
                    else:
                        w = sp.expand(pp - P)
                        wit = {N_DIM: 2, N_IDS: 3, R_OBS: 3}
                        ctx.violation(
                            rule, where, site, 'dtheta shape',
                            'dtheta handed to _shape has shape (%s): its '
                            'flattened length per individual is %s but the '
                            'model has n_parameters = %s (they differ by %s, '
                            'e.g. %s vs %s for n_dim = 2): the gradient '
                            'w.r.t. the population parameters has the wrong '
                            'length' % (
                                ', '.join(str(a.size) for a in dth.axes),
                                pp, P, w, pp.subs(wit), P.subs(wit)),
                            engine=ENG)
        # parameter layout: reshape of the flat vector vs. default names
        names = inv.get('self._parameter_names')
        sites = {}
        if isinstance(names, Arr) and names.ndim == 1:
            sites['default names (__init__)'] = (names.axes[0].nest, init)
        k, sfn = repo.resolve(cls, 'set_parameter_names')
        if sfn is not None:
            e2 = dict(inv)
            e2['names'] = None
            lf = ShapeLifter(repo, cls, flags={'names is None': True})
            try:
                lf.run(sfn, e2)
                # the walker stores attribute assignments in its own env copy
                e3 = dict(inv)
                e3['names'] = None
                lf._block(sfn.body, e3, sfn, 0, cls)
                v = e3.get('self._parameter_names')
                if isinstance(v, Arr) and v.ndim == 1 and v is not names:
                    sites['reset names (set_parameter_names(None))'] = (
                        v.axes[0].nest, sfn)
            except Exception:
                pass
        for m in ('compute_sensitivities', 'compute_log_likelihood',
                  'sample', 'compute_individual_parameters'):
            k, mfn = repo.resolve(cls, m)
            if mfn is None or k == 'PopulationModel':
                continue
            env = dict(inv)
            env.update({
                'parameters': Arr([Ax(P, (('?theta', P),))]),
                'observations': Arr([Ax(R_OBS), Ax(N_DIM)]),
                'eta': Arr([Ax(R_OBS), Ax(N_DIM)]),
                'dlogp_dpsi': None, 'n_samples': sym('n_samples'),
                'seed': Opaque('seed'), 'return_eta': False,
                'reduce': Opaque('flag'), 'flattened': Opaque('flag')})
            lf = ShapeLifter(repo, cls, flags={
                'self._centered': False, 'dlogp_dpsi is None': True,
                'return_eta': False, 'n_samples is None': False})
            lf.terminal = '_shape'
            try:
                lf.run(mfn, env)
            except Exception:
                continue
            if '?theta' in lf.defined:
                sites['reshape of the flat vector in %s' % m] = (
                    lf.defined['?theta'], mfn)
        # moment helper: (n_param_per_dim, n_dim)
        k, gfn = repo.resolve(cls, 'get_mean_and_std')
        if gfn is not None:
            env = dict(inv)
            env['parameters'] = Arr([Ax(P, (('?theta', P),))])
            lf = ShapeLifter(repo, cls)
            try:
                val = lf.run(gfn, env)
            except Exception:
                val = None
            if isinstance(val, Arr) and val.ndim == 2:
                tot = sp.expand(val.axes[0].size * val.axes[1].size)
                where = repo.loc(gfn, cls, gfn.name)
                if eq(tot, P):
                    ctx.ok(rule, where, '%s.get_mean_and_std' % cls,
                           'output has shape (%s, %s): one row per '
                           'parameter kind' % (val.axes[0].size,
                                               val.axes[1].size),
                           engine=ENG)
                else:
                    ctx.violation(
                        rule, where, '%s.get_mean_and_std' % cls,
                        'moments shape',
                        'the returned array has shape (%s, %s) = %s entries '
                        'but the model has n_parameters = %s (mean and std '
                        'per dimension): rows beyond the second are '
                        'uninitialised for n_dim >= 2' % (
                            val.axes[0].size, val.axes[1].size, tot, P),
                        engine=ENG)
        ref = None
        for what, (nest, f) in sites.items():
            if ref is None:
                ref = (what, nest)
                continue
            where = repo.loc(f, cls, f.name)
            if nest_eq(nest, ref[1]):
                ctx.ok(rule, where, '%s layout' % cls,
                       '%s uses the layout (%s) of the %s' % (
                           what, nest_str(nest), ref[0]), engine=ENG)
            else:
                ctx.violation(
                    rule, where, '%s layout' % cls, 'layout ' + what,
                    'the %s lays the flat parameter vector out as (%s) but '
                    'the %s as (%s): name k does not describe entry k' % (
                        what, nest_str(nest), ref[0], nest_str(ref[1])),
                    engine=ENG)
        # (names as a list value)
        if isinstance(names, Arr) and names.ndim == 1:
            if eq(names.axes[0].size, P):
                ctx.ok(rule, repo.loc(init, cls, '__init__'),
                       '%s names' % cls,
                       'default names list has n_parameters = %s entries, '
                       'laid out (%s)' % (P, nest_str(names.axes[0].nest)),
                       engine=ENG)
            else:
                ctx.violation(
                    rule, repo.loc(init, cls, '__init__'), '%s names' % cls,
                    'names length',
                    'default parameter names have %s entries but '
                    'n_parameters = %s' % (names.axes[0].size, P),
                    engine=ENG)
    ctx.floor(rule, 20)


# -----------------------------------------------------------------------------
# R02.4 — layout of the hierarchical parameter vector [BOTTOM | TOP]
# -----------------------------------------------------------------------------
N_HDIM = sym('n_hdim')
N_TOP = sym('n_top')


def _hier_env():
    return {
        'self._n_ids': N_IDS, 'self._n_dim': N_DIM,
        'self._n_bottom': N_IDS * N_DIM,
        'self._n_parameters': N_IDS * N_DIM + N_TOP,
        'self._log_likelihoods': Arr([Ax(N_IDS)], is_list=True),
        'unique': False, 'exclude_bottom_level': False, 'include_ids': False,
    }


class _HierLifter(ShapeLifter):
    """Knows the few getters the hierarchical likelihood calls on its
    sub-objects (configuration: no special dimensions, n_hdim = n_dim)."""

    def _call(self, n, env, fn, depth, owner):
        f = U(n.func)
        if f.startswith('self._log_likelihood.') and isinstance(
                n.func, ast.Attribute) and depth < 3:
            # the posterior's likelihood object: its method is substituted
            # (the environment holds the likelihood's fields)
            d = self.repo.cls('HierarchicalLogLikelihood').methods.get(
                n.func.attr)
            if d is not None:
                try:
                    return self._inline(d, n, env, fn, depth,
                                        'HierarchicalLogLikelihood')
                except Unsupported:
                    return TOP
        if f.endswith('_population_model.n_parameters'):
            return N_TOP
        if f.endswith('_population_model.get_parameter_names'):
            return Arr([Ax(N_TOP)], is_list=True)
        if f.endswith('.get_parameter_names') and 'log_likelihood' in f:
            return Arr([Ax(N_DIM)], is_list=True)
        if f.endswith('_population_model.get_special_dims'):
            return Tup([Arr([Ax(0, ())], is_list=True), sp.Integer(0),
                        sp.Integer(0)])
        if f.endswith('.get_id') and 'log_likelihood' in f:
            return Opaque('id')
        return super()._call(n, env, fn, depth, owner)


def _bottom_top(ctx, rule, repo, cls, fn, val, what, top_size):
    construct = '%s.%s' % (cls, fn.name)
    where = repo.loc(fn, cls, fn.name)
    if not (isinstance(val, Arr) and val.ndim == 1 and val.parts
            and len(val.parts) == 2):
        ctx.error(rule, '%s: %s not derived as [bottom | top] (%r)' % (
            construct, what, val))
        return
    bottom, top = val.parts
    want = ((N_IDS.name, N_IDS), (N_DIM.name, N_DIM))
    if nest_eq(bottom.axes[0].nest, want):
        ctx.ok(rule, where, construct,
               '%s: bottom block laid out (n_ids > n_dim), i.e. one block '
               'per individual' % what, engine=ENG)
    else:
        ctx.violation(
            rule, where, construct, 'bottom layout',
            '%s lays the individual-level block out as (%s); the parameter '
            'vector is parsed per individual, (n_ids > n_dim): entry k is '
            'labelled with the wrong individual / parameter' % (
                what, nest_str(bottom.axes[0].nest)), engine=ENG)
    if eq(top.axes[0].size, top_size):
        ctx.ok(rule, where, construct,
               '%s: population block has n_top entries and comes last'
               % what, engine=ENG)
    else:
        ctx.violation(
            rule, where, construct, 'top length',
            '%s has %s population-level entries, expected %s' % (
                what, top.axes[0].size, top_size), engine=ENG)


def r02_4(ctx, repo):
    rule = 'R02.4'
    cls = 'HierarchicalLogLikelihood'
    for m, what in (('get_id', 'published IDs'),
                    ('get_parameter_names', 'published names')):
        fn = repo.method(cls, m)
        lf = _HierLifter(repo, cls, flags={
            'unique': False, 'exclude_bottom_level': False,
            'include_ids': False})
        try:
            val = lf.run(fn, _hier_env())
        except Exception as e:
            ctx.error(rule, '%s.%s: %s' % (cls, m, e))
            continue
        _bottom_top(ctx, rule, repo, cls, fn, val, what, N_TOP)
    # names under every combination of the flags: no positional pairing of
    # sequences that are laid out differently
    fn = repo.method(cls, 'get_parameter_names')
    for fl in [dict(exclude_bottom_level=a, include_ids=b)
               for a in (False, True) for b in (False, True)]:
        lf = _HierLifter(repo, cls, flags=dict(fl))
        env = _hier_env()
        env.update(fl)
        site = '%s.get_parameter_names[%s]' % (cls, ', '.join(
            '%s=%s' % kv for kv in sorted(fl.items())))
        try:
            lf.run(fn, env)
        except Exception as e:
            ctx.error(rule, '%s: %s' % (site, e))
            continue
        lf.events = [e for e in lf.events if e.kind == 'layout']
        if not _emit_events(ctx, rule, repo, cls, fn, lf, site):
            ctx.ok(rule, repo.loc(fn, cls, fn.name), site,
                   'IDs and names are paired entry by entry over the same '
                   'layout', engine=ENG)
    # the unique IDs are the individuals in the order of their blocks
    fn = repo.method(cls, 'get_id')
    lf = _HierLifter(repo, cls, flags={'unique': True})
    env = _hier_env()
    env['unique'] = True
    try:
        val = lf.run(fn, env)
    except Exception as e:
        val = None
        ctx.error(rule, '%s.get_id[unique]: %s' % (cls, e))
    if val is not None:
        where = repo.loc(fn, cls, 'get_id')
        construct = '%s.get_id' % cls
        if isinstance(val, Arr) and val.ndim == 1 and nest_eq(
                val.axes[0].nest, ((N_IDS.name, N_IDS),)):
            ctx.ok(rule, where, construct,
                   'the unique IDs are listed in the order of the '
                   'individuals\' parameter blocks', engine=ENG)
        elif isinstance(val, Arr) and val.ndim == 1:
            ctx.violation(
                rule, where, construct, 'unique ids order',
                'get_id(unique=True) returns %s: the i-th ID no longer '
                'names the individual whose parameters form block i (the '
                'inference controllers label per-individual samples with '
                'this list)' % nest_str(val.axes[0].nest), engine=ENG)
        else:
            ctx.error(rule, '%s[unique]: order of the IDs not derived (%r)'
                      % (construct, val))
    # the posterior publishes the likelihood's names / IDs under every
    # combination of its flags without re-pairing them
    pcls = 'HierarchicalLogPosterior'
    for m, flagsets in (('get_parameter_names',
                         [dict(exclude_bottom_level=a, include_ids=b)
                          for a in (False, True) for b in (False, True)]),
                        ('get_id', [dict(unique=False)])):
        fn = repo.cls(pcls).methods.get(m)
        if fn is None:
            continue
        for fl in flagsets:
            lf = _HierLifter(repo, pcls, flags=dict(fl))
            env = _hier_env()
            env.update(fl)
            construct = '%s.%s' % (pcls, m)
            try:
                val = lf.run(fn, env)
            except Exception as e:
                ctx.error(rule, '%s: %s' % (construct, e))
                continue
            lf.events = [e for e in lf.events if e.kind == 'layout']
            if _emit_events(ctx, rule, repo, pcls, fn, lf, construct):
                continue
            ctx.ok(rule, repo.loc(fn, pcls, m), construct,
                   'no positional re-pairing of names and IDs under %s' % (
                       ', '.join('%s=%s' % kv for kv in sorted(fl.items()))),
                   engine=ENG)
    # cut point and roles in __call__ / evaluateS1
    for m in ('__call__', 'evaluateS1'):
        fn = repo.method(cls, m)
        construct = '%s.%s' % (cls, m)
        roles = {}

        def role_of(e):
            """('BOTTOM'|'TOP', cut) of an expression: a one-sided slice of
            the flat vector, a name bound to one, or the individual block
            returned by the population transform."""
            if isinstance(e, ast.Name):
                return roles.get(e.id)
            if isinstance(e, ast.Subscript) and U(e.value) == 'parameters' \
                    and isinstance(e.slice, ast.Slice):
                sl = e.slice
                if sl.lower is None and sl.upper is not None:
                    return ('BOTTOM', U(sl.upper), e)
                if sl.upper is None and sl.lower is not None:
                    return ('TOP', U(sl.lower), e)
            if isinstance(e, ast.Call) and U(e.func) in (
                    'np.asarray', 'np.array', 'np.copy') and e.args:
                return role_of(e.args[0])
            return None
        slices = {}
        for x in ast.walk(fn):
            r = role_of(x) if isinstance(x, ast.Subscript) else None
            if r:
                slices[U(x)] = r
        for st in ast.walk(fn):
            if isinstance(st, ast.Assign) and len(st.targets) == 1 \
                    and isinstance(st.targets[0], ast.Name):
                r = role_of(st.value)
                if r and st.targets[0].id not in roles:
                    roles[st.targets[0].id] = r
        allroles = dict(slices)
        allroles.update(roles)
        roles_view = allroles
        cuts = {c for _, c, _ in roles_view.values()}
        where = repo.loc(fn, cls, m)
        if {r for r, _, _ in roles_view.values()} != {'BOTTOM', 'TOP'} \
                or cuts != {'self._n_bottom'}:
            ctx.violation(
                rule, where, construct, 'cut',
                'the flat vector is not cut into [:n_bottom] (individual '
                'level) and [n_bottom:] (population level): %s' % {
                    k: (r, c) for k, (r, c, _) in roles_view.items()},
                engine=ENG)
            continue
        ctx.ok(rule, where, construct, 'vector cut at self._n_bottom: '
               'bottom first, population parameters last', engine=ENG)
        # role discipline at the population-model calls
        bottom = ([k for k, v in roles.items() if v[0] == 'BOTTOM']
                  or ['parameters[:self._n_bottom]'])[0]
        top = ([k for k, v in roles.items() if v[0] == 'TOP']
               or ['parameters[self._n_bottom:]'])[0]
        # names bound to the individual block returned by the transform
        for st in ast.walk(fn):
            if isinstance(st, ast.Assign) and len(st.targets) == 1 \
                    and isinstance(st.targets[0], ast.Name) and isinstance(
                    st.value, ast.Call) and U(st.value.func) == \
                    'self._population_model.compute_individual_parameters':
                roles.setdefault(st.targets[0].id, ('BOTTOM',
                                                    'self._n_bottom', st))
        roles.setdefault('psi', ('BOTTOM', 'self._n_bottom', None))
        for c in ast.walk(fn):
            if not (isinstance(c, ast.Call) and isinstance(
                    c.func, ast.Attribute) and U(c.func.value) ==
                    'self._population_model'):
                continue
            meth = c.func.attr
            if meth not in ('compute_individual_parameters',
                            'compute_log_likelihood',
                            'compute_sensitivities'):
                continue
            args = {k.arg: k.value for k in c.keywords if k.arg}
            pos = list(c.args)
            p = args.get('parameters', pos[0] if pos else None)
            second = args.get('eta', args.get('observations',
                                              pos[1] if len(pos) > 1
                                              else None))
            rp = role_of(p) if p is not None else None
            rs = role_of(second) if second is not None else None
            ok = rp is not None and rp[0] == 'TOP' and rs is not None \
                and rs[0] == 'BOTTOM'
            if ok:
                ctx.ok(rule, repo.loc(c, cls, m), construct,
                       '`%s` receives the population block as parameters '
                       'and the individual block as %s' % (
                           meth, 'eta' if 'individual' in meth
                           else 'observations'), engine=ENG)
            else:
                ctx.violation(
                    rule, repo.loc(c, cls, m), construct,
                    'roles ' + meth,
                    '`%s` is called with parameters=`%s` and eta/'
                    'observations=`%s`; expected the population block '
                    '`%s` and the individual block `%s`' % (
                        meth, U(p) if p is not None else '?',
                        U(second) if second is not None else '?',
                        top, bottom), engine=ENG)
    # flat eta reshape in every population model
    for k in repo.subclasses('PopulationModel', strict=True):
        fn = repo.cls(k).methods.get('compute_individual_parameters')
        if fn is None or repo.is_abstract(fn):
            continue
        if not any(isinstance(x, ast.Attribute) and x.attr == 'reshape'
                   for x in ast.walk(fn)) and not any(
                isinstance(x, ast.Attribute) and x.attr == '_shape_eta'
                for x in ast.walk(fn)):
            continue
        env = _class_invariants(repo, k)
        P = env.get('self._n_parameters', N_TOP)
        if not isinstance(P, sp.Expr):
            P = N_TOP
        env.update({
            'eta': Arr([Ax(N_IDS * N_DIM, (('?eta', N_IDS * N_DIM),))]),
            'parameters': Arr([Ax(P, (('?theta', P),))]),
            'return_eta': True, 'covariates': None,
            'self._n_pooled_dims': sp.Integer(0),
            'self._n_hetero_dims': sp.Integer(0),
            'self._special_dims': Arr([Ax(0, ())], is_list=True)})
        lf = ShapeLifter(repo, k, flags={'self._centered': True,
                                         'return_eta': True})
        try:
            lf.run(fn, env)
        except Exception:
            pass
        construct = '%s.compute_individual_parameters' % k
        where = repo.loc(fn, k, fn.name)
        d = lf.defined.get('?eta')
        if d is None:
            continue
        want = ((N_IDS.name, N_IDS), (N_DIM.name, N_DIM))
        if nest_eq(d, want):
            ctx.ok(rule, where, construct,
                   'flat eta is read as (n_ids > n_dim)', engine=ENG)
        else:
            ctx.violation(
                rule, where, construct, 'eta layout',
                'the flat individual-level vector is reshaped as (%s); it '
                'is published (names, IDs) per individual, (n_ids > n_dim)'
                % nest_str(d), engine=ENG)
    ctx.floor(rule, 12)


# -----------------------------------------------------------------------------
# R02.3 — eta / psi discipline (role qualifiers, engine A)
# -----------------------------------------------------------------------------
ETA_PSI_FUNCS = (
    ('HierarchicalLogLikelihood', '__call__'),
    ('HierarchicalLogLikelihood', 'evaluateS1'),
    ('PopulationFilterLogPosterior', '__call__'),
    ('PopulationFilterLogPosterior', 'evaluateS1'),
    ('PopulationPredictiveModel', 'sample'),
)


def _kwarg(call, name, pos):
    for k in call.keywords:
        if k.arg == name:
            return k.value
    if pos is not None and pos < len(call.args):
        return call.args[pos]
    return None


def _qual_of(expr, env):
    """Qualifier of an expression: follows subscripts / reshapes."""
    cur = expr
    while True:
        if isinstance(cur, ast.Name):
            return env.get(cur.id)
        if isinstance(cur, ast.Subscript):
            cur = cur.value
            continue
        if isinstance(cur, ast.Call) and isinstance(
                cur.func, ast.Attribute) and cur.func.attr in (
                'reshape', 'flatten', 'copy'):
            cur = cur.func.value
            continue
        if isinstance(cur, ast.Call) and U(cur.func) in (
                'np.asarray', 'np.array') and cur.args:
            cur = cur.args[0]
            continue
        return None


def r02_3(ctx, repo):
    rule = 'R02.3'
    for cls, m in ETA_PSI_FUNCS:
        fn = repo.method(cls, m)
        construct = '%s.%s' % (cls, m)
        env = {'parameters': 'RAW'}
        n_sites = [0]

        def need(call, arg, wanted, what):
            q = _qual_of(arg, env) if arg is not None else None
            where = repo.loc(call, cls, m)
            n_sites[0] += 1
            if q is not None and '|' in q:
                # branches disagree: every alternative must be acceptable
                alts = q.split('|')
                badq = [a for a in alts if a not in wanted]
                if not badq:
                    ctx.ok(rule, where, construct,
                           '%s receives %s-space values on every branch' % (
                               what, '/'.join(alts)))
                    return
                q = badq[0]
                what = what + ' (on the branch that skips the conversion)'
            if q in wanted:
                ctx.ok(rule, where, construct,
                       '%s receives %s-space values' % (what, q))
            elif q is None:
                ctx.error(rule, '%s: cannot qualify `%s` handed to %s' % (
                    construct, U(arg)[:40] if arg is not None else '?',
                    what))
            else:
                ctx.violation(
                    rule, where, construct, '%s gets %s' % (what, q),
                    '%s receives `%s`, which holds %s; it needs %s: %s' % (
                        what, U(arg)[:40],
                        {'ETA': 'the inter-individual fluctuations eta',
                         'RAW': 'the raw individual-level block of the '
                                'parameter vector',
                         'PSI': 'the transformed individual parameters '
                                'psi'}[q],
                        ' or '.join(wanted),
                        'the population density must score eta (standard '
                        'normal for non-centred models)' if 'ETA' in wanted
                        else 'the individual likelihoods / the mechanistic '
                        'model are evaluated at the model parameters psi, '
                        'i.e. after the population transform'))

        def visit(stmts):
            for s in stmts:
                if isinstance(s, ast.For):
                    q = _qual_of(s.iter.args[0], env) if isinstance(
                        s.iter, ast.Call) and U(s.iter.func) == 'enumerate' \
                        and s.iter.args else _qual_of(s.iter, env)
                    tg = s.target
                    names = [x.id for x in ast.walk(tg)
                             if isinstance(x, ast.Name)]
                    if q and names:
                        env[names[-1]] = q
                    visit(s.body)
                    continue
                if isinstance(s, ast.If):
                    # a branch that ends in return / raise does not join
                    def ends(b):
                        return bool(b) and isinstance(
                            b[-1], (ast.Return, ast.Raise, ast.Continue))
                    e0 = dict(env)
                    visit(s.body)
                    e1 = dict(env)
                    env.clear()
                    env.update(e0)
                    visit(s.orelse)
                    e2 = dict(env)
                    if ends(s.body):
                        new = e2
                    elif ends(s.orelse):
                        new = e1
                    else:
                        new = {}
                        for k in set(e1) | set(e2):
                            a, b = e1.get(k), e2.get(k)
                            if a == b:
                                new[k] = a
                            elif a is not None and b is not None:
                                new[k] = '|'.join(sorted(
                                    set(a.split('|')) | set(b.split('|'))))
                    env.clear()
                    env.update(new)
                    continue
                if isinstance(s, ast.While):
                    visit(s.body)
                    visit(s.orelse)
                    continue
                if isinstance(s, ast.Try):
                    visit(s.body)
                    continue
                if isinstance(s, ast.With):
                    visit(s.body)
                    continue
                calls = [c for c in ast.walk(s) if isinstance(c, ast.Call)
                         and isinstance(c.func, ast.Attribute)]
                produced = None
                for c in calls:
                    recv, meth = U(c.func.value), c.func.attr
                    if recv == 'self._population_model':
                        if meth == 'compute_individual_parameters':
                            eta = _kwarg(c, 'eta', 1)
                            need(c, eta, ('RAW', 'ETA'),
                                 'the population transform (eta argument)')
                            ret = _kwarg(c, 'return_eta', 3)
                            produced = 'ETA' if (
                                isinstance(ret, ast.Constant)
                                and ret.value is True) else 'PSI'
                        elif meth in ('compute_log_likelihood',
                                      'compute_sensitivities'):
                            obs = _kwarg(c, 'observations', 1)
                            need(c, obs, ('ETA',),
                                 'the population score `%s`' % meth)
                        elif meth == 'sample':
                            produced = 'ETA'
                    elif meth == '_reshape_bottom_parameters' and \
                            recv == 'self':
                        need(c, c.args[0] if c.args else None,
                             ('RAW',), 'the special-dimension scatter')
                        produced = 'ETA'
                    elif meth == 'evaluateS1' and 'log_likelihood' in recv \
                            and c.args:
                        need(c, c.args[0], ('PSI',),
                             'the individual log-likelihood (evaluateS1)')
                    elif meth == 'simulate' and 'mechanistic_model' in recv:
                        need(c, _kwarg(c, 'parameters', 0), ('PSI',),
                             'the mechanistic model')
                    elif meth == 'sample' and recv == \
                            'self._predictive_model':
                        need(c, _kwarg(c, 'parameters', 0), ('PSI',),
                             'the individual predictive model')
                for c in ast.walk(s):
                    if isinstance(c, ast.Call) and isinstance(
                            c.func, ast.Name) and c.func.id == \
                            'log_likelihood' and c.args:
                        need(c, c.args[0], ('PSI',),
                             'the individual log-likelihood')
                if isinstance(s, ast.Assign) and len(s.targets) == 1:
                    t = s.targets[0]
                    if isinstance(t, ast.Name):
                        if produced:
                            env[t.id] = produced
                        else:
                            q = _qual_of(s.value, env)
                            if q:
                                env[t.id] = q
                            else:
                                env.pop(t.id, None)
        visit(fn.body)
        if n_sites[0] == 0:
            ctx.error(rule, '%s: no eta/psi consumer found' % construct)
    ctx.floor(rule, 14)


# -----------------------------------------------------------------------------
# R13.1 — layout of the filter-posterior vector [TOP | BOTTOM | EPS]
# -----------------------------------------------------------------------------
N_S, N_O, N_T = sym('n_samples'), sym('n_observables'), sym('n_times')
N_POPP = sym('n_pop')
D1, D2 = sym('d1'), sym('d2')


class _FilterLifter(ShapeLifter):
    def __init__(self, repo, cls, cfg, flags=None):
        super().__init__(repo, cls, flags)
        self.cfg = cfg
        self.generic_compare = True

    def _call(self, n, env, fn, depth, owner):
        f = U(n.func)
        c = self.cfg
        if f == 'self._population_model.n_parameters':
            return c['n_pop']
        if f == 'self._population_model.n_dim':
            return c['n_dim']
        if f == 'self._population_model.n_hierarchical_dim':
            return c['n_hdim']
        if f == 'self._mechanistic_model.n_parameters':
            return c['n_dim']
        if f == 'self._mechanistic_model.parameters':
            return Arr([Ax(c['n_dim'])], is_list=True)
        if f == 'self._mechanistic_model.outputs':
            return Arr([Ax(N_O)], is_list=True)
        if f == 'copy.copy' and n.args:
            return self.ev(n.args[0], env, fn, depth, owner)
        return super()._call(n, env, fn, depth, owner)


def _filter_env(cfg, sigma_free):
    n_top = cfg['n_pop'] + (N_O if sigma_free else 0)
    n_hdim = cfg['n_hdim']
    end_bottom = n_top + N_S * n_hdim
    n_par = end_bottom + N_S * N_O * N_T
    return {
        'self._n_samples': N_S, 'self._n_observables': N_O,
        'self._n_times': N_T, 'self._n_hdim': n_hdim, 'self._n_top': n_top,
        'self._end_bottom': end_bottom, 'self._n_parameters': n_par,
        'self._n_pooled_dim': cfg['n_pooled'],
        'self._n_heterogen_dim': cfg['n_hetero'],
        'self._special_dims': cfg.get('special', Arr([Ax(0, ())],
                                                     is_list=True)),
        'self._top_names': Arr([Ax(n_top)], is_list=True),
        'self._sigma': None if sigma_free else Arr([Ax(1), Ax(N_O), Ax(1)]),
        'parameters': Arr([Ax(n_par, (('?parameters', n_par),))]),
        'unique': False, 'exclude_bottom_level': False, 'include_ids': False,
    }


FILTER_CONFIGS = {
    'all hierarchical': dict(n_dim=N_DIM, n_hdim=N_DIM, n_pop=N_POPP,
                             n_pooled=sp.Integer(0), n_hetero=sp.Integer(0)),
    'all pooled': dict(n_dim=N_DIM, n_hdim=sp.Integer(0), n_pop=N_DIM,
                       n_pooled=N_DIM, n_hetero=sp.Integer(0)),
    'all heterogeneous (one sub-model)': dict(
        n_dim=N_DIM, n_hdim=sp.Integer(0), n_pop=N_S * N_DIM,
        n_pooled=sp.Integer(0), n_hetero=N_DIM, special=TOP),
    'all heterogeneous (two sub-models)': dict(
        n_dim=D1 + D2, n_hdim=sp.Integer(0), n_pop=N_S * (D1 + D2),
        n_pooled=sp.Integer(0), n_hetero=D1 + D2, two=True, special=TOP),
}


def r13_1(ctx, repo):
    rule = 'R13.1'
    cls = 'PopulationFilterLogPosterior'
    cfgA = FILTER_CONFIGS['all hierarchical']
    # (1) slices and reshapes of the flat vector in __call__ / evaluateS1
    layouts = {}
    for m in ('__call__', 'evaluateS1'):
        fn = repo.method(cls, m)
        for sigma_free in (True, False):
            env = _filter_env(cfgA, sigma_free)
            lf = _FilterLifter(repo, cls, cfgA, flags={
                'self._sigma is None': sigma_free,
                'self._error_on_log_scale': False})
            # only the parsing prologue is needed: stop at the first call on
            # the log-prior
            pro = []
            for s in fn.body:
                if any(isinstance(c, ast.Call) and '_log_prior' in U(c.func)
                       for c in ast.walk(s)):
                    break
                pro.append(s)
            try:
                lf._block(pro, env, fn, 0, cls)
            except Exception as e:
                ctx.error(rule, '%s.%s prologue: %s' % (cls, m, e))
                continue
            _emit_events(ctx, rule, repo, cls, fn, lf, '%s.%s' % (cls, m))
            for k, v in lf.defined.items():
                layouts.setdefault((m, sigma_free), {})[k] = v
            construct = '%s.%s' % (cls, m)
            where = repo.loc(fn, cls, m)
            # the locals holding the individual-level block and the noise
            # block, identified by the slice of the flat vector they come from
            roles_ = {}
            for st_ in pro:
                for a_ in ast.walk(st_):
                    if not (isinstance(a_, ast.Assign) and len(
                            a_.targets) == 1 and isinstance(
                            a_.targets[0], ast.Name)):
                        continue
                    for x_ in ast.walk(a_.value):
                        if isinstance(x_, ast.Subscript) and isinstance(
                                x_.slice, ast.Slice) and isinstance(
                                x_.value, ast.Name):
                            lo_ = U(x_.slice.lower) if x_.slice.lower \
                                is not None else ''
                            hi_ = U(x_.slice.upper) if x_.slice.upper \
                                is not None else ''
                            if lo_ == 'self._n_top' and hi_ == \
                                    'self._end_bottom':
                                roles_['bottom'] = a_.targets[0].id
                            if lo_ == 'self._end_bottom' and not hi_:
                                roles_['eps'] = a_.targets[0].id
            bot = env.get(roles_.get('bottom'))
            eps = env.get(roles_.get('eps'))
            okb = isinstance(bot, Arr) and bot.ndim == 2 and eq(
                bot.axes[0].size, N_S) and eq(bot.axes[1].size, N_DIM)
            oke = isinstance(eps, Arr) and eps.ndim == 3 and all(
                eq(a.size, b) for a, b in zip(eps.axes, (N_S, N_O, N_T)))
            mode = 'sigma free' if sigma_free else 'sigma fixed'
            if okb and oke:
                ctx.ok(rule, where, construct,
                       '[%s] bottom block read as (n_samples, n_hdim), noise '
                       'block as (n_samples, n_observables, n_times)' % mode,
                       engine=ENG)
            else:
                ctx.violation(
                    rule, where, construct, 'parse ' + mode,
                    '[%s] the flat vector is not parsed as [top | '
                    '(n_samples, n_hdim) | (n_samples, n_observables, '
                    'n_times)]: bottom=%r, epsilon=%r' % (mode, bot, eps),
                    engine=ENG)
    # (2) published names and ids
    for m, what in (('get_parameter_names', 'names'), ('get_id', 'IDs')):
        fn = repo.method(cls, m)
        for sigma_free in (True,):
            env = _filter_env(cfgA, sigma_free)
            lf = _FilterLifter(repo, cls, cfgA, flags={
                'unique': False, 'exclude_bottom_level': False,
                'include_ids': False})
            try:
                val = lf.run(fn, env)
            except Exception as e:
                ctx.error(rule, '%s.%s: %s' % (cls, m, e))
                continue
            construct = '%s.%s' % (cls, m)
            where = repo.loc(fn, cls, m)
            if not (isinstance(val, Arr) and val.parts
                    and len(val.parts) == 3):
                ctx.error(rule, '%s: %s not derived as [top | bottom | '
                          'noise] (%r)' % (construct, what, val))
                continue
            top, bot, eps = val.parts
            n_top = env['self._n_top']
            if not eq(top.axes[0].size, n_top):
                ctx.violation(rule, where, construct, 'top length',
                              'published %s start with %s population-level '
                              'entries, expected n_top = %s' % (
                                  what, top.axes[0].size, n_top), engine=ENG)
            wb = ((N_S.name, N_S), (N_DIM.name, N_DIM))
            we = ((N_S.name, N_S), (N_O.name, N_O), (N_T.name, N_T))
            bn, en = bot.axes[0].nest, eps.axes[0].nest
            if m == 'get_id':
                # within one simulated individual all labels are equal: only
                # the outermost factor and the block size matter
                okb = bn and bn[0][0] == N_S.name and eq(
                    bot.axes[0].size, N_S * N_DIM)
                oke = en and en[0][0] == N_S.name and eq(
                    eps.axes[0].size, N_S * N_O * N_T)
            else:
                okb, oke = nest_eq(bn, wb), nest_eq(en, we)
            if okb:
                ctx.ok(rule, where, construct, 'bottom %s laid out '
                       '(n_samples > n_hdim)' % what, engine=ENG)
            else:
                ctx.violation(
                    rule, where, construct, 'bottom ' + what,
                    'the individual-level %s are laid out (%s); the vector '
                    'is parsed as (n_samples > n_hdim)' % (
                        what, nest_str(bn)), engine=ENG)
            if oke:
                ctx.ok(rule, where, construct, 'noise %s laid out '
                       '(n_samples > n_observables > n_times)' % what,
                       engine=ENG)
            else:
                ctx.violation(
                    rule, where, construct, 'noise ' + what,
                    'the noise-realisation %s are laid out (%s) but the '
                    'vector is parsed with reshape(n_samples, '
                    'n_observables, n_times): %s k does not describe '
                    'position k whenever there are several outputs and '
                    'times' % (what, nest_str(en), what[:-1]), engine=ENG)
    # (3) quick paths of the special-dimension helpers
    for cname, cfg in FILTER_CONFIGS.items():
        for sigma_free in (True, False):
            mode = '%s, sigma %s' % (cname, 'free' if sigma_free else 'fixed')
            env0 = _filter_env(cfg, sigma_free)
            n_dim = cfg['n_dim']
            if cfg.get('two'):
                top = ShapeLifter(repo, cls).concat([
                    Arr([Ax(N_S * D1, ((N_S.name, N_S), (D1.name, D1)))]),
                    Arr([Ax(N_S * D2, ((N_S.name, N_S), (D2.name, D2)))])])
            elif cname.startswith('all heterogeneous'):
                top = Arr([Ax(N_S * N_DIM,
                              ((N_S.name, N_S), (N_DIM.name, N_DIM)))])
            else:
                top = Arr([Ax(cfg['n_pop'])])
            # _reshape_bottom_parameters
            fn = repo.method(cls, '_reshape_bottom_parameters')
            env = dict(env0)
            env['bottom_parameters'] = Arr([Ax(N_S), Ax(cfg['n_hdim'])])
            env['top_parameters'] = top
            lf = _FilterLifter(repo, cls, cfg)
            construct = '%s._reshape_bottom_parameters [%s]' % (cls, cname)
            try:
                val = lf.run(fn, env)
            except Exception as e:
                ctx.error(rule, '%s: %s' % (construct, e))
                val = None
            bad = _emit_events(ctx, rule, repo, cls, fn, lf, construct)
            if isinstance(val, Arr) and not bad:
                if val.ndim == 2 and eq(val.axes[0].size, N_S) and eq(
                        val.axes[1].size, n_dim):
                    ctx.ok(rule, repo.loc(fn, cls, fn.name), construct,
                           '[%s] returns (n_samples, n_dim)' % mode,
                           engine=ENG)
                else:
                    ctx.violation(
                        rule, repo.loc(fn, cls, fn.name), construct,
                        'result shape', '[%s] returns shape %s, expected '
                        '(n_samples, n_dim)' % (mode, tuple(
                            str(a.size) for a in val.axes)), engine=ENG)
            # _remove_duplicates
            fn = repo.method(cls, '_remove_duplicates')
            env = dict(env0)
            env['sensitivities'] = Arr([Ax(env0['self._n_parameters'])])
            env['dbottom'] = Arr([Ax(N_S), Ax(n_dim)])
            lf = _FilterLifter(repo, cls, cfg)
            construct = '%s._remove_duplicates [%s]' % (cls, mode)
            try:
                lf.run(fn, env)
            except Exception as e:
                ctx.error(rule, '%s: %s' % (construct, e))
            bad = _emit_events(ctx, rule, repo, cls, fn, lf, construct)
            if not bad:
                ctx.ok(rule, repo.loc(fn, cls, fn.name), construct,
                       'all slice updates are shape-consistent', engine=ENG)
    _r16_6_core(ctx, repo, rule)
    ctx.floor(rule, 20)


def r16_6(ctx, repo):
    """Independent random draws are not broadcast along a missing axis."""
    _r16_6_core(ctx, repo, 'R16.6')
    ctx.floor('R16.6', 1)


def _r16_6_core(ctx, repo, rule):
    cls = 'PopulationFilterLogPosterior'
    cfgA = FILTER_CONFIGS['all hierarchical']
    # (4) initial points: every block is drawn per initial point
    fn = repo.method(cls, 'sample_initial_parameters')
    env = _filter_env(cfgA, True)
    env.update({'n_samples': sym('n_init'), 'seed': Opaque('seed'),
                'rng': Opaque('rng')})
    lf = _FilterLifter(repo, cls, cfgA, flags={'seed is None': False})
    construct = '%s.sample_initial_parameters' % cls
    try:
        lf.run(fn, env)
    except Exception as e:
        ctx.note(rule, '%s: walk stopped: %s' % (construct, e))
    bad = _emit_events(ctx, rule, repo, cls, fn, lf, construct)
    if not bad:
        ctx.ok(rule, repo.loc(fn, cls, fn.name), construct,
               'noise realisations are drawn with one row per initial point',
               engine=ENG)


# -----------------------------------------------------------------------------
# R02.9 — normalisation of documented inputs keeps their layout
# -----------------------------------------------------------------------------
N_SAMPLES_ = sym('n_samples')

NORMALISE_SITES = [
    # (class, method, input name, documented axes, field that stores it,
    #  axes the stored value must have)
    ('HierarchicalLogLikelihood', '__init__', 'covariates',
     ('n_ids', 'n_cov'), 'self._covariates', ('n_ids', 'n_cov')),
    ('PopulationFilterLogPosterior', '__init__', 'covariates',
     ('n_samples', 'n_cov'), 'self._covariates', ('n_samples', 'n_cov')),
]


def r02_9(ctx, repo):
    """A constructor that normalises a documented 2-D input (reshape /
    transpose / broadcast) stores it with the documented axes: element
    (i, c) stays the covariate c of individual i."""
    rule = 'R02.9'
    syms = {'n_ids': N_IDS, 'n_cov': N_COV, 'n_samples': N_SAMPLES_}

    class L(ShapeLifter):
        def _call(self, n, env, fn, depth, owner):
            f = U(n.func)
            if f.endswith('.n_covariates'):
                return N_COV
            if f in ('sorted', 'reversed', 'np.sort', 'np.flip',
                     'np.random.permutation') and n.args:
                # a re-ordered sequence: same length, other positions
                v = self.ev(n.args[0], env, fn, depth, owner)
                if isinstance(v, Arr) and v.ndim == 1:
                    lab = '%s(%s)' % (f, nest_str(v.axes[0].nest))
                    return Arr([Ax(v.axes[0].size,
                                   ((lab, v.axes[0].size),))],
                               is_list=v.is_list)
            return super()._call(n, env, fn, depth, owner)
    for cls, m, arg, axes, field, want in NORMALISE_SITES:
        fn = repo.method(cls, m)
        construct = '%s.%s' % (cls, m)
        lf = L(repo, cls, flags={
            'population_model.n_covariates() > 0': True,
            'self._population_model.n_covariates() > 0': True,
            '%s is None' % arg: False})
        env = {arg: Arr([Ax(syms[a]) for a in axes]),
               'log_likelihoods': Arr([Ax(N_IDS)], is_list=True),
               'n_samples': N_SAMPLES_, 'self._n_samples': N_SAMPLES_}
        try:
            lf._block(fn.body, env, fn, 0, cls)
        except Exception as e:
            ctx.error(rule, '%s: %s' % (construct, e))
            continue
        bad = _emit_events(ctx, rule, repo, cls, fn, lf, construct)
        val = env.get(field)
        where = repo.loc(fn, cls, m)
        if bad:
            continue
        if isinstance(val, Arr) and val.ndim == len(want) and all(
                nest_eq(a.nest, ((w, syms[w]),))
                for a, w in zip(val.axes, want)):
            ctx.ok(rule, where, construct,
                   '`%s` of documented shape (%s) is stored as (%s)' % (
                       arg, ', '.join(axes), ', '.join(want)), engine=ENG)
        elif isinstance(val, Arr):
            ctx.violation(
                rule, where, construct, 'stored layout ' + arg,
                '`%s` is documented as (%s) but stored with axes (%s): '
                'entry (i, c) is no longer covariate c of individual i' % (
                    arg, ', '.join(axes), ', '.join(
                        nest_str(a.nest) for a in val.axes)), engine=ENG)
        else:
            ctx.error(rule, '%s: stored value of `%s` not derived' % (
                construct, arg))
        # the rows of the table belong, by position, to the entries of the
        # list of likelihoods as the caller passed it
        lls = env.get('self._log_likelihoods')
        if cls == 'HierarchicalLogLikelihood':
            if isinstance(lls, Arr) and lls.ndim == 1 and nest_eq(
                    lls.axes[0].nest, ((N_IDS.name, N_IDS),)):
                ctx.ok(rule, where, construct,
                       'the likelihoods are stored in the order of the '
                       'input, the order of the covariate rows', engine=ENG)
            elif isinstance(lls, Arr) and lls.ndim == 1:
                ctx.violation(
                    rule, where, construct, 'pairing likelihoods/covariates',
                    'the likelihoods are stored as %s while row i of '
                    '`covariates` still belongs to the i-th likelihood of '
                    'the input: individuals are evaluated with the '
                    'covariates of other individuals' % nest_str(
                        lls.axes[0].nest), engine=ENG)
            else:
                ctx.error(rule, '%s: order of the stored likelihoods not '
                          'derived' % construct)
    ctx.floor(rule, 3)


# -----------------------------------------------------------------------------
# R05.6 — per-individual parameter tensors are read for all individuals
# -----------------------------------------------------------------------------
def r05_6(ctx, repo):
    """With parameters of shape (n_ids, n_param_per_dim, n_dim) (the layout
    a covariate model produces) every elementary population model reads
    parameter k as `parameters[:, k]`; a literal index on the individual axis
    would apply the first individual's parameters to everybody."""
    rule = 'R05.6'
    n = 0
    for cls in _elementary(repo):
        inv = _class_invariants(repo, cls)
        P = inv.get('self._n_parameters')
        if not isinstance(P, sp.Expr):
            continue
        NPD = sp.cancel(P / N_DIM)
        init = repo.method(cls, '__init__')
        cent = 'centered' in [a.arg for a in init.args.args]
        for m in ('compute_individual_parameters', 'compute_log_likelihood',
                  'compute_sensitivities'):
            k, fn = repo.resolve(cls, m)
            if fn is None or k != cls or repo.is_abstract(fn):
                continue
            construct = '%s.%s' % (cls, m)
            seen = set()
            bad = 0
            for centered in ([True, False] if cent else [True]):
                env = dict(inv)
                env.update({
                    'parameters': Arr([Ax(R_OBS), Ax(NPD), Ax(N_DIM)]),
                    'observations': Arr([Ax(R_OBS), Ax(N_DIM)]),
                    'eta': Arr([Ax(R_OBS), Ax(N_DIM)]),
                    'dlogp_dpsi': None, 'return_eta': False,
                    'reduce': Opaque('flag'), 'flattened': Opaque('flag'),
                    'self._centered': centered, 'self._n_ids': N_IDS,
                })
                lf = ShapeLifter(repo, cls, flags={
                    'self._centered': centered, 'return_eta': False,
                    'dlogp_dpsi is None': True})
                lf.terminal = '_shape'
                lf.individual_labels = {R_OBS.name}
                try:
                    lf.run(fn, env)
                except Exception as e:
                    ctx.error(rule, '%s: %s: %s' % (construct,
                                                    type(e).__name__, e))
                    continue
                for ev in lf.events:
                    if 'individual axis' not in ev.msg:
                        continue
                    key = 'individual index %s' % ' '.join(
                        ev.msg.split())[:40]
                    if key in seen:
                        continue
                    seen.add(key)
                    bad += 1
                    ctx.violation(rule, repo.loc(ev.node, cls, m), construct,
                                  key, ev.msg, engine=ENG)
            n += 1
            if not bad:
                ctx.ok(rule, repo.loc(fn, cls, m), construct,
                       'no literal index on the individual axis of the '
                       'per-individual parameter tensor', engine=ENG)
    if n < 10:
        ctx.error(rule, 'only %d methods analysed (floor 10)' % n)


# -----------------------------------------------------------------------------
# R07.5 — the selection is ordered lexicographically by (parameter, dimension)
# -----------------------------------------------------------------------------
def r07_5(ctx, repo):
    """The covariate model publishes its selection sorted by parameter index
    first and dimension index second (the flatten order of the
    (n_param_per_dim, n_dim) parameter table, which the name and coefficient
    layouts rely on).  Recognised ways to establish it:
      * successive passes `X = X[np.argsort(X[:, c]), :]`: the result is
        ordered by the *last* pass first, and earlier passes only survive
        as tie-breakers if every later pass is stable (kind='stable' /
        'mergesort'); numpy's default sort is not stable beyond 16 elements;
      * `np.lexsort((minor, major))` (last key is the primary one);
      * one argsort of a composite key `major * S + minor`, where the stride
        S must exceed every minor key (max(minor) + 1)."""
    rule = 'R07.5'
    n = 0
    for cls in repo.subclasses('CovariateModel', strict=True):
        fn = repo.cls(cls).methods.get('set_population_parameters')
        if fn is None or repo.is_abstract(fn):
            continue
        construct = '%s.set_population_parameters' % cls
        sorts = [c for c in ast.walk(fn) if isinstance(c, ast.Call)
                 and U(c.func) in ('np.argsort', 'np.lexsort')]
        sorts.sort(key=lambda c: (c.lineno, c.col_offset))
        if not sorts:
            # rows held as python tuples / lists: `sorted(rows)` (no key) and
            # `np.unique(rows, axis=0)` order them lexicographically, i.e.
            # by (column 0, column 1)
            lex = [c for c in ast.walk(fn) if isinstance(c, ast.Call) and (
                (U(c.func) == 'sorted' and c.args and not c.keywords) or (
                    U(c.func) == 'np.unique' and any(
                        k.arg == 'axis' and isinstance(k.value, ast.Constant)
                        and k.value.value == 0 for k in c.keywords)))]
            keyed = [c for c in ast.walk(fn) if isinstance(c, ast.Call)
                     and U(c.func) in ('sorted', 'np.sort') and c.keywords]
            if lex and not keyed:
                # the rows keep the column order of the input pairs?
                swapped = False
                for t in ast.walk(fn):
                    if isinstance(t, (ast.Tuple, ast.List)) and len(
                            t.elts) == 2:
                        idx = []
                        for e in t.elts:
                            sub = [x for x in ast.walk(e) if isinstance(
                                x, ast.Subscript) and isinstance(
                                x.slice, ast.Constant) and isinstance(
                                x.slice.value, int)]
                            idx.append(sub[0].slice.value if sub else None)
                        if idx == [1, 0]:
                            swapped = True
                n += 1
                where = repo.loc(lex[-1], cls, fn.name)
                if swapped:
                    ctx.violation(
                        rule, where, construct, 'sort keys',
                        'the pairs are stored as (dimension, parameter) '
                        'before the lexicographic sort: the selection is '
                        'ordered by columns [1, 0]; the published order is '
                        '(parameter index, dimension index)')
                else:
                    ctx.ok(rule, where, construct,
                           'selection is ordered lexicographically by '
                           '(parameter index, dimension index)')
                continue
            ctx.error(rule, '%s: no sort of the selection found' % construct)
            continue
        n += 1

        def col(e):
            """column index of `X[:, c]` (through a local name)"""
            if isinstance(e, ast.Name):
                d = [a for a in ast.walk(fn) if isinstance(a, ast.Assign)
                     and U(a.targets[0]) == e.id and a.lineno <= e.lineno]
                if d:
                    return col(d[-1].value)
            if isinstance(e, ast.Subscript) and isinstance(
                    e.slice, ast.Tuple) and len(e.slice.elts) == 2 and \
                    isinstance(e.slice.elts[1], ast.Constant):
                return e.slice.elts[1].value
            return None

        def stable(c):
            return any(k.arg == 'kind' and isinstance(k.value, ast.Constant)
                       and k.value.value in ('stable', 'mergesort')
                       for k in c.keywords)
        where = repo.loc(sorts[-1], cls, fn.name)
        keys = None
        if all(U(c.func) == 'np.argsort' for c in sorts):
            passes = []
            for c in sorts:
                a = c.args[0] if c.args else None
                k = col(a) if a is not None else None
                comp = None
                if k is None and isinstance(a, ast.BinOp) and isinstance(
                        a.op, ast.Add):
                    comp = a
                passes.append((c, k, comp))
            if len(passes) == 1 and passes[0][2] is not None:
                # composite key major * S + minor
                a = passes[0][2]
                mul = a.left if isinstance(a.left, ast.BinOp) else a.right
                minor = a.right if mul is a.left else a.left
                if isinstance(mul, ast.BinOp) and isinstance(
                        mul.op, ast.Mult):
                    major, S = mul.left, mul.right
                    if col(major) is None:
                        major, S = mul.right, mul.left
                    kmaj, kmin = col(major), col(minor)
                    sdef = S
                    if isinstance(S, ast.Name):
                        d = [x for x in ast.walk(fn) if isinstance(
                            x, ast.Assign) and U(x.targets[0]) == S.id]
                        sdef = d[-1].value if d else S
                    scol = [col(x) for x in ast.walk(sdef)
                            if isinstance(x, (ast.Subscript, ast.Name))]
                    scol = [x for x in scol if x is not None]
                    if kmaj is None or kmin is None:
                        ctx.error(rule, '%s: composite sort key `%s` not '
                                  'recognised' % (construct, U(a)[:50]))
                        continue
                    if scol and set(scol) != {kmin}:
                        ctx.violation(
                            rule, where, construct, 'sort stride',
                            'the composite sort key `%s` multiplies column '
                            '%d by `%s`, which is derived from column %s; '
                            'the stride must exceed every value of the '
                            'minor key (column %d), otherwise keys of '
                            'different (parameter, dimension) pairs '
                            'collide or interleave' % (
                                U(a)[:60], kmaj, U(sdef)[:40],
                                sorted(set(scol)), kmin))
                        continue
                    keys = [kmaj, kmin]
            elif all(p[1] is not None for p in passes):
                keys = [passes[-1][1]]
                for i in range(len(passes) - 2, -1, -1):
                    later = passes[i + 1:]
                    if all(stable(c) for c, _, _ in later):
                        keys.append(passes[i][1])
                    else:
                        c = [c for c, _, _ in later if not stable(c)][0]
                        ctx.violation(
                            rule, repo.loc(c, cls, fn.name), construct,
                            'unstable pass',
                            '`%s` is a later pass of a multi-key sort but '
                            'uses numpy\'s default (unstable) algorithm: '
                            'beyond 16 rows it does not preserve the order '
                            'established by the earlier pass on column %d, '
                            'so the selection is not sorted by (parameter, '
                            'dimension) and names / coefficients are '
                            'attached to the wrong pairs' % (
                                U(c)[:60], passes[i][1]))
                        keys = None
                        break
        elif len(sorts) == 1 and U(sorts[0].func) == 'np.lexsort' \
                and sorts[0].args and isinstance(
                    sorts[0].args[0], (ast.Tuple, ast.List)):
            ks = [col(e) for e in sorts[0].args[0].elts]
            if all(k is not None for k in ks):
                keys = list(reversed(ks))
        if keys is None:
            if not any(f['rule'] == rule and f['construct'] == construct
                       for f in ctx.findings):
                ctx.error(rule, '%s: ordering of the selection not '
                          'recognised' % construct)
            continue
        if keys[:2] == [0, 1]:
            ctx.ok(rule, where, construct,
                   'selection is ordered by (parameter index, dimension '
                   'index)')
        else:
            ctx.violation(
                rule, where, construct, 'sort keys',
                'the selection is ordered by columns %s; the published '
                'order is (parameter index, dimension index) = columns '
                '[0, 1]' % keys)
    if n < 1:
        ctx.error(rule, 'no covariate model with a sorted selection found')


# -----------------------------------------------------------------------------
# R07.6 — the covariate-shifted parameters are used per individual
# -----------------------------------------------------------------------------
def r07_6(ctx, repo):
    """`compute_population_parameters` returns one parameter set per
    individual, shape (n_ids, n_param_per_dim, n_dim).  Every method of
    CovariatePopulationModel hands the whole tensor on, or walks it
    individual by individual; a literal index on the individual axis gives
    everybody the first individual's (covariate-dependent) parameters."""
    rule = 'R07.6'
    cls = 'CovariatePopulationModel'
    NPD = sym('n_param_per_dim')
    IND = sym('n_individuals')

    class L(ShapeLifter):
        def _call(self, n, env, fn, depth, owner):
            f = U(n.func)
            if f.endswith('_covariate_model.compute_population_parameters'):
                return Arr([Ax(IND), Ax(NPD), Ax(N_DIM)])
            if f.endswith('_covariate_model.n_covariates') or f.endswith(
                    '.n_covariates'):
                return N_COV
            return super()._call(n, env, fn, depth, owner)
    n = 0
    for m in ('sample', 'compute_log_likelihood', 'compute_sensitivities',
              'compute_individual_parameters'):
        fn = repo.cls(cls).methods.get(m)
        if fn is None:
            continue
        construct = '%s.%s' % (cls, m)
        lf = L(repo, cls, flags={'n_samples is None': False,
                                 'covariates is None': False})
        lf.individual_labels = {IND.name}
        env = {'parameters': Arr([Ax(NPD * N_DIM + N_SEL * N_COV)]),
               'covariates': Arr([Ax(IND), Ax(N_COV)]),
               'observations': Arr([Ax(IND), Ax(N_DIM)]),
               'eta': Arr([Ax(IND), Ax(N_DIM)]),
               'n_samples': IND, 'self._n_pop': NPD * N_DIM,
               'self._n_dim': N_DIM, 'self._n_covariates': N_COV}
        try:
            lf._block(fn.body, env, fn, 0, cls)
        except Exception as e:
            ctx.error(rule, '%s: %s: %s' % (construct, type(e).__name__, e))
            continue
        n += 1
        lf.events = [e for e in lf.events if 'individual axis' in e.msg]
        if not _emit_events(ctx, rule, repo, cls, fn, lf, construct):
            ctx.ok(rule, repo.loc(fn, cls, m), construct,
                   'the per-individual parameter tensor is not indexed with '
                   'a literal on its individual axis', engine=ENG)
    if n < 3:
        ctx.error(rule, 'only %d methods analysed (floor 3)' % n)
