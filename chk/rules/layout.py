"""Layout agreement rules (engine B, chk/shapes.py).

R07.1  covariate model: the flat coefficient vector is read, differentiated
       and named in one layout (selected > covariate); shapes of the forward
       transform and its adjoint agree.
"""
import ast

import sympy as sp

from ..loader import U, AnalysisError
from ..shapes import (ShapeLifter, Arr, Ax, TOP, nest_eq, nest_str, eq)
from ..term import Tup, Opaque

ENG = 'shape-layout'


def sym(name):
    return sp.Symbol(name, positive=True, integer=True)


N_SEL, N_COV, N_IDS, N_POP, N_DIM = (sym('n_selected'), sym('n_cov'),
                                     sym('n_ids'), sym('n_pop'),
                                     sym('n_dim'))


def _emit_events(ctx, rule, repo, cls, fn, lf, construct):
    n = 0
    seen = set()
    for ev in lf.events:
        key = '%s %s' % (ev.kind, ' '.join(ev.msg.split())[:80])
        if key in seen:
            continue
        seen.add(key)
        n += 1
        ctx.violation(rule, repo.loc(ev.node, cls, fn.name), construct,
                      key, ev.msg, engine=ENG)
    return n


def _cov_env():
    return {
        'self._n_selected': N_SEL, 'self._n_cov': N_COV,
        'self._pidx': Arr([Ax(N_SEL)]), 'self._didx': Arr([Ax(N_SEL)]),
        'parameters': Arr([Ax(N_SEL * N_COV, (('?beta', N_SEL * N_COV),))]),
        'pop_parameters': Arr([Ax(N_POP), Ax(N_DIM)]),
        'covariates': Arr([Ax(N_IDS), Ax(N_COV)]),
        'dlogp_dvartheta': Arr([Ax(N_IDS), Ax(N_POP), Ax(N_DIM)]),
    }


def r07_1(ctx, repo):
    rule = 'R07.1'
    want = ((N_SEL.name, N_SEL), (N_COV.name, N_COV))
    classes = [k for k in repo.subclasses('CovariateModel', strict=True)
               if repo.has_method(k, 'compute_population_parameters')
               and repo.has_method(k, 'compute_sensitivities')]
    if not classes:
        raise AnalysisError('no concrete covariate model found')
    for cls in classes:
        layouts = {}
        # (1) forward transform
        fn = repo.method(cls, 'compute_population_parameters')
        construct = '%s.compute_population_parameters' % cls
        lf = ShapeLifter(repo, cls)
        val = lf.run(fn, _cov_env())
        bad = _emit_events(ctx, rule, repo, cls, fn, lf, construct)
        where = repo.loc(fn, cls, fn.name)
        if '?beta' in lf.defined:
            layouts['forward transform'] = (lf.defined['?beta'], fn)
        if isinstance(val, Arr) and val.ndim == 3 and all(
                eq(a.size, s) for a, s in zip(val.axes,
                                              (N_IDS, N_POP, N_DIM))):
            ctx.ok(rule, where, construct,
                   'vartheta has shape (n_ids, n_pop, n_dim)', engine=ENG)
        elif not bad:
            ctx.error(rule, '%s: result shape not derived (%r)' % (
                construct, val))
        # (2) adjoint
        fn = repo.method(cls, 'compute_sensitivities')
        construct = '%s.compute_sensitivities' % cls
        lf = ShapeLifter(repo, cls)
        val = lf.run(fn, _cov_env())
        bad = _emit_events(ctx, rule, repo, cls, fn, lf, construct)
        where = repo.loc(fn, cls, fn.name)
        if isinstance(val, (tuple, Tup)) and len(val) == 2 and all(
                isinstance(v, Arr) and v.ndim == 1 for v in val):
            dpop, dpar = val
            layouts['gradient w.r.t. the coefficients'] = (
                dpar.axes[0].nest, fn)
            if nest_eq(dpop.axes[0].nest,
                       ((N_POP.name, N_POP), (N_DIM.name, N_DIM))):
                ctx.ok(rule, where, construct,
                       'dpop is flattened as (n_pop > n_dim)', engine=ENG)
            else:
                ctx.violation(
                    rule, where, construct, 'dpop layout',
                    'the gradient w.r.t. the population parameters is '
                    'flattened as (%s); the parameters are laid out '
                    '(n_pop > n_dim)' % nest_str(dpop.axes[0].nest),
                    engine=ENG)
        elif not bad:
            ctx.error(rule, '%s: result not derived (%r)' % (construct, val))
        # (3) default names
        k, fn = repo.resolve(cls, 'set_parameter_names')
        if fn is not None:
            construct = '%s.set_parameter_names' % k
            lf = ShapeLifter(repo, cls, flags={'names is None': True})
            env = _cov_env()
            env['names'] = None
            lf.run(fn, env)
        # names are built in a loop the generic walker summarises
            names = None
            for st in ast.walk(fn):
                if isinstance(st, ast.For):
                    e2 = dict(env)
                    e2['names'] = Arr((Ax(0, ()),), is_list=True)
                    lf2 = ShapeLifter(repo, cls)
                    lf2.for_loop(st, e2, fn, 0, cls)
                    if isinstance(e2.get('names'), Arr):
                        names = e2['names']
            if names is not None:
                layouts['default names'] = (names.axes[0].nest, fn)
        # compare
        for what, (nest, f) in layouts.items():
            construct = '%s (%s)' % (cls, what)
            where = repo.loc(f, cls, f.name)
            if nest_eq(nest, want):
                ctx.ok(rule, where, construct,
                       'coefficients laid out (n_selected > n_cov)',
                       engine=ENG)
            else:
                ctx.violation(
                    rule, where, construct, 'layout ' + what,
                    'the %s uses the layout (%s) for the flat coefficient '
                    'vector, but the published order (names, n_parameters) '
                    'is (n_selected > n_cov): coefficient k is applied to / '
                    'reported for the wrong (parameter, covariate) pair '
                    'whenever both counts exceed one' % (
                        what, nest_str(nest)), engine=ENG)
        if len(layouts) < 3:
            ctx.error(rule, '%s: only %d of 3 layout sites derived (%s)' % (
                cls, len(layouts), ', '.join(layouts)))
    # (4) names the covariate population model hands to the covariate model
    cls = 'CovariatePopulationModel'
    for m in ('__init__', 'set_dim_names', 'set_population_parameters'):
        fn = repo.method(cls, m)
        construct = '%s.%s' % (cls, m)
        for st in ast.walk(fn):
            if not isinstance(st, ast.For):
                continue
            aug = [x for x in st.body if isinstance(x, ast.AugAssign)]
            if len(aug) != 1 or not isinstance(aug[0].value, ast.BinOp):
                continue
            v = aug[0].value
            # `acc += [name] * <count>`
            if isinstance(v.left, ast.List) and isinstance(v.op, ast.Mult):
                cnt = U(v.right)
                if cnt in ('self._n_covariates', 'n_cov',
                           'self._covariate_model.n_covariates()'):
                    ctx.ok(rule, repo.loc(st, cls, m), construct,
                           'names repeat each selected parameter n_cov '
                           'times (selected > covariate)', engine=ENG)
                else:
                    ctx.violation(
                        rule, repo.loc(st, cls, m), construct,
                        'names repeat ' + cnt,
                        'covariate parameter names repeat each selected '
                        'name `%s` times instead of n_cov times' % cnt,
                        engine=ENG)
            elif isinstance(v.right, ast.List) or isinstance(
                    v.left, ast.Name):
                ctx.violation(
                    rule, repo.loc(st, cls, m), construct, 'names nesting',
                    'covariate parameter names are not built as '
                    '(selected > covariate): `%s`' % U(aug[0])[:60],
                    engine=ENG)
    ctx.floor(rule, 8)


def r07_3(ctx, repo):
    """Index provenance: names handed to the covariate model are selected
    with the covariate model's own normalised selection."""
    rule = 'R07.3'
    cls = 'CovariatePopulationModel'
    c = repo.cls(cls)
    n = 0
    for m, fn in sorted(c.methods.items()):
        calls = [x for x in ast.walk(fn) if isinstance(x, ast.Call)
                 and U(x.func) == 'self._covariate_model.set_parameter_names'
                 and x.args]
        if not calls:
            continue
        params = {a.arg for a in fn.args.args}
        construct = '%s.%s' % (cls, m)
        # fancy index expressions applied to the name array
        subs = [s for s in ast.walk(fn) if isinstance(s, ast.Subscript)
                and isinstance(s.slice, ast.Tuple)
                and len(s.slice.elts) == 2
                and not any(isinstance(e, ast.Slice) for e in s.slice.elts)
                and isinstance(s.ctx, ast.Load)
                and 'names' in U(s.value)]
        if not subs:
            if any(U(a) == 'None' for cl in calls for a in cl.args):
                continue
            n += 1
            ctx.ok(rule, repo.loc(fn, cls, m), construct,
                   'all names are handed over in flatten order (no '
                   'selection)')
            continue
        for s in subs:
            n += 1
            idx_names = {x.id for e in s.slice.elts for x in ast.walk(e)
                         if isinstance(x, ast.Name)}
            # where do the index names come from?
            from_getter = False
            raw = idx_names & params
            for a in ast.walk(fn):
                if isinstance(a, ast.Assign) and isinstance(
                        a.value, ast.Call) and U(a.value.func).endswith(
                        '_covariate_model.get_set_population_parameters'):
                    tg = {x.id for t in a.targets for x in ast.walk(t)
                          if isinstance(x, ast.Name)}
                    if idx_names and idx_names <= tg:
                        from_getter = True
            # locals derived from a parameter (np.array(indices))
            for a in ast.walk(fn):
                if isinstance(a, ast.Assign) and isinstance(
                        a.targets[0], ast.Name) and a.targets[0].id in \
                        idx_names:
                    src = {x.id for x in ast.walk(a.value)
                           if isinstance(x, ast.Name)}
                    if src & params:
                        raw |= {a.targets[0].id}
            where = repo.loc(s, cls, m)
            if from_getter:
                ctx.ok(rule, where, construct,
                       'names are selected with the covariate model\'s own '
                       '(sorted, de-duplicated) selection')
            elif raw:
                ctx.violation(
                    rule, where, construct, 'raw indices',
                    'the names handed to the covariate model are selected '
                    'with the caller\'s raw `%s` (`%s`), while the covariate '
                    'model sorts and de-duplicates its selection: for '
                    'unsorted or repeated pairs the names label the wrong '
                    'coefficients or have the wrong length' % (
                        ', '.join(sorted(raw)), U(s)[:60]))
            else:
                ctx.error(rule, '%s: provenance of the selection `%s` not '
                          'recognised' % (construct, U(s)[:50]))
    if n < 3:
        ctx.error(rule, 'only %d name hand-overs found (floor 3)' % n)


def r07_4(ctx, repo):
    """Membership tests on values that may be ndarray rows."""
    rule = 'R07.4'
    from ..types import Types
    T = Types(repo)
    n = 0
    for cls in repo.subclasses('CovariateModel'):
        for m, fn in repo.cls(cls).methods.items():
            params = [a.arg for a in fn.args.args][1:]
            for loop in ast.walk(fn):
                if not (isinstance(loop, ast.For) and isinstance(
                        loop.target, ast.Name) and isinstance(
                        loop.iter, ast.Name) and loop.iter.id in params):
                    continue
                x = loop.target.id
                tests = [c for c in ast.walk(loop) if isinstance(
                    c, ast.Compare) and isinstance(c.ops[0], (ast.In,
                                                              ast.NotIn))
                    and isinstance(c.left, ast.Name) and c.left.id == x]
                if not tests:
                    continue
                # rebinding of x to a list before the test is fine
                rebound = any(isinstance(a, ast.Assign) and isinstance(
                    a.targets[0], ast.Name) and a.targets[0].id == x
                    and a.lineno < tests[0].lineno for a in ast.walk(loop))
                pidx = params.index(loop.iter.id)
                array_callers = []
                for rel, c2, f2 in repo.all_functions():
                    for call in ast.walk(f2):
                        if isinstance(call, ast.Call) and isinstance(
                                call.func, ast.Attribute) and \
                                call.func.attr == m and call.args:
                            t = T.type_of(call.func.value, c2, f2)
                            if not t or t[0] == 'list' or cls not in \
                                    T.candidates(t):
                                continue
                            if pidx < len(call.args) and isinstance(
                                    call.args[pidx], ast.Name):
                                an = call.args[pidx].id
                                for a in ast.walk(f2):
                                    if isinstance(a, ast.Assign) and any(
                                            isinstance(t2, ast.Name)
                                            and t2.id == an
                                            for t2 in a.targets) and \
                                            isinstance(a.value, ast.Call) \
                                            and U(a.value.func) in (
                                                'np.array', 'np.asarray'):
                                        array_callers.append(
                                            '%s.%s' % (c2, f2.name))
                n += 1
                construct = '%s.%s' % (cls, m)
                where = repo.loc(tests[0], cls, m)
                if array_callers and not rebound:
                    ctx.violation(
                        rule, where, construct, 'ndarray membership',
                        '`%s` tests membership of `%s`, a row of `%s`; %s '
                        'passes a numpy array, whose rows compare '
                        'element-wise, so the test raises "truth value of an '
                        'array is ambiguous" as soon as the list holds one '
                        'pair (any selection of two or more pairs)' % (
                            U(tests[0]), x, loop.iter.id,
                            ', '.join(sorted(set(array_callers)))))
                else:
                    ctx.ok(rule, where, construct,
                           'membership test on plain python values')
    if n < 1:
        ctx.error(rule, 'no membership test on selection rows found')


# -----------------------------------------------------------------------------
# R05.3 / R17.1 — elementary population models
# -----------------------------------------------------------------------------
R_OBS = sym('n_obs_ids')       # rows of `observations` / eta


def _class_invariants(repo, cls):
    """self._n_parameters etc. as symbolic expressions, from __init__ (and
    set_n_ids) of the class."""
    env = {'self._n_dim': N_DIM, 'self._n_ids': N_IDS,
           'n_dim': N_DIM, 'dim_names': None, 'centered': True,
           'n_ids': N_IDS}
    lf = ShapeLifter(repo, cls, flags={'no_shortcut': True,
                                       'dim_names': False})
    for m in ('__init__', 'set_n_ids'):
        k, fn = repo.resolve(cls, m)
        if fn is None or k == 'PopulationModel':
            continue
        e2 = dict(env)
        e2['no_shortcut'] = True
        try:
            lf._block(fn.body, e2, fn, 0, cls)
        except Exception:
            pass
        for key, v in e2.items():
            if key.startswith('self.') and key not in ('self._n_dim',
                                                       'self._n_ids'):
                env.setdefault(key, v)
            elif key.startswith('self.'):
                pass
        # later definitions win for fields assigned in both
        for key in ('self._n_parameters', 'self._parameter_names'):
            if key in e2 and not isinstance(e2[key], Opaque):
                env[key] = e2[key]
    return env


def _elementary(repo):
    out = []
    for k in repo.subclasses('PopulationModel', strict=True):
        fn = repo.cls(k).methods.get('compute_sensitivities')
        if fn is None:
            continue
        if any(isinstance(n, ast.Call) and U(n.func) == 'self._shape'
               for n in ast.walk(fn)):
            out.append(k)
    return out


def r05_3(ctx, repo):
    rule = 'R05.3'
    classes = _elementary(repo)
    if len(classes) < 5:
        ctx.error(rule, 'only %d elementary population models with a '
                  '_shape-terminated compute_sensitivities (floor 5)'
                  % len(classes))
    for cls in classes:
        inv = _class_invariants(repo, cls)
        P = inv.get('self._n_parameters')
        if not isinstance(P, sp.Expr):
            ctx.error(rule, '%s: n_parameters not derived from __init__'
                      % cls)
            continue
        fn = repo.method(cls, 'compute_sensitivities')
        init = repo.method(cls, '__init__')
        cent = 'centered' in [a.arg for a in init.args.args]
        seen = set()
        for centered in ([True, False] if cent else [True]):
            for upstream in (False, True):
                env = dict(inv)
                env.update({
                    'parameters': Arr([Ax(P, (('?theta', P),))]),
                    'observations': Arr([Ax(R_OBS), Ax(N_DIM)]),
                    'dlogp_dpsi': Arr([Ax(R_OBS), Ax(N_DIM)])
                    if upstream else None,
                    'reduce': Opaque('flag'), 'flattened': Opaque('flag'),
                    'self._centered': centered,
                })
                lf = ShapeLifter(repo, cls, flags={
                    'self._centered': centered,
                    'dlogp_dpsi is None': not upstream})
                lf.terminal = '_shape'
                lf.explore_guards = True
                try:
                    lf.run(fn, env)
                except Exception as e:
                    ctx.error(rule, '%s.compute_sensitivities: %s: %s' % (
                        cls, type(e).__name__, e))
                    continue
                construct = '%s.compute_sensitivities' % cls
                for ev in lf.events:
                    key = '%s %s' % (ev.kind, ' '.join(ev.msg.split())[:70])
                    if (cls, key) in seen:
                        continue
                    seen.add((cls, key))
                    ctx.violation(rule, repo.loc(ev.node, cls, fn.name),
                                  construct, key, ev.msg, engine=ENG)
                for node, vals in lf.terminals:
                    if (cls, node.lineno, centered) in seen:
                        continue
                    seen.add((cls, node.lineno, centered))
                    where = repo.loc(node, cls, fn.name)
                    site = '%s [%s]' % (construct, 'centred' if centered
                                        else 'non-centred')
                    if len(vals) < 3 or not isinstance(vals[1], Arr) \
                            or not isinstance(vals[2], Arr):
                        ctx.error(rule, '%s line %d: dpsi/dtheta shapes not '
                                  'derived (%r, %r)' % (
                                      site, node.lineno, vals[1:2],
                                      vals[2:3]))
                        continue
                    dpsi, dth = vals[1], vals[2]
                    ok = dpsi.ndim == 2 and eq(dpsi.axes[0].size, R_OBS) \
                        and eq(dpsi.axes[1].size, N_DIM)
                    if ok:
                        ctx.ok(rule, where, site, 'dpsi has shape '
                               '(n_ids, n_dim)', engine=ENG)
                    else:
                        ctx.violation(
                            rule, where, site, 'dpsi shape',
                            'dpsi handed to _shape has shape %s, expected '
                            '(n_ids, n_dim)' % (tuple(
                                str(a.size) for a in dpsi.axes),),
                            engine=ENG)
                    if dth.ndim != 3:
                        ctx.violation(
                            rule, where, site, 'dtheta rank',
                            'dtheta handed to _shape has %d axes, expected '
                            '(n_ids, n_param_per_dim, n_dim)' % dth.ndim,
                            engine=ENG)
                        continue
                    pp = sp.expand(dth.axes[1].size * dth.axes[2].size)
                    if eq(pp, P) and eq(dth.axes[2].size, N_DIM) and eq(
                            dth.axes[0].size, R_OBS):
                        ctx.ok(rule, where, site,
                               'dtheta has shape (n_ids, %s, n_dim) and '
                               '%s * n_dim = n_parameters' % (
                                   dth.axes[1].size, dth.axes[1].size),
                               engine=ENG)
                    else:
                        w = sp.expand(pp - P)
                        wit = {N_DIM: 2, N_IDS: 3, R_OBS: 3}
                        ctx.violation(
                            rule, where, site, 'dtheta shape',
                            'dtheta handed to _shape has shape (%s): its '
                            'flattened length per individual is %s but the '
                            'model has n_parameters = %s (they differ by %s, '
                            'e.g. %s vs %s for n_dim = 2): the gradient '
                            'w.r.t. the population parameters has the wrong '
                            'length' % (
                                ', '.join(str(a.size) for a in dth.axes),
                                pp, P, w, pp.subs(wit), P.subs(wit)),
                            engine=ENG)
        # parameter layout: reshape of the flat vector vs. default names
        names = inv.get('self._parameter_names')
        sites = {}
        if isinstance(names, Arr) and names.ndim == 1:
            sites['default names (__init__)'] = (names.axes[0].nest, init)
        k, sfn = repo.resolve(cls, 'set_parameter_names')
        if sfn is not None:
            e2 = dict(inv)
            e2['names'] = None
            lf = ShapeLifter(repo, cls, flags={'names is None': True})
            try:
                lf.run(sfn, e2)
                # the walker stores attribute assignments in its own env copy
                e3 = dict(inv)
                e3['names'] = None
                lf._block(sfn.body, e3, sfn, 0, cls)
                v = e3.get('self._parameter_names')
                if isinstance(v, Arr) and v.ndim == 1 and v is not names:
                    sites['reset names (set_parameter_names(None))'] = (
                        v.axes[0].nest, sfn)
            except Exception:
                pass
        for m in ('compute_sensitivities', 'compute_log_likelihood',
                  'sample', 'compute_individual_parameters'):
            k, mfn = repo.resolve(cls, m)
            if mfn is None or k == 'PopulationModel':
                continue
            env = dict(inv)
            env.update({
                'parameters': Arr([Ax(P, (('?theta', P),))]),
                'observations': Arr([Ax(R_OBS), Ax(N_DIM)]),
                'eta': Arr([Ax(R_OBS), Ax(N_DIM)]),
                'dlogp_dpsi': None, 'n_samples': sym('n_samples'),
                'seed': Opaque('seed'), 'return_eta': False,
                'reduce': Opaque('flag'), 'flattened': Opaque('flag')})
            lf = ShapeLifter(repo, cls, flags={
                'self._centered': False, 'dlogp_dpsi is None': True,
                'return_eta': False, 'n_samples is None': False})
            lf.terminal = '_shape'
            try:
                lf.run(mfn, env)
            except Exception:
                continue
            if '?theta' in lf.defined:
                sites['reshape of the flat vector in %s' % m] = (
                    lf.defined['?theta'], mfn)
        # moment helper: (n_param_per_dim, n_dim)
        k, gfn = repo.resolve(cls, 'get_mean_and_std')
        if gfn is not None:
            env = dict(inv)
            env['parameters'] = Arr([Ax(P, (('?theta', P),))])
            lf = ShapeLifter(repo, cls)
            try:
                val = lf.run(gfn, env)
            except Exception:
                val = None
            if isinstance(val, Arr) and val.ndim == 2:
                tot = sp.expand(val.axes[0].size * val.axes[1].size)
                where = repo.loc(gfn, cls, gfn.name)
                if eq(tot, P):
                    ctx.ok(rule, where, '%s.get_mean_and_std' % cls,
                           'output has shape (%s, %s): one row per '
                           'parameter kind' % (val.axes[0].size,
                                               val.axes[1].size),
                           engine=ENG)
                else:
                    ctx.violation(
                        rule, where, '%s.get_mean_and_std' % cls,
                        'moments shape',
                        'the returned array has shape (%s, %s) = %s entries '
                        'but the model has n_parameters = %s (mean and std '
                        'per dimension): rows beyond the second are '
                        'uninitialised for n_dim >= 2' % (
                            val.axes[0].size, val.axes[1].size, tot, P),
                        engine=ENG)
        ref = None
        for what, (nest, f) in sites.items():
            if ref is None:
                ref = (what, nest)
                continue
            where = repo.loc(f, cls, f.name)
            if nest_eq(nest, ref[1]):
                ctx.ok(rule, where, '%s layout' % cls,
                       '%s uses the layout (%s) of the %s' % (
                           what, nest_str(nest), ref[0]), engine=ENG)
            else:
                ctx.violation(
                    rule, where, '%s layout' % cls, 'layout ' + what,
                    'the %s lays the flat parameter vector out as (%s) but '
                    'the %s as (%s): name k does not describe entry k' % (
                        what, nest_str(nest), ref[0], nest_str(ref[1])),
                    engine=ENG)
        # (names as a list value)
        if isinstance(names, Arr) and names.ndim == 1:
            if eq(names.axes[0].size, P):
                ctx.ok(rule, repo.loc(init, cls, '__init__'),
                       '%s names' % cls,
                       'default names list has n_parameters = %s entries, '
                       'laid out (%s)' % (P, nest_str(names.axes[0].nest)),
                       engine=ENG)
            else:
                ctx.violation(
                    rule, repo.loc(init, cls, '__init__'), '%s names' % cls,
                    'names length',
                    'default parameter names have %s entries but '
                    'n_parameters = %s' % (names.axes[0].size, P),
                    engine=ENG)
    ctx.floor(rule, 20)
