"""Engine E / rules R16.* — RNG-stream provenance.

Abstract value of a seed-like variable: subset of {NONE, INT, GEN}.
Per function with a `seed` parameter, a syntax-directed walk forks on
`seed is (not) None`, `isinstance(seed, np.random.Generator)` and joins
otherwise.

R16.1  every draw from the global numpy stream is dominated (on the paths where
       the seed is not None) by `np.random.seed(<seed-derived>)`.
R16.2  a value that may still be an integer seed is not handed to more than
       one stochastic callee execution (several sites, or one site in a loop
       without a per-iteration redefinition).
R16.3  a value that may be a Generator is not passed to np.random.seed or used
       in arithmetic (Generator admitted by the docstring or passed by a chi
       caller).
R16.4  generators are constructed per call (never stored on self / module).
R16.5  every stochastic chi callee inside a seeded function receives a
       seed-derived value; every default_rng() in a seeded function is built
       from a seed-derived value.
"""
import ast

from ..loader import U, norm_stmt
from ..types import Types

ALL = frozenset({'NONE', 'INT', 'GEN'})
GLOBAL_DRAWS = {'choice', 'normal', 'uniform', 'rand', 'randn', 'randint',
                'random', 'lognormal', 'permutation', 'shuffle', 'sample',
                'random_sample', 'multivariate_normal', 'exponential',
                'gamma', 'beta', 'binomial', 'poisson', 'standard_normal'}
STOCHASTIC_METHODS = {'sample', 'sample_initial_parameters'}


def _is_global_draw(call):
    f = U(call.func)
    if f.startswith('np.random.') and f.split('.')[-1] in GLOBAL_DRAWS:
        return 'numpy global stream `%s`' % f
    if f.startswith('numpy.random.') and f.split('.')[-1] in GLOBAL_DRAWS:
        return 'numpy global stream `%s`' % f
    if isinstance(call.func, ast.Attribute) and call.func.attr == 'rvs':
        if not any(k.arg == 'random_state' for k in call.keywords):
            return 'scipy `%s` without random_state' % f
    if isinstance(call.func, ast.Attribute) and call.func.attr == 'sample' \
            and 'prior' in U(call.func.value):
        return 'pints prior `%s` (draws from the numpy global stream)' % f
    return None


def _is_generator_draw(call, st):
    """rng.<draw>(...) on a variable known to be a Generator."""
    if isinstance(call.func, ast.Attribute) and isinstance(
            call.func.value, ast.Name):
        v = st['vars'].get(call.func.value.id)
        if v is not None and v == frozenset({'GEN'}):
            return True
    return False


class FnAnalysis:
    def __init__(self, repo, T, rel, cls, fn, gen_admitted):
        self.repo, self.T = repo, T
        self.rel, self.cls, self.fn = rel, cls, fn
        self.gen_admitted = gen_admitted
        self.reports = []       # (rule, node, key, msg)
        self.oks = []           # (rule, node, what)
        self.fan = {}           # (var, version) -> [(node, inloop)]

    _dropped = None

    def run(self):
        self._dropped = set()
        return self._run()

    def _run(self):
        init = ALL if self.gen_admitted else frozenset({'NONE', 'INT'})
        st = dict(vars={'seed': init}, ver={'seed': 0}, globseed=False,
                  derived={'seed'}, loop=0, loopdef=set())
        self.walk(self.fn.body, st)
        for (var, ver), sites in self.fan.items():
            execs = sum(2 if inl else 1 for _, inl in sites)
            if execs > 1:
                node = sites[0][0]
                self.reports.append((
                    'R16.2', node, 'fanout %s' % var,
                    'the possibly-integer seed `%s` reaches %s — an integer '
                    'seed restarts the same stream in every callee, so their '
                    'draws are identical instead of independent' % (
                        var, 'a stochastic callee inside a loop without '
                        'being redefined per iteration' if any(
                            i for _, i in sites) else
                        '%d stochastic call sites' % len(sites))))
            else:
                self.oks.append(('R16.2', sites[0][0],
                                 'seed `%s` reaches one stochastic callee '
                                 'execution' % var))
        return self

    # -- helpers ---------------------------------------------------------------
    def val(self, expr, st):
        if isinstance(expr, ast.Name) and expr.id in st['vars']:
            return st['vars'][expr.id]
        if isinstance(expr, ast.Constant) and expr.value is None:
            return frozenset({'NONE'})
        return None

    def is_derived(self, expr, st):
        return any(isinstance(n, ast.Name) and n.id in st['derived']
                   for n in ast.walk(expr))

    def join(self, a, b, base):
        out = dict(base)
        out['vars'] = {}
        for k in set(a['vars']) | set(b['vars']):
            va, vb = a['vars'].get(k), b['vars'].get(k)
            if va is None or vb is None:
                out['vars'][k] = va or vb
            else:
                out['vars'][k] = va | vb
        out['ver'] = {k: max(a['ver'].get(k, 0), b['ver'].get(k, 0))
                      for k in set(a['ver']) | set(b['ver'])}
        out['globseed'] = a['globseed'] and b['globseed']
        out['derived'] = a['derived'] | b['derived']
        out['loopdef'] = a['loopdef'] | b['loopdef']
        return out

    def fork(self, st):
        c = dict(st)
        c['vars'] = dict(st['vars'])
        c['ver'] = dict(st['ver'])
        c['derived'] = set(st['derived'])
        c['loopdef'] = set(st['loopdef'])
        return c

    def refine(self, test, st):
        """-> (state if true, state if false, none_test_var or None)"""
        a, b = self.fork(st), self.fork(st)
        t = test
        neg = False
        if isinstance(t, ast.UnaryOp) and isinstance(t.op, ast.Not):
            neg, t = True, t.operand
        if isinstance(t, ast.Name) and t.id in st.get('alias', {}):
            expr, var, ver = st['alias'][t.id]
            if st['ver'].get(var, 0) == ver:
                # a local holding `seed is not None` etc., still current
                t = expr
                if isinstance(t, ast.UnaryOp) and isinstance(t.op, ast.Not):
                    neg, t = (not neg), t.operand
        none_var = None
        if isinstance(t, ast.Compare) and len(t.ops) == 1 and isinstance(
                t.left, ast.Name) and t.left.id in st['vars'] \
                and isinstance(t.comparators[0], ast.Constant) \
                and t.comparators[0].value is None:
            v = t.left.id
            cur = st['vars'][v]
            is_not = isinstance(t.ops[0], (ast.IsNot, ast.NotEq))
            yes, no = cur - {'NONE'}, cur & {'NONE'}
            if not is_not:
                yes, no = no, yes
            if neg:
                yes, no = no, yes
            a['vars'][v], b['vars'][v] = yes, no
            none_var = v
        elif isinstance(t, ast.Call) and U(t.func) == 'isinstance' \
                and len(t.args) == 2 and isinstance(t.args[0], ast.Name) \
                and t.args[0].id in st['vars'] \
                and 'Generator' in U(t.args[1]):
            v = t.args[0].id
            cur = st['vars'][v]
            yes, no = cur & {'GEN'}, cur - {'GEN'}
            if neg:
                yes, no = no, yes
            a['vars'][v], b['vars'][v] = yes, no
        elif isinstance(t, ast.Call) and U(t.func) == 'isinstance' \
                and len(t.args) == 2 and isinstance(t.args[0], ast.Name) \
                and t.args[0].id in st['vars'] and any(
                    U(x) in ('int', 'np.integer', 'numbers.Integral',
                             'np.int64', 'np.int32')
                    for x in ast.walk(t.args[1])):
            v = t.args[0].id
            cur = st['vars'][v]
            # `isinstance(x, int)` alone is false for numpy integers: the
            # other arm can still hold an integer seed
            only_builtin = not any(
                U(x) in ('np.integer', 'numbers.Integral', 'np.int64',
                         'np.int32') for x in ast.walk(t.args[1]))
            yes, no = cur & {'INT'}, (cur if only_builtin
                                      else cur - {'INT'})
            if neg:
                yes, no = no, yes
            a['vars'][v], b['vars'][v] = yes, no
        elif isinstance(t, ast.Name) and t.id in st['vars']:
            # truthiness: `if seed:` — None is falsy
            v = t.id
            cur = st['vars'][v]
            yes, no = cur - {'NONE'}, cur
            if neg:
                yes, no = no, yes
            a['vars'][v], b['vars'][v] = yes, no
        return a, b, none_var

    def feasible(self, st):
        return all(len(v) > 0 for v in st['vars'].values())

    # -- the walk ---------------------------------------------------------------
    def walk(self, stmts, st):
        for s in stmts:
            if isinstance(s, ast.If):
                a, b, none_var = self.refine(s.test, st)
                self.scan_expr(s.test, st)
                fa, fb = self.feasible(a), self.feasible(b)
                if fa:
                    self.walk(s.body, a)
                if fb:
                    self.walk(s.orelse, b)
                if fa and fb:
                    new = self.join(a, b, st)
                    # the None path needs no reproducibility guarantee
                    if none_var == 'seed' or (
                            none_var and none_var in st['derived']):
                        nn = a if 'NONE' not in a['vars'][none_var] else b
                        new['globseed'] = nn['globseed']
                elif fa:
                    new = a
                elif fb:
                    new = b
                else:
                    new = st
                st.clear()
                st.update(new)
                continue
            if isinstance(s, (ast.For, ast.While)):
                if isinstance(s, ast.For):
                    self.scan_expr(s.iter, st)
                st['loop'] += 1
                saved = st['loopdef']
                st['loopdef'] = set()
                # names (re)defined in the loop body from the loop variable
                loopvars = {n.id for n in ast.walk(s.target)
                            if isinstance(n, ast.Name)} \
                    if isinstance(s, ast.For) else set()
                st['loopvars'] = st.get('loopvars', set()) | loopvars
                # two passes so that redefinitions later in the body are seen
                self.prepass_loopdefs(s.body, st)
                self.walk(s.body, st)
                st['loop'] -= 1
                st['loopdef'] = saved
                self.walk(s.orelse, st)
                continue
            if isinstance(s, (ast.With, ast.Try)):
                self.walk(s.body, st)
                for h in getattr(s, 'handlers', []):
                    self.walk(h.body, st)
                self.walk(getattr(s, 'finalbody', []), st)
                continue
            if isinstance(s, (ast.FunctionDef, ast.ClassDef)):
                continue
            self.scan_stmt(s, st)

    def prepass_loopdefs(self, body, st):
        for n in body:
            for a in ast.walk(n):
                if isinstance(a, ast.Assign) and len(a.targets) == 1 \
                        and isinstance(a.targets[0], ast.Name):
                    names = {x.id for x in ast.walk(a.value)
                             if isinstance(x, ast.Name)}
                    if names & st.get('loopvars', set()):
                        st['loopdef'].add(a.targets[0].id)

    def scan_stmt(self, s, st):
        for n in ast.walk(s):
            if isinstance(n, ast.Call):
                self.scan_call(n, st)
        # arithmetic on a possible Generator
        for n in ast.walk(s):
            if isinstance(n, (ast.BinOp,)):
                for side in (n.left, n.right):
                    v = self.val(side, st)
                    if v is not None and 'GEN' in v and (
                            self.gen_admitted):
                        self.reports.append((
                            'R16.3', n, 'arith %s' % U(side),
                            'arithmetic `%s` on `%s`, which may be a '
                            'numpy Generator (admitted as seed) — raises '
                            'TypeError' % (norm_stmt(n), U(side))))
            if isinstance(n, ast.AugAssign) and isinstance(
                    n.target, ast.Name):
                v = st['vars'].get(n.target.id)
                if v is not None and 'GEN' in v and self.gen_admitted:
                    self.reports.append((
                        'R16.3', n, 'arith %s' % n.target.id,
                        'augmented arithmetic `%s` on `%s`, which may be a '
                        'numpy Generator (admitted as seed)' % (
                            norm_stmt(n), n.target.id)))
        # assignments
        if isinstance(s, ast.Assign) and len(s.targets) == 1 and isinstance(
                s.targets[0], ast.Name):
            self.assign(s.targets[0].id, s.value, st)
        elif isinstance(s, ast.AugAssign) and isinstance(
                s.target, ast.Name) and s.target.id in st['vars']:
            v = st['vars'][s.target.id]
            st['vars'][s.target.id] = frozenset(
                x for x in v if x != 'GEN') or frozenset({'INT'})
            st['ver'][s.target.id] = st['ver'].get(s.target.id, 0) + 1

    def scan_expr(self, e, st):
        for n in ast.walk(e):
            if isinstance(n, ast.Call):
                self.scan_call(n, st)

    def abstract(self, v, st):
        """-> (abstract seed value or None, derived from the seed?)"""
        if isinstance(v, ast.IfExp):
            a, b, _ = self.refine(v.test, st)
            va, da = self.abstract(v.body, a) if self.feasible(a) \
                else (frozenset(), False)
            vb, db = self.abstract(v.orelse, b) if self.feasible(b) \
                else (frozenset(), False)
            # an arm that answers None although the seed may still be an
            # integer or a Generator on that arm forgets the seed
            for arm, stt in ((v.body, a), (v.orelse, b)):
                if isinstance(arm, ast.Constant) and arm.value is None \
                        and self.feasible(stt):
                    for nm in {x.id for x in ast.walk(v.test)
                               if isinstance(x, ast.Name)}:
                        cur = stt['vars'].get(nm)
                        if cur and nm in stt['derived'] and (
                                cur - {'NONE'}) and ('GEN' not in cur
                                                     or self.gen_admitted):
                            key = (id(v), nm)
                            if key not in self._dropped:
                                self._dropped.add(key)
                                self.reports.append((
                                    'R16.5', v, 'seed dropped %s' % nm,
                                    '`%s` replaces the seed by None on an '
                                    'arm where `%s` may still be %s: the '
                                    'draws that follow are not determined '
                                    'by the seed (and a Generator handed in '
                                    'is neither used nor advanced)' % (
                                        U(v)[:60], nm, ' / '.join(sorted(
                                            cur - {'NONE'})))))
            if va is None or vb is None:
                return None, da or db
            return va | vb, da or db
        if isinstance(v, ast.Constant) and v.value is None:
            return frozenset({'NONE'}), False
        if isinstance(v, ast.Call) and U(v.func) in (
                'np.random.default_rng', 'numpy.random.default_rng'):
            return frozenset({'GEN'}), self.is_derived(v, st)
        if isinstance(v, ast.Name) and v.id in st['vars']:
            return st['vars'][v.id], v.id in st['derived']
        if isinstance(v, ast.Call) and isinstance(
                v.func, ast.Attribute) and v.func.attr in (
                'integers', 'randint') and self.is_derived(v.func.value, st):
            return frozenset({'INT'}), True
        if isinstance(v, ast.Call) and isinstance(v.func, ast.Name) \
                and v.func.id == 'int' and v.args:
            inner = v.args[0]
            if isinstance(inner, ast.Call) and isinstance(
                    inner.func, ast.Attribute) and inner.func.attr in (
                    'integers', 'randint') and self.is_derived(
                        inner.func.value, st):
                return frozenset({'INT'}), True
            if self.is_derived(inner, st):
                return frozenset({'INT'}), True
            return None, False
        if isinstance(v, (ast.BinOp,)) and self.is_derived(v, st):
            return frozenset({'INT'}), True
        return None, self.is_derived(v, st)

    def assign(self, tgt, value, st):
        v = value
        # boolean alias of a None-test / isinstance test on a tracked value
        st.setdefault('alias', {})
        st['alias'] = dict(st['alias'])
        st['alias'].pop(tgt, None)
        probe = v
        if isinstance(probe, ast.UnaryOp) and isinstance(probe.op, ast.Not):
            probe = probe.operand
        tracked = None
        if isinstance(probe, ast.Compare) and isinstance(
                probe.left, ast.Name) and probe.left.id in st['vars'] \
                and len(probe.ops) == 1 and isinstance(
                probe.comparators[0], ast.Constant) \
                and probe.comparators[0].value is None:
            tracked = probe.left.id
        if isinstance(probe, ast.Call) and U(probe.func) == 'isinstance' \
                and probe.args and isinstance(probe.args[0], ast.Name) \
                and probe.args[0].id in st['vars']:
            tracked = probe.args[0].id
        if tracked is not None:
            st['alias'][tgt] = (v, tracked, st['ver'].get(tracked, 0))
            return
        new, derived = self.abstract(v, st)
        if new is None:
            if tgt in st['vars']:
                # rebinding to something unknown
                if derived:
                    new = ALL
                else:
                    st['vars'].pop(tgt, None)
                    st['derived'].discard(tgt)
                    return
            else:
                return
        if derived:
            st['derived'].add(tgt)
        st['vars'][tgt] = new
        st['ver'][tgt] = st['ver'].get(tgt, 0) + 1

    def scan_call(self, n, st):
        f = U(n.func)
        if f in ('np.random.seed', 'numpy.random.seed'):
            arg = n.args[0] if n.args else None
            v = self.val(arg, st) if arg is not None else None
            if v is not None and 'GEN' in v and self.gen_admitted:
                self.reports.append((
                    'R16.3', n, 'np.random.seed %s' % U(arg),
                    '`np.random.seed(%s)` where `%s` may be a numpy '
                    'Generator (admitted as seed) — raises TypeError' % (
                        U(arg), U(arg))))
            elif v is not None:
                self.oks.append(('R16.3', n, 'np.random.seed(%s) receives '
                                 '%s only' % (U(arg), sorted(v))))
            if arg is not None and self.is_derived(arg, st):
                st['globseed'] = True
            return
        if f in ('int', 'float', 'abs', 'round', 'np.int64', 'np.uint32',
                 'np.int32', 'operator.index') and len(n.args) == 1 \
                and isinstance(n.args[0], ast.Name):
            v = self.val(n.args[0], st)
            if v is not None and 'GEN' in v and self.gen_admitted:
                self.reports.append((
                    'R16.3', n, 'conversion %s' % f,
                    '`%s` where `%s` may be a numpy Generator (admitted as '
                    'seed) — raises TypeError, so a seeded call that hands '
                    'its generator on fails here' % (
                        norm_stmt(n)[:60], n.args[0].id)))
            return
        if f in ('np.random.default_rng', 'numpy.random.default_rng'):
            args = list(n.args) + [k.value for k in n.keywords]
            for a in args:
                if isinstance(a, ast.IfExp):
                    self.abstract(a, st)
            if not args or not any(self.is_derived(a, st) for a in args):
                self.reports.append((
                    'R16.5', n, 'default_rng unseeded',
                    '`%s` inside a function that takes `seed` is not built '
                    'from the seed: draws from it are not reproducible' % (
                        norm_stmt(n))))
            else:
                self.oks.append(('R16.5', n, 'generator built from the '
                                 'seed'))
            # an integer seed that builds a local generator *and* reaches a
            # stochastic callee restarts the same stream twice
            for a in args:
                v = self.val(a, st)
                if v is not None and 'INT' in v and isinstance(a, ast.Name):
                    name = a.id
                    inloop = st['loop'] > 0 and name not in st['loopdef']
                    key = (name, st['ver'].get(name, 0)
                           if name not in st['loopdef'] else id(n))
                    self.fan.setdefault(key, []).append((n, inloop))
            return
        if f in ('copy.deepcopy', 'copy.copy') and n.args:
            v = self.val(n.args[0], st)
            if v is not None and 'GEN' in v and (
                    self.gen_admitted or v == frozenset({'GEN'})) \
                    and self.is_derived(n.args[0], st):
                self.reports.append((
                    'R16.2', n, 'generator copied %s' % U(n.args[0]),
                    '`%s` copies a value that may be a numpy Generator: the '
                    'draws are taken from the copy and the generator the '
                    'caller handed in is not advanced, so the next consumer '
                    'of the same generator restarts the same stream' % (
                        norm_stmt(n)[:60])))
            return
        g = _is_global_draw(n)
        if g:
            if st['globseed']:
                self.oks.append(('R16.1', n, g + ' after np.random.seed('
                                 'seed-derived)'))
            else:
                self.reports.append((
                    'R16.1', n, 'global draw %s' % f,
                    '%s is drawn in a function that takes `seed` without a '
                    'dominating `np.random.seed(<seed>)`: the result depends '
                    'on the global generator state, not on the seed' % g))
            return
        # stochastic chi callee
        if isinstance(n.func, ast.Attribute) and n.func.attr in \
                STOCHASTIC_METHODS:
            t = self.T.type_of(n.func.value, self.cls, self.fn)
            if t is None or t[0] == 'list':
                return
            seed_expr = self.seed_argument(n, t)
            if seed_expr is None:
                self.reports.append((
                    'R16.5', n, 'callee unseeded %s' % n.func.attr,
                    'stochastic callee `%s` receives no seed although the '
                    'enclosing function takes one' % norm_stmt(n)[:80]))
                return
            if not self.is_derived(seed_expr, st):
                self.reports.append((
                    'R16.5', n, 'callee seed not derived %s' % n.func.attr,
                    'stochastic callee `%s` is seeded with `%s`, which does '
                    'not derive from the seed parameter' % (
                        norm_stmt(n)[:60], U(seed_expr))))
                return
            self.oks.append(('R16.5', n, 'callee `%s` receives seed-derived '
                             '`%s`' % (n.func.attr, U(seed_expr))))
            v = self.val(seed_expr, st)
            if v is not None and 'INT' in v and isinstance(
                    seed_expr, ast.Name):
                name = seed_expr.id
                inloop = st['loop'] > 0 and name not in st['loopdef']
                key = (name, st['ver'].get(name, 0)
                       if name not in st['loopdef'] else id(n))
                self.fan.setdefault(key, []).append((n, inloop))
            elif v is not None:
                self.oks.append(('R16.2', n, 'callee receives `%s` in %s' % (
                    U(seed_expr), sorted(v))))

    def seed_argument(self, call, t):
        for k in call.keywords:
            if k.arg == 'seed':
                return k.value
        # positional: position of `seed` in the callee signature(s)
        for K in self.T.candidates(t):
            kk, d = self.repo.resolve(K, call.func.attr)
            if d is None:
                continue
            params = [a.arg for a in d.args.args][1:]
            if 'seed' in params:
                i = params.index('seed')
                pos = [a for a in call.args if not isinstance(a, ast.Starred)]
                if i < len(pos):
                    return pos[i]
        return None


def _gen_passed_by_chi(repo, T):
    """Method names that some chi call site seeds with a Generator-typed
    value (`seed=rng` with rng = default_rng(...)) -> must admit GEN."""
    out = set()
    for rel, cls, fn in repo.all_functions():
        gens = set()
        for n in ast.walk(fn):
            if isinstance(n, ast.Assign) and len(n.targets) == 1 and \
                    isinstance(n.targets[0], ast.Name) and isinstance(
                        n.value, ast.Call) and U(n.value.func).endswith(
                        'random.default_rng'):
                gens.add(n.targets[0].id)
        if not gens:
            continue
        for n in ast.walk(fn):
            if isinstance(n, ast.Call) and isinstance(n.func, ast.Attribute) \
                    and n.func.attr in STOCHASTIC_METHODS:
                args = [k.value for k in n.keywords if k.arg == 'seed'] + \
                    list(n.args)
                if any(isinstance(a, ast.Name) and a.id in gens
                       for a in args):
                    t = T.type_of(n.func.value, cls, fn)
                    if t and t[0] != 'list':
                        for K in T.candidates(t):
                            kk, d = repo.resolve(K, n.func.attr)
                            if d is not None:
                                out.add((kk, n.func.attr))
    return out


def analyse_all(repo):
    T = Types(repo)
    passed = _gen_passed_by_chi(repo, T)
    out = []
    for rel, cls, fn in repo.all_functions():
        if rel.startswith(('chi/plots', 'chi/library')):
            continue
        params = [a.arg for a in fn.args.args]
        if 'seed' not in params or repo.is_abstract(fn):
            continue
        if fn.name == '__init__':
            continue
        doc = ast.get_docstring(fn) or ''
        admitted = 'Generator' in doc or (cls, fn.name) in passed
        out.append(FnAnalysis(repo, T, rel, cls, fn, admitted).run())
    return out


def _emit(ctx, repo, analyses, rule):
    for a in analyses:
        construct = '%s.%s' % (a.cls, a.fn.name) if a.cls else a.fn.name
        seen = set()
        for r, node, key, msg in a.reports:
            if r != rule or key in seen:
                continue
            seen.add(key)
            ctx.violation(rule, repo.loc(node, a.cls, a.fn.name), construct,
                          key, msg, engine='rng-provenance')
        for r, node, what in a.oks:
            if r == rule:
                ctx.ok(rule, repo.loc(node, a.cls, a.fn.name), construct,
                       what, engine='rng-provenance')


def r16_1(ctx, repo):
    an = analyse_all(repo)
    _emit(ctx, repo, an, 'R16.1')
    ctx.floor('R16.1', 4)


def r16_2(ctx, repo):
    an = analyse_all(repo)
    _emit(ctx, repo, an, 'R16.2')
    ctx.floor('R16.2', 5)


def r16_3(ctx, repo):
    an = analyse_all(repo)
    _emit(ctx, repo, an, 'R16.3')
    ctx.floor('R16.3', 3)


def r16_5(ctx, repo):
    an = analyse_all(repo)
    _emit(ctx, repo, an, 'R16.5')
    ctx.floor('R16.5', 20)


def r16_7(ctx, repo):
    """A class that keeps the seed it was constructed with hands it to every
    stochastic call it makes (siblings: the constructor does; a
    re-initialisation that does not draws unreproducible values)."""
    rule = 'R16.7'
    n = 0
    for cname, c in sorted(repo.classes.items()):
        seed_fields = set()
        for mname, fn in c.methods.items():
            params = {a.arg for a in fn.args.args + fn.args.kwonlyargs}
            for a in ast.walk(fn):
                if isinstance(a, ast.Assign) and len(a.targets) == 1 \
                        and isinstance(a.targets[0], ast.Attribute) \
                        and U(a.targets[0].value) == 'self' \
                        and isinstance(a.value, ast.Name) \
                        and a.value.id in params and 'seed' in a.value.id:
                    seed_fields.add('self.' + a.targets[0].attr)
        if not seed_fields:
            continue
        for k in [cname] + repo.subclasses(cname, strict=True):
            for mname, fn in sorted(repo.cls(k).methods.items()):
                for call in ast.walk(fn):
                    if not (isinstance(call, ast.Call) and isinstance(
                            call.func, ast.Attribute)
                            and call.func.attr in STOCHASTIC_METHODS
                            and U(call.func.value) != 'self'):
                        continue
                    construct = '%s.%s' % (k, mname)
                    where = repo.loc(call, k, mname)
                    n += 1
                    args = list(call.args) + [kw.value
                                              for kw in call.keywords]
                    local_seed = {a.arg for a in fn.args.args
                                  if 'seed' in a.arg}
                    if any(U(x) in seed_fields or (isinstance(x, ast.Name)
                                                   and x.id in local_seed)
                           for a in args for x in ast.walk(a)):
                        ctx.ok(rule, where, construct,
                               '`%s` receives the stored seed' % U(
                                   call.func))
                    else:
                        ctx.violation(
                            rule, where, construct,
                            'stored seed not used %s' % call.func.attr,
                            '%s keeps the seed it was built with (%s) but '
                            '`%s(..)` is called without it: the values drawn '
                            'here do not depend on the seed (and the global '
                            'stream is re-seeded from entropy)' % (
                                cname, ', '.join(sorted(seed_fields)),
                                U(call.func)))
    ctx.floor(rule, 1)


def r16_4(ctx, repo):
    """Generators are built per call: never at module/class level and never
    stored on self."""
    rule = 'R16.4'
    n = 0
    for rel, tree in repo.trees.items():
        if rel.startswith(('chi/plots', 'chi/library')):
            continue
        repo.consulted.add(rel)
        for node in ast.walk(tree):
            if isinstance(node, ast.Call) and U(node.func).endswith(
                    'random.default_rng'):
                n += 1
                # enclosing function?
                cur = node
                fn = None
                stmt = None
                while not isinstance(cur, ast.Module):
                    if isinstance(cur, ast.stmt) and stmt is None:
                        stmt = cur
                    if isinstance(cur, ast.FunctionDef):
                        fn = cur
                        break
                    cur = cur._parent
                construct = fn.name if fn else '<module>'
                stored = isinstance(stmt, ast.Assign) and any(
                    isinstance(t, ast.Attribute) for t in stmt.targets)
                if fn is None or stored:
                    ctx.violation(
                        rule, repo.loc(node), construct,
                        'shared generator',
                        'generator `%s` is created %s: successive calls '
                        'share one stream, so equal seeds no longer give '
                        'equal results' % (
                            norm_stmt(stmt), 'at import time' if fn is None
                            else 'once and stored on the instance'))
                else:
                    ctx.ok(rule, repo.loc(node), construct,
                           'generator constructed per call')
    ctx.floor(rule, 10)


FIXTURE = '''
def sample(self, parameters, seed=None):
    draws = np.random.choice([1, 2, 3])
    for m in self._models:
        x = m.sample(parameters, seed=seed)
    return draws
'''
