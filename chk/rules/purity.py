"""C19 rules: effects of evaluations (engine D).

R19.1 effect whitelist: the fields an evaluation method writes (transitively
      through self-calls) are limited to the solver handle, the sensitivity
      flag and the scatter buffer of fixed parameters; evaluations call no
      configuration mutator on their sub-models except the sensitivity
      switch.
R19.2 no write-through on arguments: a public method does not modify an
      array / list / frame that still aliases one of its arguments.
"""
import ast

from ..loader import U, norm_stmt
from ..types import Types
from ..effects import Effects, _self_field, MUTATING

EVAL_NAMES = ('__call__', 'evaluateS1', 'compute_log_likelihood',
              'compute_pointwise_ll', 'compute_sensitivities',
              'compute_individual_parameters', 'compute_population_parameters',
              'sample', 'simulate', 'get_mean_and_std')
WHITELIST = {'self._simulator', 'self._has_sensitivities',
             'self._fixed_params_values'}
SKIP = ('chi/plots', 'chi/library', 'chi/_inference.py')


def r19_1(ctx, repo):
    rule = 'R19.1'
    T = Types(repo)
    E = Effects(repo)
    n = 0
    for cname, c in sorted(repo.classes.items()):
        if c.relpath.startswith(SKIP):
            continue
        for m in EVAL_NAMES:
            k, fn = repo.resolve(cname, m)
            if fn is None or repo.is_abstract(fn) or k != cname:
                continue
            n += 1
            w, r, fc = E.summary(cname, m)
            construct = '%s.%s' % (cname, m)
            where = repo.loc(fn, cname, m)
            bad = sorted(f for f in w if f not in WHITELIST)
            if bad:
                ctx.violation(
                    rule, where, construct, 'writes ' + ','.join(bad),
                    'the evaluation method writes %s: repeating the call, or '
                    'interleaving it with other evaluations, can then give a '
                    'different result' % ', '.join(bad))
            else:
                ctx.ok(rule, where, construct,
                       'writes only %s' % (', '.join(sorted(w)) or 'nothing'))
            for f, name, call in fc:
                if name.startswith(('set_', 'fix_')) and T.field(
                        cname, f) is not None:
                    ctx.violation(
                        rule, repo.loc(call, cname, m), construct,
                        'reconfigures %s.%s' % (f, name),
                        'the evaluation calls the configuration method '
                        '`%s` on its sub-model `%s`' % (name, f))
    if n < 40:
        ctx.error(rule, 'only %d evaluation methods found (floor 40)' % n)


FRESH_FUNCS = {'np.array', 'np.copy', 'list', 'dict', 'copy.copy',
               'copy.deepcopy', 'np.zeros', 'np.empty', 'np.ones', 'np.full',
               'np.hstack', 'np.vstack', 'np.concatenate', 'np.sort',
               'sorted', 'np.unique', 'np.broadcast_to', 'np.log', 'np.exp',
               'np.sqrt', 'np.sum', 'np.mean', 'np.argsort', 'np.diagonal',
               'np.ma.array', 'pd.DataFrame', 'int', 'float', 'str', 'bool',
               'np.arange', 'len', 'tuple', 'np.zeros_like', 'np.ones_like',
               'np.empty_like', 'np.swapaxes_copy', 'pd.to_numeric',
               'pd.concat', 'np.max', 'np.min', 'np.abs', 'np.isnan'}
ALIAS_FUNCS = {'np.asarray', 'pints.vector', 'np.atleast_1d',
               'np.atleast_2d', 'np.ravel', 'np.reshape', 'np.squeeze',
               'np.swapaxes', 'np.transpose', 'np.asanyarray'}
ALIAS_METHODS = {'reshape', 'ravel', 'view', 'squeeze', 'transpose',
                 'swapaxes'}
FRESH_METHODS = {'copy', 'flatten', 'astype', 'tolist', 'to_numpy', 'dropna',
                 'unique', 'sort_values', 'reset_index', 'rename', 'filled'}
SCALAR_PARAMS = {'seed', 'n_samples', 'n_ids', 'n_dim', 'n_cov', 'label',
                 'id_key', 'time_key', 'obs_key', 'value_key', 'dose_key',
                 'n_runs', 'final_time', 'dose', 'start', 'duration',
                 'period', 'num', 'enabled', 'sigma', 'n_kernels',
                 'individual', 'observable', 'n_iterations', 'bulk_probs'}


def _aliases(expr, alias):
    """Does expr (may) alias one of the names in `alias`?  -> name or None"""
    if isinstance(expr, ast.Name):
        return expr.id if expr.id in alias else None
    if isinstance(expr, ast.Attribute) and expr.attr in ('T', 'values'):
        return _aliases(expr.value, alias)
    if isinstance(expr, ast.Subscript):
        # basic slicing / integer indexing gives a view; a boolean mask or an
        # index array gives a copy — only plain slices are treated as views
        sl = expr.slice
        elts = sl.elts if isinstance(sl, ast.Tuple) else [sl]
        if all(isinstance(e, (ast.Slice, ast.Constant)) or U(e) in (
                'np.newaxis', 'None', '...') for e in elts):
            return _aliases(expr.value, alias)
        return None
    if isinstance(expr, ast.Call):
        f = U(expr.func)
        if f in ALIAS_FUNCS and expr.args:
            return _aliases(expr.args[0], alias)
        if isinstance(expr.func, ast.Attribute) and \
                expr.func.attr in ALIAS_METHODS:
            return _aliases(expr.func.value, alias)
        return None
    if isinstance(expr, ast.IfExp):
        return _aliases(expr.body, alias) or _aliases(expr.orelse, alias)
    return None


def r19_2(ctx, repo):
    rule = 'R19.2'
    n = 0
    for rel, cls, fn in repo.all_functions():
        if rel.startswith(('chi/plots', 'chi/library')):
            continue
        if fn.name.startswith('_') and fn.name not in ('__call__',
                                                       '__init__'):
            continue
        params = [a.arg for a in fn.args.args if a.arg not in ('self',)]
        params = [p for p in params if p not in SCALAR_PARAMS]
        if not params:
            continue
        n += 1
        construct = '%s.%s' % (cls, fn.name) if cls else fn.name
        alias = {p: p for p in params}      # local name -> parameter
        findings = []

        def visit(stmts):
            for s in stmts:
                if isinstance(s, (ast.If, ast.For, ast.While, ast.With,
                                  ast.Try)):
                    if isinstance(s, ast.For):
                        # iterating an aliased container yields its elements
                        src = _aliases(s.iter, alias)
                        for x in ast.walk(s.target):
                            if isinstance(x, ast.Name):
                                alias.pop(x.id, None)
                    visit(getattr(s, 'body', []))
                    visit(getattr(s, 'orelse', []))
                    for h in getattr(s, 'handlers', []):
                        visit(h.body)
                    visit(getattr(s, 'finalbody', []))
                    continue
                # writes
                if isinstance(s, ast.Assign):
                    for t in s.targets:
                        if isinstance(t, ast.Subscript):
                            a = _aliases(t.value, alias)
                            if a:
                                findings.append((s, alias[a], 'element store'))
                    # rebinding
                    if len(s.targets) == 1 and isinstance(
                            s.targets[0], ast.Name):
                        t = s.targets[0].id
                        a = _aliases(s.value, alias)
                        if a:
                            alias[t] = alias[a]
                        else:
                            alias.pop(t, None)
                    elif len(s.targets) == 1 and isinstance(
                            s.targets[0], ast.Tuple):
                        for x in s.targets[0].elts:
                            if isinstance(x, ast.Name):
                                alias.pop(x.id, None)
                elif isinstance(s, ast.AugAssign):
                    if isinstance(s.target, ast.Name):
                        a = s.target.id if s.target.id in alias else None
                        if a:
                            findings.append((s, alias[a], 'in-place %s=' % {
                                ast.Add: '+', ast.Sub: '-', ast.Mult: '*',
                                ast.Div: '/'}.get(type(s.op), 'op')))
                    elif isinstance(s.target, ast.Subscript):
                        a = _aliases(s.target.value, alias)
                        if a:
                            findings.append((s, alias[a], 'element update'))
                for c in ast.walk(s):
                    if isinstance(c, ast.Call) and isinstance(
                            c.func, ast.Attribute):
                        a = _aliases(c.func.value, alias)
                        if a and (c.func.attr in MUTATING or any(
                                k.arg == 'inplace' and isinstance(
                                    k.value, ast.Constant)
                                and k.value.value is True
                                for k in c.keywords)):
                            findings.append((s, alias[a], 'mutating call .%s'
                                             % c.func.attr))
        visit(fn.body)
        where = repo.loc(fn, cls, fn.name)
        if findings:
            seen = set()
            for s, p, kind in findings:
                if (p, kind) in seen:
                    continue
                seen.add((p, kind))
                ctx.violation(
                    rule, repo.loc(s, cls, fn.name), construct,
                    'write-through %s' % p,
                    '`%s` (%s) modifies an object that still aliases the '
                    'argument `%s`: the caller\'s array / list / frame is '
                    'changed by the call' % (norm_stmt(s)[:60], kind, p))
        else:
            ctx.ok(rule, where, construct,
                   'no store through an alias of %s' % ', '.join(params[:4]))
    if n < 150:
        ctx.error(rule, 'only %d public functions analysed (floor 150)' % n)


FIXTURE = '''
def compute(self, parameters, observations):
    parameters = np.asarray(parameters)
    parameters[0] = 1.0
    return parameters
'''
