"""C19 rules: effects of evaluations (engine D).

R19.1 effect whitelist: the fields an evaluation method writes (transitively
      through self-calls) are limited to the solver handle, the sensitivity
      flag and the scatter buffer of fixed parameters; evaluations call no
      configuration mutator on their sub-models except the sensitivity
      switch.
R19.2 no write-through on arguments: a public method does not modify an
      array / list / frame that still aliases one of its arguments (private
      helpers of the class are followed).
R19.4 results are fresh: no evaluation method (nor a private helper it calls)
      returns an array / list that is, or is a view of, a field of the
      object.  A result that lives in a re-used buffer is overwritten by the
      next evaluation and by whoever adds to it in place (the hierarchical
      posterior adds the prior gradient into the gradient it was handed).
"""
import ast

from ..loader import U, norm_stmt
from ..types import Types
from ..effects import Effects, _self_field, MUTATING

EVAL_NAMES = ('__call__', 'evaluateS1', 'compute_log_likelihood',
              'compute_pointwise_ll', 'compute_sensitivities',
              'compute_individual_parameters', 'compute_population_parameters',
              'sample', 'simulate', 'get_mean_and_std')
WHITELIST = {'self._simulator', 'self._has_sensitivities',
             'self._fixed_params_values'}
SKIP = ('chi/plots', 'chi/library', 'chi/_inference.py')


def r19_1(ctx, repo):
    rule = 'R19.1'
    T = Types(repo)
    E = Effects(repo)
    n = 0
    for cname, c in sorted(repo.classes.items()):
        if c.relpath.startswith(SKIP):
            continue
        for m in EVAL_NAMES:
            k, fn = repo.resolve(cname, m)
            if fn is None or repo.is_abstract(fn) or k != cname:
                continue
            n += 1
            w, r, fc = E.summary(cname, m)
            construct = '%s.%s' % (cname, m)
            where = repo.loc(fn, cname, m)
            bad = sorted(f for f in w if f not in WHITELIST)
            if bad:
                ctx.violation(
                    rule, where, construct, 'writes ' + ','.join(bad),
                    'the evaluation method writes %s: repeating the call, or '
                    'interleaving it with other evaluations, can then give a '
                    'different result' % ', '.join(bad))
            else:
                ctx.ok(rule, where, construct,
                       'writes only %s' % (', '.join(sorted(w)) or 'nothing'))
            for f, name, call in fc:
                if name.startswith(('set_', 'fix_')) and T.field(
                        cname, f) is not None:
                    ctx.violation(
                        rule, repo.loc(call, cname, m), construct,
                        'reconfigures %s.%s' % (f, name),
                        'the evaluation calls the configuration method '
                        '`%s` on its sub-model `%s`' % (name, f))
    if n < 40:
        ctx.error(rule, 'only %d evaluation methods found (floor 40)' % n)


FRESH_FUNCS = {'np.array', 'np.copy', 'list', 'dict', 'copy.copy',
               'copy.deepcopy', 'np.zeros', 'np.empty', 'np.ones', 'np.full',
               'np.hstack', 'np.vstack', 'np.concatenate', 'np.sort',
               'sorted', 'np.unique', 'np.broadcast_to', 'np.log', 'np.exp',
               'np.sqrt', 'np.sum', 'np.mean', 'np.argsort', 'np.diagonal',
               'np.ma.array', 'pd.DataFrame', 'int', 'float', 'str', 'bool',
               'np.arange', 'len', 'tuple', 'np.zeros_like', 'np.ones_like',
               'np.empty_like', 'np.swapaxes_copy', 'pd.to_numeric',
               'pd.concat', 'np.max', 'np.min', 'np.abs', 'np.isnan'}
ALIAS_FUNCS = {'np.asarray', 'pints.vector', 'np.atleast_1d',
               'np.atleast_2d', 'np.ravel', 'np.reshape', 'np.squeeze',
               'np.swapaxes', 'np.transpose', 'np.asanyarray'}
ALIAS_METHODS = {'reshape', 'ravel', 'view', 'squeeze', 'transpose',
                 'swapaxes'}
FRESH_METHODS = {'copy', 'flatten', 'astype', 'tolist', 'to_numpy', 'dropna',
                 'unique', 'sort_values', 'reset_index', 'rename', 'filled'}
SCALAR_PARAMS = {'seed', 'n_samples', 'n_ids', 'n_dim', 'n_cov', 'label',
                 'id_key', 'time_key', 'obs_key', 'value_key', 'dose_key',
                 'n_runs', 'final_time', 'dose', 'start', 'duration',
                 'period', 'num', 'enabled', 'sigma', 'n_kernels',
                 'individual', 'observable', 'n_iterations', 'bulk_probs'}


def _aliases(expr, alias):
    """Does expr (may) alias one of the names in `alias`?  -> name or None"""
    if isinstance(expr, ast.Name):
        return expr.id if expr.id in alias else None
    if isinstance(expr, ast.Attribute) and isinstance(
            expr.value, ast.Name) and expr.value.id == 'self':
        # a field that was bound, in this function, to (a view of) an
        # argument
        k = 'self.' + expr.attr
        return k if k in alias else None
    if isinstance(expr, ast.Attribute) and expr.attr in ('T', 'values'):
        return _aliases(expr.value, alias)
    if isinstance(expr, ast.Subscript):
        # basic slicing / integer indexing gives a view; a boolean mask or an
        # index array gives a copy — only plain slices are treated as views
        sl = expr.slice
        elts = sl.elts if isinstance(sl, ast.Tuple) else [sl]
        if all(isinstance(e, (ast.Slice, ast.Constant)) or U(e) in (
                'np.newaxis', 'None', '...') for e in elts):
            return _aliases(expr.value, alias)
        return None
    if isinstance(expr, ast.Call):
        f = U(expr.func)
        if f in ALIAS_FUNCS and expr.args:
            return _aliases(expr.args[0], alias)
        if isinstance(expr.func, ast.Attribute) and \
                expr.func.attr in ALIAS_METHODS:
            return _aliases(expr.func.value, alias)
        if isinstance(expr.func, ast.Attribute) and expr.func.attr in (
                'astype', 'to_numpy') and any(
                    k.arg == 'copy' and not (isinstance(
                        k.value, ast.Constant) and k.value.value is True)
                    for k in expr.keywords):
            # astype(.., copy=False) returns the array itself when the type
            # already matches
            return _aliases(expr.func.value, alias)
        if f in ('np.array',) and expr.args and any(
                k.arg == 'copy' and isinstance(k.value, ast.Constant)
                and k.value.value is False for k in expr.keywords):
            return _aliases(expr.args[0], alias)
        return None
    if isinstance(expr, ast.IfExp):
        return _aliases(expr.body, alias) or _aliases(expr.orelse, alias)
    return None


def _writes_through(repo, cls, fn, params, depth=0, memo=None):
    """Statements of fn that modify an object which still aliases one of
    `params` (names of fn's parameters).  Calls to private helpers of the
    same class are followed (depth bound 3): handing an aliased argument to a
    helper that writes through the corresponding parameter is a write.
    -> list of (stmt, param, kind)"""
    alias = {p: p for p in params}      # local name -> parameter
    elems = set()       # names bound to the elements of an aliased container
    findings = []
    leaky = _leaky_getters(repo) if depth == 0 else {}

    def borrowed(value):
        """positions of a call result that are the callee's own fields"""
        if isinstance(value, ast.Call) and isinstance(
                value.func, ast.Attribute) and value.func.attr in leaky \
                and _self_field(value.func.value) is not None:
            return leaky[value.func.attr], '%s()' % U(value.func)
        return None, None

    def helper_writes(call):
        f = call.func
        if not (isinstance(f, ast.Attribute) and isinstance(
                f.value, ast.Name) and f.value.id == 'self' and cls
                and f.attr.startswith('_') and not f.attr.startswith('__')
                and depth < 3):
            return
        hit = [(i, _aliases(a, alias)) for i, a in enumerate(call.args)]
        hit = [(i, a) for i, a in hit if a]
        if not hit:
            return
        defs = set()
        for k in [cls] + repo.subclasses(cls, strict=True):
            d, hfn = repo.resolve(k, f.attr)
            if hfn is not None:
                defs.add((d, hfn))
        for d, hfn in sorted(defs, key=lambda x: x[0]):
            hp = [a.arg for a in hfn.args.args]
            if hp and hp[0] in ('self', 'cls'):
                hp = hp[1:]
            for i, a in hit:
                if i >= len(hp):
                    continue
                key = (d, hfn.name, hp[i])
                if memo is not None and key in memo:
                    sub = memo[key]
                else:
                    sub = _writes_through(repo, d, hfn, [hp[i]], depth + 1,
                                          memo)
                    if memo is not None:
                        memo[key] = sub
                for s2, p2, kind in sub:
                    yield alias[a], '%s in %s.%s' % (kind, d, hfn.name)

    def visit(stmts):
        for s in stmts:
            if isinstance(s, (ast.If, ast.For, ast.While, ast.With,
                              ast.Try)):
                if isinstance(s, ast.For):
                    src = _aliases(s.iter, alias)
                    it = s.iter
                    if src is None and isinstance(it, ast.Call) and U(
                            it.func) in ('enumerate', 'reversed', 'iter') \
                            and it.args:
                        src = _aliases(it.args[0], alias)
                    tg = s.target
                    if src is not None and isinstance(it, ast.Call) and U(
                            it.func) == 'enumerate' and isinstance(
                            tg, ast.Tuple) and len(tg.elts) == 2:
                        tg = tg.elts[1]
                    for x in ast.walk(s.target):
                        if isinstance(x, ast.Name):
                            alias.pop(x.id, None)
                    # the elements of an aliased list / the rows of an
                    # aliased array are the caller's objects as well
                    if src is not None and isinstance(tg, ast.Name):
                        alias[tg.id] = alias[src]
                        elems.add(tg.id)
                for c in ast.walk(getattr(s, 'test', None) or getattr(
                        s, 'iter', None) or ast.Pass()):
                    if isinstance(c, ast.Call):
                        for p, kind in helper_writes(c):
                            findings.append((s, p, kind))
                visit(getattr(s, 'body', []))
                visit(getattr(s, 'orelse', []))
                for h in getattr(s, 'handlers', []):
                    visit(h.body)
                visit(getattr(s, 'finalbody', []))
                continue
            # calls see the aliases as they are before the statement rebinds
            for c in ast.walk(s):
                if isinstance(c, ast.Call):
                    for p, kind in helper_writes(c):
                        findings.append((s, p, kind))
                if isinstance(c, ast.Call):
                    # numpy functions that write into one of their arguments
                    fname = U(c.func)
                    tgt_ = None
                    for k in c.keywords:
                        if k.arg == 'out':
                            tgt_ = k.value
                    if fname in ('np.copyto', 'np.put', 'np.place',
                                 'np.putmask', 'np.fill_diagonal',
                                 'np.put_along_axis', 'np.random.shuffle',
                                 'random.shuffle') and c.args:
                        tgt_ = c.args[0]
                    if fname in ('np.ma.fix_invalid', 'np.nan_to_num',
                                 'np.ma.masked_invalid',
                                 'np.ma.masked_where') and c.args and any(
                                     k.arg == 'copy' and isinstance(
                                         k.value, ast.Constant)
                                     and k.value.value is False
                                     for k in c.keywords):
                        tgt_ = c.args[-1] if fname == 'np.ma.masked_where' \
                            else c.args[0]
                    if tgt_ is not None:
                        a = _aliases(tgt_, alias)
                        if a and not (fname.startswith('np.ma.masked')):
                            findings.append((s, alias[a],
                                             'in-place numpy call %s'
                                             % fname))
                if isinstance(c, ast.Call) and isinstance(
                        c.func, ast.Attribute):
                    a = _aliases(c.func.value, alias)
                    if a and (c.func.attr in MUTATING or any(
                            k.arg == 'inplace' and isinstance(
                                k.value, ast.Constant)
                            and k.value.value is True
                            for k in c.keywords)):
                        findings.append((s, alias[a], 'mutating call .%s'
                                         % c.func.attr))
                    elif a and isinstance(c.func.value, ast.Name) \
                            and c.func.attr.startswith(
                                ('set_', 'fix_', 'enable_')) \
                            and not alias[a].startswith('the result'):
                        # the caller's model is reconfigured (the copy that
                        # is kept is taken later, or not at all)
                        findings.append((s, alias[a],
                                         'configuration call .%s'
                                         % c.func.attr))
            # writes
            if isinstance(s, ast.Assign):
                for t in s.targets:
                    if isinstance(t, ast.Subscript):
                        a = _aliases(t.value, alias)
                        if a:
                            findings.append((s, alias[a], 'element store'))
                    if isinstance(t, ast.Attribute) and t.attr in (
                            'shape', 'dtype', 'strides', 'flags',
                            'columns', 'index'):
                        a = _aliases(t.value, alias)
                        if a:
                            findings.append((s, alias[a],
                                             'in-place change of .%s'
                                             % t.attr))
                # rebinding
                pos, what = borrowed(s.value)
                if len(s.targets) == 1 and isinstance(
                        s.targets[0], ast.Name):
                    t = s.targets[0].id
                    a = _aliases(s.value, alias)
                    if a and a in elems and isinstance(
                            s.value, ast.Subscript) and not isinstance(
                            s.value.slice, ast.Slice):
                        # one entry of an element (`start = s[2]`): a value,
                        # not a container
                        a = None
                    elems.discard(t)
                    if a:
                        alias[t] = alias[a]
                        if a in elems:
                            elems.add(t)
                    elif pos is not None and None in pos:
                        alias[t] = 'the result of %s' % what
                    else:
                        alias.pop(t, None)
                elif len(s.targets) == 1 and isinstance(
                        s.targets[0], ast.Attribute) and isinstance(
                        s.targets[0].value, ast.Name) \
                        and s.targets[0].value.id == 'self':
                    t = 'self.' + s.targets[0].attr
                    a = _aliases(s.value, alias)
                    if a and a not in elems:
                        alias[t] = alias[a]
                    else:
                        alias.pop(t, None)
                elif len(s.targets) == 1 and isinstance(
                        s.targets[0], ast.Tuple):
                    for k_, x in enumerate(s.targets[0].elts):
                        if isinstance(x, ast.Name):
                            alias.pop(x.id, None)
                            if pos is not None and k_ in pos:
                                alias[x.id] = 'the result of %s' % what
            elif isinstance(s, ast.AugAssign):
                if isinstance(s.target, ast.Name):
                    a = s.target.id if s.target.id in alias else None
                    if a and a not in elems:
                        findings.append((s, alias[a], 'in-place %s=' % {
                            ast.Add: '+', ast.Sub: '-', ast.Mult: '*',
                            ast.Div: '/'}.get(type(s.op), 'op')))
                elif isinstance(s.target, ast.Subscript):
                    a = _aliases(s.target.value, alias)
                    if a:
                        findings.append((s, alias[a], 'element update'))
    visit(fn.body)
    return findings


_LEAKY = {}


def _leaky_getters(repo):
    """Public getters that hand out one of the object's own mutable fields
    (no copy): method name -> positions of the returned tuple that are such
    fields (None = the returned value itself)."""
    key = id(repo)
    if key in _LEAKY:
        return _LEAKY[key]
    out = {}
    mut = {}
    for cname, c in repo.classes.items():
        if c.relpath.startswith(SKIP):
            continue
        for m, fn in c.methods.items():
            if m.startswith('_') or not (m.startswith('get_') or m in (
                    'parameters', 'outputs')):
                continue
            # locals that may name a field (`names = self._names`, possibly
            # re-bound on another path: may-alias)
            local_alias = {}
            for a_ in ast.walk(fn):
                if isinstance(a_, ast.Assign) and len(a_.targets) == 1 \
                        and isinstance(a_.targets[0], ast.Name):
                    fa = _field_alias(a_.value, {})
                    if fa:
                        local_alias[a_.targets[0].id] = fa
            for r in ast.walk(fn):
                if not (isinstance(r, ast.Return) and r.value is not None):
                    continue
                vals = list(enumerate(r.value.elts)) if isinstance(
                    r.value, ast.Tuple) else [(None, r.value)]
                for pos, v in vals:
                    a = _field_alias(v, local_alias)
                    if not a:
                        continue
                    if cname not in mut:
                        mut[cname] = _mutable_fields(repo, cname)
                    if a in mut[cname]:
                        out.setdefault(m, set()).add(pos)
    _LEAKY.clear()
    _LEAKY[key] = out
    return out


def r19_2(ctx, repo):
    rule = 'R19.2'
    n = 0
    memo = {}
    for rel, cls, fn in repo.all_functions():
        if rel.startswith(('chi/plots', 'chi/library')):
            continue
        private = fn.name.startswith('_') and fn.name not in (
            '__call__', '__init__')
        params = [a.arg for a in fn.args.args if a.arg not in ('self',)]
        params = [p for p in params if p not in SCALAR_PARAMS]
        uses_getter = cls and any(
            isinstance(c, ast.Call) and isinstance(c.func, ast.Attribute)
            and c.func.attr in _leaky_getters(repo)
            for c in ast.walk(fn))
        if private:
            # the parameters of a private helper are judged where a public
            # method hands its own arguments on; what the helper borrows
            # from a sub-model's getter is judged here
            if not uses_getter:
                continue
            params = []
        if not params and not uses_getter:
            continue
        n += 1
        construct = '%s.%s' % (cls, fn.name) if cls else fn.name
        findings = _writes_through(repo, cls, fn, params, 0, memo)
        where = repo.loc(fn, cls, fn.name)
        if findings:
            seen = set()
            for s, p, kind in findings:
                if (p, kind) in seen:
                    continue
                seen.add((p, kind))
                ctx.violation(
                    rule, repo.loc(s, cls, fn.name), construct,
                    'write-through %s' % p,
                    '`%s` (%s) modifies an object that still aliases %s: '
                    'the %s array / list / frame is changed by the call' % (
                        norm_stmt(s)[:60], kind,
                        p if p.startswith('the result') else
                        'the argument `%s`' % p,
                        'sub-model\'s own' if p.startswith('the result')
                        else 'caller\'s'))
        else:
            ctx.ok(rule, where, construct,
                   'no store through an alias of %s' % ', '.join(params[:4]))
    if n < 150:
        ctx.error(rule, 'only %d public functions analysed (floor 150)' % n)


def _field_alias(e, alias):
    """self field that expression e is (a view of), or None."""
    if isinstance(e, ast.Attribute) and isinstance(e.value, ast.Name) \
            and e.value.id == 'self':
        return 'self.' + e.attr
    if isinstance(e, ast.Name):
        return alias.get(e.id)
    if isinstance(e, ast.Attribute) and e.attr in ('T', 'values'):
        return _field_alias(e.value, alias)
    if isinstance(e, ast.Subscript):
        sl = e.slice
        elts = sl.elts if isinstance(sl, ast.Tuple) else [sl]
        if all(isinstance(x, ast.Slice) or U(x) in ('np.newaxis', 'None',
                                                    '...') for x in elts):
            return _field_alias(e.value, alias)
        return None
    if isinstance(e, ast.Call):
        f = U(e.func)
        if f in ALIAS_FUNCS and e.args:
            return _field_alias(e.args[0], alias)
        if isinstance(e.func, ast.Attribute) and e.func.attr in \
                ALIAS_METHODS:
            return _field_alias(e.func.value, alias)
    if isinstance(e, ast.IfExp):
        return _field_alias(e.body, alias) or _field_alias(e.orelse, alias)
    return None


def _mutable_fields(repo, cls):
    """Fields of cls (over its MRO and subclasses) that hold an array / list /
    dict: assigned from a numpy constructor or a display, or stored into by
    element."""
    out = set()
    ks = set(repo.mro(cls)) | set(repo.subclasses(cls, strict=True))
    for k in ks:
        if not repo.has_cls(k):
            continue
        for fn in repo.cls(k).methods.values():
            for n in ast.walk(fn):
                if isinstance(n, ast.Assign):
                    for t in n.targets:
                        if isinstance(t, ast.Subscript):
                            f = _self_field(t)
                            if f:
                                out.add(f)
                        if isinstance(t, ast.Attribute) and isinstance(
                                t.value, ast.Name) and t.value.id == 'self':
                            v = n.value
                            if isinstance(v, (ast.List, ast.Dict,
                                              ast.ListComp, ast.DictComp)):
                                out.add('self.' + t.attr)
                            if isinstance(v, ast.Call) and U(v.func).split(
                                    '.')[0] in ('np', 'numpy', 'pd'):
                                out.add('self.' + t.attr)
                            if isinstance(v, ast.Name):
                                # a local that was built as a container
                                for d in ast.walk(fn):
                                    if isinstance(d, ast.Assign) and any(
                                            isinstance(x, ast.Name)
                                            and x.id == v.id
                                            for x in d.targets) and (
                                            isinstance(d.value, (
                                                ast.List, ast.Dict,
                                                ast.ListComp, ast.DictComp))
                                            or (isinstance(d.value, ast.Call)
                                                and U(d.value.func) in (
                                                    'list', 'dict'))):
                                        out.add('self.' + t.attr)
                                    if isinstance(d, ast.AugAssign) \
                                            and isinstance(
                                                d.target, ast.Name) \
                                            and d.target.id == v.id \
                                            and isinstance(d.op, ast.Add) \
                                            and not isinstance(
                                                d.value, ast.Constant):
                                        # grown in place (`names += more`)
                                        out.add('self.' + t.attr)
                                    if isinstance(d, ast.Call) and isinstance(
                                            d.func, ast.Attribute) \
                                            and d.func.attr in (
                                                'append', 'extend') \
                                            and U(d.func.value) == v.id:
                                        out.add('self.' + t.attr)
                # used as a sequence somewhere in the class: converted
                # (`np.array(self.f)`, `list(self.f)`), measured or iterated
                if isinstance(n, ast.Call) and U(n.func) in (
                        'np.array', 'list', 'len', 'np.asarray', 'enumerate',
                        'zip') and n.args:
                    for a0 in n.args:
                        if isinstance(a0, ast.Attribute) and isinstance(
                                a0.value, ast.Name) and a0.value.id == 'self':
                            out.add('self.' + a0.attr)
                if isinstance(n, ast.For) and isinstance(
                        n.iter, ast.Attribute) and isinstance(
                        n.iter.value, ast.Name) and n.iter.value.id == 'self':
                    out.add('self.' + n.iter.attr)
                # the class itself copies the field before handing it out
                # somewhere: it believes the field to be a mutable container
                if isinstance(n, ast.Return) and isinstance(
                        n.value, ast.Call):
                    f_ = U(n.value.func)
                    inner = None
                    if f_ in ('copy.copy', 'copy.deepcopy', 'list') \
                            and n.value.args:
                        inner = n.value.args[0]
                    elif isinstance(n.value.func, ast.Attribute) \
                            and n.value.func.attr == 'copy':
                        inner = n.value.func.value
                    if isinstance(inner, ast.Attribute) and isinstance(
                            inner.value, ast.Name) \
                            and inner.value.id == 'self':
                        out.add('self.' + inner.attr)
                if isinstance(n, ast.AugAssign) and isinstance(
                        n.target, ast.Subscript):
                    f = _self_field(n.target)
                    if f:
                        out.add(f)
    return out


def r19_4(ctx, repo):
    rule = 'R19.4'
    n = 0
    for cname, c in sorted(repo.classes.items()):
        if c.relpath.startswith(SKIP):
            continue
        todo = []
        for m in EVAL_NAMES:
            k, fn = repo.resolve(cname, m)
            if fn is None or repo.is_abstract(fn) or k != cname:
                continue
            todo.append((m, fn, 0))
        seen = set()
        mutable = None
        while todo:
            m, fn, depth = todo.pop()
            if m in seen:
                continue
            seen.add(m)
            n += 1
            if mutable is None:
                mutable = _mutable_fields(repo, cname)
            alias = {}
            stored = set()
            for s in ast.walk(fn):
                if isinstance(s, ast.Assign) and len(s.targets) == 1 \
                        and isinstance(s.targets[0], ast.Name):
                    a = _field_alias(s.value, alias)
                    if a:
                        alias[s.targets[0].id] = a
                if isinstance(s, (ast.Assign, ast.AugAssign)):
                    tg = s.targets if isinstance(s, ast.Assign) \
                        else [s.target]
                    for t in tg:
                        if isinstance(t, ast.Subscript) and isinstance(
                                t.value, ast.Name):
                            stored.add(t.value.id)
                if isinstance(s, ast.Call) and isinstance(
                        s.func, ast.Attribute) and isinstance(
                        s.func.value, ast.Name) and s.func.value.id == \
                        'self' and s.func.attr.startswith('_') \
                        and not s.func.attr.startswith('__') and depth < 3:
                    k2, h = repo.resolve(cname, s.func.attr)
                    if h is not None and not repo.is_abstract(h):
                        todo.append((s.func.attr, h, depth + 1))
            construct = '%s.%s' % (cname, m)
            bad = False
            for s in ast.walk(fn):
                if not (isinstance(s, ast.Return) and s.value is not None):
                    continue
                vals = s.value.elts if isinstance(s.value, ast.Tuple) \
                    else [s.value]
                for v in vals:
                    a = _field_alias(v, alias)
                    if a and (a in mutable or (isinstance(v, ast.Name)
                                               and v.id in stored)):
                        bad = True
                        ctx.violation(
                            rule, repo.loc(s, cname, m), construct,
                            'returns buffer %s' % a,
                            '`%s` hands out %s itself (no copy): the result '
                            'of one evaluation is overwritten by the next '
                            'one and by callers that update it in place'
                            % (norm_stmt(s)[:50], a))
            if not bad:
                ctx.ok(rule, repo.loc(fn, cname, m), construct,
                       'every returned array is created by the call')
    if n < 60:
        ctx.error(rule, 'only %d evaluation methods analysed (floor 60)' % n)


FIXTURE = '''
def compute(self, parameters, observations):
    parameters = np.asarray(parameters)
    parameters[0] = 1.0
    return parameters
'''
