"""C14 / C10 rules on the problem controller (engine C + def-use).

R14.1 per-individual, per-output routing of measurements.
R14.2 covariate matrix entries come from the rows of their own individual and
      covariate.
R14.3 dosing regimens: one fresh protocol per individual built from that
      individual's dose rows; per-row values are not carried between rows.
R14.4 the regimen of an individual is set on the shared model before that
      individual's likelihood (which copies the model) is constructed,
      whatever the regimen looks like.
R14.5 rows are addressed through the configured key fields.
"""
import ast

from ..loader import U, norm_stmt, AnalysisError
from ..rows import Frame, Series, Mask, Row, Cell, ev, walk

CLS = 'ProblemModellingController'
ROOT = 'self._data'


def _loop_of(node, fn):
    loops = []
    cur = getattr(node, '_parent', None)
    while cur is not None and cur is not fn:
        if isinstance(cur, ast.For):
            loops.append(cur)
        cur = getattr(cur, '_parent', None)
    return loops


def r14_1(ctx, repo):
    rule = 'R14.1'
    fn = repo.method(CLS, '_create_log_likelihood')
    construct = CLS + '._create_log_likelihood'
    sinks = {}

    def on_stmt(s, env, val):
        if isinstance(s, ast.Expr) and isinstance(s.value, ast.Call) \
                and isinstance(s.value.func, ast.Attribute) \
                and s.value.func.attr == 'append' and s.value.args:
            name = U(s.value.func.value)
            v = ev(s.value.args[0], env)
            sinks.setdefault(name, []).append((s, v))
    env = {ROOT: Frame(ROOT)}
    walk(fn.body, env, on_stmt)
    obs_name = 'observable'
    for a_ in ast.walk(fn):
        if isinstance(a_, ast.Assign) and isinstance(
                a_.targets[0], ast.Name) and U(a_.value).startswith(
                'self._output_observable_dict['):
            obs_name = a_.targets[0].id
    ind_name = [a.arg for a in fn.args.args][1] if len(
        fn.args.args) > 1 else 'individual'
    want = {'self._id_key == %s' % ind_name,
            'self._obs_key == %s' % obs_name,
            'notnull(self._value_key)', 'notnull(self._time_key)'}
    pair = {}
    # the two per-output lists are the ones handed to chi.LogLikelihood as
    # observations (3rd argument) and times (4th argument)
    mk = [c for c in ast.walk(fn) if isinstance(c, ast.Call)
          and U(c.func).split('.')[-1] == 'LogLikelihood']
    lname = {'times': 'times', 'observations': 'observations'}
    if mk:
        kw = {k.arg: k.value for k in mk[0].keywords}
        a_obs = kw.get('observations', mk[0].args[2] if len(
            mk[0].args) > 2 else None)
        a_t = kw.get('times', mk[0].args[3] if len(mk[0].args) > 3 else None)
        if isinstance(a_obs, ast.Name):
            lname['observations'] = a_obs.id
        if isinstance(a_t, ast.Name):
            lname['times'] = a_t.id
    for name, col in (('times', 'self._time_key'),
                      ('observations', 'self._value_key')):
        lst = sinks.get(lname[name], [])
        if len(lst) != 1:
            ctx.error(rule, '%s: expected one `%s.append(...)`, found %d' % (
                construct, name, len(lst)))
            continue
        s, v = lst[0]
        where = repo.loc(s, CLS, fn.name)
        if not isinstance(v, Series):
            ctx.error(rule, '%s: provenance of `%s` not derived' % (
                construct, norm_stmt(s)[:60]))
            continue
        pair[name] = v
        if v.col != col:
            ctx.violation(rule, where, construct, '%s column' % name,
                          '`%s` collects column %s; expected %s' % (
                              name, v.col, col))
        # the observable of the current output, through a local or in place
        outs = [U(l_.target) for l_ in ast.walk(fn)
                if isinstance(l_, ast.For)]
        got = set()
        for f_ in v.filters():
            for o_ in outs:
                f_ = f_.replace('self._output_observable_dict[%s]' % o_,
                                obs_name)
            got.add(f_)
        missing = want - got
        extra = got - want
        if not missing and not extra and v.frame.src == ROOT:
            ctx.ok(rule, where, construct,
                   '%s of an output are the rows {own ID, mapped observable, '
                   'value and time not null} of the dataset' % name)
        else:
            ctx.violation(
                rule, where, construct, '%s rows' % name,
                '`%s` are taken from rows {%s}; expected exactly {own ID, '
                'mapped observable, non-missing value, non-missing time}%s%s'
                % (name, ', '.join(sorted(v.filters())),
                   ' — missing: ' + ', '.join(sorted(missing))
                   if missing else '',
                   ' — unexpected: ' + ', '.join(sorted(extra))
                   if extra else ''))
    if len(pair) == 2:
        a, b = pair['times'], pair['observations']
        if a.frame.key() == b.frame.key() and a.extra == b.extra:
            ctx.ok(rule, repo.loc(fn, CLS, fn.name), construct,
                   'times and observations are columns of the same filtered '
                   'frame (paired row by row)')
        else:
            ctx.violation(
                rule, repo.loc(fn, CLS, fn.name), construct, 'pairing',
                'times and observations come from differently filtered '
                'frames ({%s} vs {%s}): they are not paired row by row' % (
                    ', '.join(sorted(a.filters())),
                    ', '.join(sorted(b.filters()))))
    # outputs iterate in model order and map through the dictionary
    loops = [l for l in ast.walk(fn) if isinstance(l, ast.For)]
    ok_iter = False
    for l in loops:
        if any(isinstance(c, ast.Call) and isinstance(c.func, ast.Attribute)
               and c.func.attr == 'append' for c in ast.walk(l)):
            it = U(l.iter)
            tgt = U(l.target)
            obs_def = [s for s in ast.walk(l) if isinstance(s, ast.Assign)
                       and U(s.value).startswith(
                           'self._output_observable_dict[')]
            mapped = (obs_def and U(obs_def[0].value) ==
                      'self._output_observable_dict[%s]' % tgt) or (
                not obs_def and any(
                    isinstance(c, ast.Compare) and any(
                        U(x) == 'self._output_observable_dict[%s]' % tgt
                        for x in ast.walk(c)) for c in ast.walk(l)))
            where = repo.loc(l, CLS, fn.name)
            if it == 'self._mechanistic_model.outputs()' and mapped:
                ok_iter = True
                ctx.ok(rule, where, construct,
                       'outputs are visited in the model\'s output order and '
                       'mapped through the output-observable dictionary')
            else:
                ctx.violation(
                    rule, where, construct, 'output order',
                    'the per-output lists are filled while iterating `%s` '
                    '(observable = `%s`): the k-th list must belong to the '
                    'k-th model output, i.e. iterate '
                    'self._mechanistic_model.outputs() and look the '
                    'observable up in the dictionary — dictionary order is '
                    'the user\'s order, not the model\'s' % (
                        it, U(obs_def[0].value) if obs_def else tgt))
                ok_iter = True
    if not ok_iter:
        ctx.error(rule, '%s: output loop not found' % construct)
    # the likelihood is built from these lists and the model's own models
    ctx.floor(rule, 4)


def r14_2(ctx, repo):
    rule = 'R14.2'
    fn = repo.method(CLS, '_extract_covariates')
    construct = CLS + '._extract_covariates'
    sinks = []

    rets = [r for r in ast.walk(fn) if isinstance(r, ast.Return)
            and isinstance(r.value, ast.Name)]
    sink_name = rets[-1].value.id if rets else 'covariates'

    def on_stmt(s, env, val):
        if isinstance(s, ast.Assign) and isinstance(
                s.targets[0], ast.Subscript) and U(
                s.targets[0].value) == sink_name:
            sinks.append((s, ev(s.value, env)))
    env = {ROOT: Frame(ROOT)}
    walk(fn.body, env, on_stmt)
    if len(sinks) != 1:
        ctx.error(rule, '%s: expected one store into `covariates`, found %d'
                  % (construct, len(sinks)))
        return
    s, v = sinks[0]
    where = repo.loc(s, CLS, fn.name)
    idx = s.targets[0].slice
    loops = _loop_of(s, fn)
    # index variables must be the enumerate counters of the loops whose
    # elements select the rows
    enum = {}
    for l in loops:
        if isinstance(l.iter, ast.Call) and U(l.iter.func) == 'enumerate' \
                and isinstance(l.target, ast.Tuple):
            enum[U(l.target.elts[0])] = (U(l.target.elts[1]),
                                         U(l.iter.args[0]))
    if not isinstance(v, Series):
        ctx.error(rule, '%s: provenance of the stored value not derived'
                  % construct)
        return
    want_idx = None
    if isinstance(idx, ast.Tuple) and len(idx.elts) == 2:
        want_idx = [U(e) for e in idx.elts]
    ok = True
    if not want_idx or any(i not in enum for i in want_idx):
        ctx.violation(
            rule, where, construct, 'index',
            '`%s` is not indexed by the two loop counters (individual, '
            'covariate): a whole row or column is filled at once, so the '
            'values are taken in data-frame row order instead of per '
            'individual' % U(s.targets[0]))
        ok = False
    else:
        (id_elem, id_src), (cov_elem, cov_src) = (enum[want_idx[0]],
                                                  enum[want_idx[1]])
        want = {'self._obs_key == self._covariate_dict[%s]' % cov_elem,
                'self._id_key == %s' % id_elem,
                'notnull(self._value_key)'}
        if id_src != 'self._ids':
            ctx.violation(rule, where, construct, 'id order',
                          'rows of the covariate matrix follow `%s`, not '
                          'the controller\'s ID order self._ids' % id_src)
            ok = False
        missing = want - v.filters()
        extra = v.filters() - want
        if missing or extra or v.col != 'self._value_key':
            ctx.violation(
                rule, where, construct, 'rows',
                'covariates[%s, %s] is taken from rows {%s} column %s; '
                'expected {that covariate\'s observable, that individual\'s '
                'ID, non-missing value}%s' % (
                    want_idx[0], want_idx[1],
                    ', '.join(sorted(v.filters())), v.col,
                    ' — missing: ' + ', '.join(sorted(missing))
                    if missing else ''))
            ok = False
    if ok:
        ctx.ok(rule, where, construct,
               'covariates[i, c] = value of covariate c in the rows of '
               'individual i (ID order of the controller)')
    ctx.floor(rule, 1)


def r14_3(ctx, repo):
    rule = 'R14.3'
    fn = repo.method(CLS, '_extract_dosing_regimens')
    construct = CLS + '._extract_dosing_regimens'
    rets_ = [r for r in ast.walk(fn) if isinstance(r, ast.Return)
             and isinstance(r.value, ast.Name)]
    reg_name = rets_[-1].value.id if rets_ else 'regimens'
    events = []
    stores = []
    protos = []

    def on_stmt(s, env, val):
        if isinstance(s, (ast.For, ast.If, ast.While)):
            return
        for c in ast.walk(s):
            if isinstance(c, ast.Call) and U(c.func).endswith(
                    'ProtocolEvent'):
                events.append((s, c, dict(env)))
        if isinstance(s, ast.Assign):
            t = s.targets[0]
            if isinstance(t, ast.Subscript) and U(t.value) == reg_name:
                stores.append((s, U(t.slice), U(s.value)))
            if isinstance(s.value, ast.Call) and U(s.value.func).endswith(
                    'myokit.Protocol'):
                protos.append(s)
    env = {ROOT: Frame(ROOT)}
    walk(fn.body, env, on_stmt)
    if len(events) != 1 or len(stores) != 1 or len(protos) != 1:
        ctx.error(rule, '%s: expected one ProtocolEvent, one protocol and '
                  'one store (found %d, %d, %d)' % (
                      construct, len(events), len(protos), len(stores)))
        return
    s, call, e = events[0]
    where = repo.loc(call, CLS, fn.name)
    loops = _loop_of(s, fn)
    row_loop = loops[0] if loops else None
    label_loop = loops[-1] if loops else None
    label = U(label_loop.target) if label_loop is not None else '?'
    # rows of the iterated frame
    rowvar = None
    if row_loop is not None and isinstance(row_loop.target, ast.Tuple):
        rowvar = U(row_loop.target.elts[1])
    rv = e.get(rowvar)

    def canon(x):
        """`row[K]` / a name bound to one cell of the current row -> CELL(K)"""
        v = ev(x, e) if x is not None else None
        if isinstance(v, Cell):
            return 'CELL(%s)' % v.col
        return U(x) if x is not None else '?'
    if isinstance(rv, Row):
        rowframe = rv.frame
    else:
        cells = [v for v in e.values() if isinstance(v, Cell)]
        keys = {c.frame.key() for c in cells}
        if row_loop is None or len(keys) != 1:
            ctx.error(rule, '%s: row loop not recognised' % construct)
            return
        rowframe = cells[0].frame
    dose_key = [a.arg for a in fn.args.args][1]
    want = {'self._id_key == %s' % label, 'notnull(%s)' % dose_key,
            'notnull(self._time_key)'}
    got = rowframe.filters
    if got == want:
        ctx.ok(rule, where, construct,
               'dose events of an individual come from the rows {own ID, '
               'dose not null, time not null}')
    else:
        ctx.violation(
            rule, where, construct, 'dose rows',
            'dose events are built from rows {%s}; expected {own ID, '
            'non-missing dose, non-missing time}' % ', '.join(sorted(got)))
    # arguments: level = dose / duration, start = time, duration
    args = list(call.args)
    kw = {k.arg: k.value for k in call.keywords}
    level = kw.get('level', args[0] if args else None)
    start = kw.get('start', args[1] if len(args) > 1 else None)
    dur = kw.get('duration', args[2] if len(args) > 2 else None)

    def defs(name):
        return [a for a in ast.walk(row_loop) if isinstance(a, ast.Assign)
                and U(a.targets[0]) == name]
    ok = True
    # level
    lv = level
    if isinstance(level, ast.Name):
        d = defs(level.id)
        lv = d[-1].value if d else level
    if not (isinstance(lv, ast.BinOp) and isinstance(lv.op, ast.Div)
            and canon(lv.left) == 'CELL(%s)' % dose_key
            and dur is not None and U(lv.right) == U(dur)):
        ctx.violation(
            rule, where, construct, 'dose rate',
            'the event level is `%s`; expected the row\'s dose divided by '
            'the same duration that is handed to the event (`%s`)' % (
                U(lv) if lv is not None else '?', U(dur) if dur else '?'))
        ok = False
    st = start
    if isinstance(start, ast.Name):
        d = defs(start.id)
        st = d[-1].value if d else start
    if st is None or canon(st) != 'CELL(self._time_key)':
        ctx.violation(rule, where, construct, 'dose time',
                      'the event start is `%s`; expected the row\'s time'
                      % (U(st) if st is not None else '?'))
        ok = False
    # per-row freshness: every name used by the event is assigned on every
    # path of the row loop body before the event
    used = {n.id for a in (level, start, dur) if a is not None
            for n in ast.walk(a) if isinstance(n, ast.Name)}
    for name in sorted(used):
        d = defs(name)
        if not d:
            continue
        top = [x for x in row_loop.body if isinstance(x, ast.Assign)
               and U(x.targets[0]) == name]
        if not top:
            ctx.violation(
                rule, repo.loc(d[0], CLS, fn.name), construct,
                'carried %s' % name,
                '`%s` is only assigned conditionally inside the row loop '
                '(`%s`): for a row that does not take that branch the value '
                'of the previous dose row (or of another individual) is '
                'used' % (name, norm_stmt(d[0])[:60]))
            ok = False
    # default duration for missing values
    dd = defs(U(dur)) if isinstance(dur, ast.Name) else []
    has_default = any(isinstance(c_, ast.Constant) and c_.value == 0.01
                      for x in dd for c_ in ast.walk(x.value))
    if isinstance(dur, ast.Name) and not has_default:
        ctx.violation(rule, where, construct, 'default duration',
                      'no bolus default (0.01) is assigned for rows with a '
                      'missing duration')
        ok = False
    # fresh protocol per individual, stored under the same label
    p = protos[0]
    pl = _loop_of(p, fn)
    if not pl or pl[0] is not label_loop:
        ctx.violation(rule, repo.loc(p, CLS, fn.name), construct,
                      'shared protocol',
                      'the protocol object is not created inside the loop '
                      'over individuals: all individuals share one regimen')
        ok = False
    ss, key, val = stores[0]
    if key != label or val != U(p.targets[0]):
        ctx.violation(rule, repo.loc(ss, CLS, fn.name), construct,
                      'store key', 'regimens[%s] = %s; expected the current '
                      'individual\'s label `%s`' % (key, val, label))
        ok = False
    if ok:
        ctx.ok(rule, where, construct,
               'event = (dose / duration, time, duration) of the row, '
               'bolus default 0.01, one fresh protocol per individual')
    ctx.floor(rule, 2)


def _preorder(node, out=None):
    out = [] if out is None else out
    out.append(node)
    for c in ast.iter_child_nodes(node):
        _preorder(c, out)
    return out


def r14_4(ctx, repo):
    rule = 'R14.4'
    import copy
    from .. import inline
    fn0 = repo.method(CLS, '_create_log_likelihoods')
    construct = CLS + '._create_log_likelihoods'
    # the construction site `chi.LogLikelihood(self._mechanistic_model, ..)`
    # copies the shared model; look at the loop over individuals with the
    # per-individual helper substituted in (wherever the regimen is set,
    # caller or callee, it must precede the construction in the iteration)
    fn = copy.deepcopy(fn0)
    # `acc.append(self._helper(x))` -> `t = self._helper(x); acc.append(t)`
    # (the same program; the inliner substitutes helpers at statement level)

    def hoist(stmts):
        out = []
        for s_ in stmts:
            for attr in ('body', 'orelse', 'finalbody'):
                sub = getattr(s_, attr, None)
                if isinstance(sub, list) and sub and isinstance(
                        sub[0], ast.stmt):
                    setattr(s_, attr, hoist(sub))
            if isinstance(s_, ast.Expr) and isinstance(s_.value, ast.Call):
                for k_, a_ in enumerate(s_.value.args):
                    if isinstance(a_, ast.Call) and isinstance(
                            a_.func, ast.Attribute) and isinstance(
                            a_.func.value, ast.Name) \
                            and a_.func.value.id == 'self' \
                            and a_.func.attr.startswith('_'):
                        tmp = ast.Assign(
                            targets=[ast.Name(id='__made', ctx=ast.Store())],
                            value=a_)
                        ast.copy_location(tmp, s_)
                        s_.value.args[k_] = ast.copy_location(
                            ast.Name(id='__made', ctx=ast.Load()), a_)
                        out.append(tmp)
                        break
            out.append(s_)
        return out
    fn.body = hoist(fn.body)
    ast.fix_missing_locations(fn)
    known = inline.load_baseline() - {'_create_log_likelihood'}
    inl = inline.Inliner(repo, known)
    inl.function(fn, CLS)
    for parent in ast.walk(fn):
        for child in ast.iter_child_nodes(parent):
            child._parent = parent
    fn._parent = getattr(fn0, '_parent', None)
    loops = [l for l in ast.walk(fn) if isinstance(l, ast.For)]
    done = False
    for l in loops:
        order = {id(n): k for k, n in enumerate(_preorder(l))}
        sets = [c for c in ast.walk(l) if isinstance(c, ast.Call)
                and U(c.func).endswith('_mechanistic_model.set_dosing_regimen')]
        makes = [c for c in ast.walk(l) if isinstance(c, ast.Call)
                 and U(c.func).split('.')[-1] == 'LogLikelihood'
                 and c.args and U(c.args[0]) == 'self._mechanistic_model']
        if not makes:
            continue
        if any(isinstance(x, ast.For) and x is not l and any(
                m in ast.walk(x) for m in makes) for x in ast.walk(l)):
            continue        # an outer loop; the inner one is analysed
        done = True
        ind = U(l.target)
        where = repo.loc(fn0, CLS, fn0.name)
        if not sets:
            ctx.violation(rule, where, construct, 'no regimen',
                          'the likelihood of an individual is constructed '
                          'without setting that individual\'s dosing regimen '
                          'on the shared mechanistic model')
            continue
        c = sets[0]
        arg = c.args[0] if c.args else None
        # the regimen handed over is the current individual's
        src = arg
        if isinstance(arg, ast.Name):
            d = [a for a in ast.walk(l) if isinstance(a, ast.Assign)
                 and U(a.targets[0]) == arg.id]
            src = d[-1].value if d else arg
        stxt = U(src) if src is not None else '?'
        if not (('self._dosing_regimens' in stxt) and ind in stxt):
            ctx.violation(rule, where, construct,
                          'wrong regimen',
                          'set_dosing_regimen receives `%s`, not the '
                          'regimen of the current individual `%s`' % (
                              stxt, ind))
        # guards between the loop and the call
        guards = []
        cur = getattr(c, '_parent', None)
        while cur is not None and cur is not l:
            if isinstance(cur, ast.If):
                guards.append(cur.test)
            cur = getattr(cur, '_parent', None)
        bad = [g for g in guards if U(g) != 'self._dosing_regimens'
               and U(g) != 'self._dosing_regimens is not None']
        if bad:
            ctx.violation(
                rule, where, construct,
                'conditional regimen',
                'the regimen is only applied when `%s` holds; an individual '
                'for which it does not (e.g. an empty protocol, which is '
                'falsy) keeps the regimen of the previously processed '
                'individual, because the shared model is copied as it is'
                % U(bad[0]))
        elif order[id(c)] > min(order[id(m)] for m in makes):
            ctx.violation(rule, where, construct,
                          'order', 'the regimen is set after the likelihood '
                          '(which copies the model) has been constructed')
        else:
            ctx.ok(rule, where, construct,
                   'the regimen of the current individual is set on the '
                   'shared model before the likelihood copies it, guarded '
                   'only by the presence of regimens')
    if not done:
        ctx.error(rule, '%s: loop constructing the likelihoods not found'
                  % construct)
    ctx.floor(rule, 1)


# -----------------------------------------------------------------------------
# R14.6 — one likelihood per individual, in the order of the ID table
# -----------------------------------------------------------------------------
def _ids_alias(e, ids_field='self._ids'):
    """expression is the ID table itself (or a copy that keeps its order)"""
    if U(e) == ids_field:
        return True
    if isinstance(e, ast.Call) and U(e.func) in (
            'list', 'copy.copy', 'copy.deepcopy', 'np.array', 'np.asarray',
            'tuple') and e.args:
        return _ids_alias(e.args[0], ids_field)
    if isinstance(e, ast.Subscript) and isinstance(e.slice, ast.Slice) \
            and e.slice.lower is None and e.slice.upper is None \
            and e.slice.step is None:
        return _ids_alias(e.value, ids_field)
    if isinstance(e, ast.Call) and isinstance(e.func, ast.Attribute) \
            and e.func.attr == 'copy' and not e.args:
        return _ids_alias(e.func.value, ids_field)
    return False


def r14_6(ctx, repo):
    """The hierarchical likelihood pairs likelihood i with row i of the
    covariate matrix and with the i-th regimen / ID.  All of these tables are
    built over `self._ids`; the list of likelihoods therefore has exactly one
    entry per ID, in that order."""
    rule = 'R14.6'
    # (1) the IDs handed to the likelihood factory when a population model
    # is set
    fn = repo.method(CLS, 'get_log_posterior')
    construct = CLS + '.get_log_posterior'
    calls = [c for c in ast.walk(fn) if isinstance(c, ast.Call)
             and U(c.func) == 'self._create_log_likelihoods' and c.args]
    if not calls:
        ctx.error(rule, '%s: call of _create_log_likelihoods not found'
                  % construct)
    for c in calls:
        arg = c.args[0]
        where = repo.loc(c, CLS, fn.name)
        cands = []          # (value, under population branch?)
        if isinstance(arg, ast.Name):
            for st in ast.walk(fn):
                if isinstance(st, ast.Assign) and len(st.targets) == 1 \
                        and U(st.targets[0]) == arg.id \
                        and st.lineno < c.lineno:
                    pop = None
                    cur, child = getattr(st, '_parent', None), st
                    while cur is not None and cur is not fn:
                        if isinstance(cur, ast.If):
                            t = U(cur.test)
                            inbody = any(child is b for b in cur.body)
                            if t in ('self._population_model is not None',
                                     'not self._population_model is None',
                                     'not (self._population_model is '
                                     'None)'):
                                pop = inbody
                            elif t in ('self._population_model is None',
                                       'not self._population_model is not '
                                       'None',
                                       'not (self._population_model is '
                                       'not None)'):
                                pop = not inbody
                        child, cur = cur, getattr(cur, '_parent', None)
                    cands.append((st, pop))
            popdefs = [st for st, pop in cands if pop is True]
            if not popdefs:
                # a single unconditional definition serves both cases
                popdefs = [st for st, pop in cands if pop is None]
            if not popdefs:
                ctx.error(rule, '%s: definition of `%s` for the population '
                          'case not found' % (construct, arg.id))
                continue
            values = [st.value for st in popdefs]
        else:
            values = [arg]
        for v in values:
            if isinstance(v, ast.IfExp):
                t = U(v.test)
                if t == 'self._population_model is not None':
                    v = v.body
                elif t == 'self._population_model is None':
                    v = v.orelse
            if _ids_alias(v):
                ctx.ok(rule, where, construct,
                       'with a population model the likelihoods are created '
                       'for `self._ids`, in its order')
            else:
                ctx.violation(
                    rule, where, construct, 'ids order',
                    'with a population model the likelihoods are created '
                    'for `%s` instead of the ID table `self._ids` itself: '
                    'the covariate matrix, the regimens and the population '
                    'model\'s n_ids are laid out over self._ids in its '
                    'order, so likelihood i no longer belongs to row i'
                    % U(v)[:50])
    # (2) one entry per ID in the factory
    fn = repo.method(CLS, '_create_log_likelihoods')
    construct = CLS + '._create_log_likelihoods'
    ids_p = [a.arg for a in fn.args.args][1:2]
    loops = [l for l in ast.walk(fn) if isinstance(l, ast.For)
             and ids_p and U(l.iter) == ids_p[0]]
    if len(loops) != 1:
        ctx.error(rule, '%s: loop over the IDs not found' % construct)
    else:
        l = loops[0]
        apps = [c for c in ast.walk(l) if isinstance(c, ast.Call)
                and isinstance(c.func, ast.Attribute)
                and c.func.attr == 'append']
        skips = [x for x in ast.walk(l) if isinstance(x, (ast.Continue,
                                                          ast.Break))]
        where = repo.loc(l, CLS, fn.name)
        if len(apps) != 1:
            ctx.error(rule, '%s: expected one append per individual, found '
                      '%d' % (construct, len(apps)))
        elif skips:
            ctx.violation(
                rule, repo.loc(skips[0], CLS, fn.name), construct,
                'individual skipped',
                '`%s` leaves the iteration of an individual without '
                'appending its likelihood: the list has fewer entries than '
                'self._ids and every later entry is paired with the wrong '
                'covariates / ID' % norm_stmt(skips[0]))
        else:
            a = apps[0]
            guards = []
            cur = getattr(a, '_parent', None)
            while cur is not None and cur is not l:
                if isinstance(cur, ast.If):
                    guards.append(cur)
                cur = getattr(cur, '_parent', None)
            ok = True
            for g in guards:
                t = g.test
                made = None
                if isinstance(t, ast.Compare) and isinstance(
                        t.ops[0], ast.IsNot) and isinstance(
                        t.comparators[0], ast.Constant) \
                        and t.comparators[0].value is None \
                        and isinstance(t.left, ast.Name):
                    # `if ll is not None` is vacuous when the maker never
                    # returns None
                    for st in ast.walk(l):
                        if isinstance(st, ast.Assign) and U(
                                st.targets[0]) == t.left.id and isinstance(
                                st.value, ast.Call) and U(
                                st.value.func).startswith('self.'):
                            made = st.value.func.attr
                if made is None:
                    ok = False
                    ctx.violation(
                        rule, repo.loc(g, CLS, fn.name), construct,
                        'conditional append',
                        'the likelihood of an individual is only appended '
                        'when `%s` holds: the list can have fewer entries '
                        'than self._ids, and the covariate rows / IDs / '
                        'n_ids no longer match it' % U(t)[:50])
                    continue
                k, mk = repo.resolve(CLS, made)
                if mk is None:
                    ctx.error(rule, '%s: maker %s not found' % (construct,
                                                                made))
                    ok = False
                    continue
                nones = [r for r in ast.walk(mk) if isinstance(r, ast.Return)
                         and (r.value is None or (isinstance(
                             r.value, ast.Constant)
                             and r.value.value is None))]
                falls = not isinstance(mk.body[-1], (ast.Return, ast.Raise))
                if nones or falls:
                    ok = False
                    ctx.violation(
                        rule, repo.loc(nones[0] if nones else mk, CLS, made),
                        '%s.%s' % (CLS, made), 'individual dropped',
                        '`%s` can return None for an individual, and '
                        '_create_log_likelihoods then skips it: the list of '
                        'likelihoods has fewer entries than self._ids, '
                        'while the covariate matrix, the regimens and the '
                        'population model\'s n_ids still count every ID'
                        % made)
            if ok:
                ctx.ok(rule, where, construct,
                       'exactly one likelihood is appended per ID, in the '
                       'order of the IDs')
    ctx.floor(rule, 2)


# -----------------------------------------------------------------------------
# R14.7 — the population model is told the number of individuals whenever
# the set of individuals changes (must-pass-through on the paths of the
# method, engine G)
# -----------------------------------------------------------------------------
def r14_7(ctx, repo):
    """Role discovery: a class that somewhere calls
    `self.P.set_n_ids(len(self.F))` keeps a population model P and the
    individuals F.  Every public method of that class that assigns F reaches
    each normal exit only after `self.P.set_n_ids(..)` has been called since
    the assignment — unless P is None on that path."""
    from ..pathwalk import Walker
    rule = 'R14.7'
    n = 0
    for cname, c in sorted(repo.classes.items()):
        pairs = set()
        for fn in c.methods.values():
            for call in ast.walk(fn):
                if isinstance(call, ast.Call) and isinstance(
                        call.func, ast.Attribute) \
                        and call.func.attr == 'set_n_ids' and call.args \
                        and U(call.func.value).startswith('self.') \
                        and isinstance(call.args[0], ast.Call) \
                        and U(call.args[0].func) == 'len' \
                        and call.args[0].args \
                        and U(call.args[0].args[0]).startswith('self.'):
                    pairs.add((U(call.func.value),
                               U(call.args[0].args[0])))
        for P, F in sorted(pairs):
            for mname, fn in sorted(c.methods.items()):
                if mname.startswith('_'):
                    continue
                writes = [a for a in ast.walk(fn) if isinstance(a, ast.Assign)
                          and any(U(t) == F for t in a.targets)]
                if not writes:
                    continue

                class W(Walker):
                    def on_assign(self, target, value, st, frame):
                        if U(target) == F:
                            st.ts['written'] = True
                            st.ts['told'] = False
                        if U(target) == P:
                            st.env.pop(P + ' is None', None)

                    def on_call(self, call, st, frame):
                        if isinstance(call.func, ast.Attribute) \
                                and call.func.attr == 'set_n_ids' \
                                and U(call.func.value) == P:
                            st.ts['told'] = True
                        # helpers are not followed: the obligation is local
                        # to the method that replaces the individuals
                        return 'handled'
                w = W(repo, cname)
                exits = w.run(mname)
                n += 1
                construct = '%s.%s' % (cname, mname)
                where = repo.loc(writes[0], cname, mname)
                bad = [s for s in exits if s.ts.get('written')
                       and not s.ts.get('told')
                       and s.env.get(P + ' is None') is not True
                       and s.env.get(P) is not False]
                if bad:
                    ctx.violation(
                        rule, where, construct,
                        'individuals changed, %s not told' % P,
                        '%s assigns `%s` and reaches an exit without '
                        '`%s.set_n_ids(len(%s))` on a path where `%s` is '
                        'not known to be None: the population model keeps '
                        'the previous number of individuals, so counts, '
                        'names and the hierarchical vector disagree with '
                        'the data' % (construct, F, P, F, P))
                else:
                    ctx.ok(rule, where, construct,
                           'every exit after the assignment of `%s` has '
                           'told `%s` the number of individuals (or it is '
                           'None)' % (F, P), paths=len(exits))
    ctx.floor(rule, 1)
