"""C01 rules on LogLikelihood.

R01.2 paired permutation: an index obtained by sorting an output's times is
      applied to that output's observations as well.
R01.3 selector cardinality: the per-output selector of model outputs has one
      entry per observation — either an integer index per observation time,
      or a boolean mask over the de-duplicated union grid together with a
      constructor guard that rejects repeated times.
R01.4 counts: n_observations reports one count per output.
"""
import ast

from ..loader import U, norm_stmt, AnalysisError

CLS = 'LogLikelihood'


def _defs(fn, name):
    return [a for a in ast.walk(fn) if isinstance(a, ast.Assign)
            and any(U(t) == name for t in a.targets)]


def r01_2(ctx, repo):
    rule = 'R01.2'
    fn = repo.method(CLS, '__init__')
    construct = CLS + '.__init__'
    sorts = [a for a in ast.walk(fn) if isinstance(a, ast.Assign)
             and isinstance(a.value, ast.Call)
             and U(a.value.func) == 'np.argsort']
    if not sorts:
        ctx.ok(rule, repo.loc(fn, CLS, fn.name), construct,
               'no re-ordering of the times in the constructor')
        return
    for a in sorts:
        idx = U(a.targets[0])
        loop = None
        cur = getattr(a, '_parent', None)
        while cur is not None and cur is not fn:
            if isinstance(cur, ast.For):
                loop = cur
                break
            cur = getattr(cur, '_parent', None)
        scope = loop if loop is not None else fn
        applied = [s for s in ast.walk(scope) if isinstance(s, ast.Assign)
                   and isinstance(s.value, ast.Subscript)
                   and U(s.value.slice) == idx]
        tg = {U(s.targets[0]).split('[')[0] for s in applied}
        where = repo.loc(a, CLS, fn.name)
        if 'times' in tg and 'observations' in tg:
            keys = {U(s.targets[0]).split('[', 1)[1] for s in applied
                    if '[' in U(s.targets[0])}
            if len(keys) == 1:
                ctx.ok(rule, where, construct,
                       'the permutation `%s` that sorts an output\'s times '
                       'is applied to the same output\'s observations' % idx)
            else:
                ctx.violation(rule, where, construct, 'index mismatch',
                              'times and observations are re-ordered under '
                              'different output indices %s' % sorted(keys))
        elif 'times' in tg:
            ctx.violation(
                rule, where, construct, 'observations not permuted',
                'the times of an output are sorted with `%s` but its '
                'observations are not re-ordered with the same index: '
                'values are paired with the wrong time points for unsorted '
                'input' % idx)
        else:
            ctx.error(rule, '%s: use of `%s` not recognised' % (
                construct, idx))


def r01_3(ctx, repo):
    rule = 'R01.3'
    fn = repo.method(CLS, '_arange_times_for_mechanistic_model')
    construct = CLS + '._arange_times_for_mechanistic_model'
    store = _defs(fn, 'self._obs_masks')
    if len(store) != 1:
        ctx.error(rule, '%s: store of the per-output selector not found'
                  % construct)
        return
    src = store[0].value
    name = U(src)
    d = _defs(fn, name) if isinstance(src, ast.Name) else []
    init = d[0].value if d else src
    txt = U(init)
    kind = None
    if 'searchsorted' in txt or 'np.where' in txt or 'argwhere' in txt \
            or 'nonzero' in txt:
        kind = 'index'
    elif 'dtype=bool' in txt or 'np.isin' in txt or 'in1d' in txt:
        kind = 'mask'
    where = repo.loc(store[0], CLS, fn.name)
    if kind is None:
        ctx.error(rule, '%s: selector `%s` is neither an index array nor a '
                  'boolean mask' % (construct, txt[:60]))
        return
    if kind == 'index':
        ctx.ok(rule, where, construct,
               'one integer index of the union grid per observation time '
               '(repeated times select the same model output)')
        return
    # boolean mask over the union grid: is the grid de-duplicated?
    dedup = any(isinstance(c, ast.Call) and U(c.func) in (
        'set', 'np.unique', 'np.union1d', 'sorted(set')
        for c in ast.walk(fn))
    init_fn = repo.method(CLS, '__init__')
    guards = []
    for t in ast.walk(init_fn):
        if isinstance(t, ast.Compare) and len(t.ops) == 1 and \
                '[:-1]' in U(t.left) and '[1:]' in U(t.comparators[0]):
            guards.append(t)
    uniq = [c for c in ast.walk(init_fn) if isinstance(c, ast.Compare)
            and 'np.unique' in U(c) and 'len(' in U(c)]
    if not dedup:
        ctx.ok(rule, where, construct,
               'boolean mask over a grid that keeps repeated times')
        return
    strict = [g for g in guards if isinstance(g.ops[0], ast.GtE)]
    loose = [g for g in guards if isinstance(g.ops[0], ast.Gt)]
    if strict or uniq:
        ctx.ok(rule, where, construct,
               'boolean mask over the de-duplicated union grid; the '
               'constructor rejects repeated times')
    elif loose:
        g = loose[0]
        ctx.violation(
            rule, repo.loc(g, CLS, '__init__'), CLS + '.__init__',
            'ties accepted',
            'the constructor only rejects decreasing times (`%s`), so a '
            'repeated time point is accepted; the union grid is '
            'de-duplicated and the per-output selector is a boolean mask '
            'over it, which then has fewer True entries than the output has '
            'observations: the object is constructed without error but '
            'every evaluation raises' % U(g))
    else:
        ctx.violation(
            rule, where, construct, 'no tie guard',
            'a boolean mask over the de-duplicated union grid needs a '
            'constructor guard against repeated times; none was found')


def r01_4(ctx, repo):
    rule = 'R01.4'
    fn = repo.method(CLS, '__init__')
    construct = CLS + '.__init__'
    d = _defs(fn, 'self._n_obs')
    from ..seqs import SeqEval, END
    val = SeqEval(['observations', 'self._observations']).ev(
        d[0].value) if len(d) == 1 else None
    if val is not None and len(val) == 1 and val[0].lo == '0' and \
            val[0].hi == END and val[0].tf == 'len($)' and not val[0].sub:
        ctx.ok(rule, repo.loc(d[0], CLS, fn.name), construct,
               'n_observations = one count per output')
    else:
        ctx.error(rule, '%s: n_observations idiom not recognised (%s)' % (
            construct, U(d[0].value) if d else 'no assignment'))
    g = repo.method(CLS, 'n_observations')
    from ..loader import returned_expr
    if any(isinstance(r, ast.Return) and r.value is not None and U(
            returned_expr(g, r)) == 'self._n_obs' for r in ast.walk(g)):
        ctx.ok(rule, repo.loc(g, CLS, g.name), CLS + '.n_observations',
               'reports the stored per-output counts')
    else:
        ctx.error(rule, 'n_observations does not return self._n_obs')
