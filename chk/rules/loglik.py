"""C01 rules on LogLikelihood.

R01.2 paired permutation: an index obtained by sorting an output's times is
      applied to that output's observations as well.
R01.3 selector cardinality: the per-output selector of model outputs has one
      entry per observation — either an integer index per observation time,
      or a boolean mask over the de-duplicated union grid together with a
      constructor guard that rejects repeated times.
R01.4 counts: n_observations reports one count per output.
"""
import ast

from ..loader import U, norm_stmt, AnalysisError

CLS = 'LogLikelihood'


def _defs(fn, name):
    return [a for a in ast.walk(fn) if isinstance(a, ast.Assign)
            and any(U(t) == name for t in a.targets)]


def r01_2(ctx, repo):
    rule = 'R01.2'
    fn = repo.method(CLS, '__init__')
    construct = CLS + '.__init__'
    sorts = [a for a in ast.walk(fn) if isinstance(a, ast.Assign)
             and isinstance(a.value, ast.Call)
             and U(a.value.func) == 'np.argsort']
    if not sorts:
        ctx.ok(rule, repo.loc(fn, CLS, fn.name), construct,
               'no re-ordering of the times in the constructor')
        return
    for a in sorts:
        idx = U(a.targets[0])
        loop = None
        cur = getattr(a, '_parent', None)
        while cur is not None and cur is not fn:
            if isinstance(cur, ast.For):
                loop = cur
                break
            cur = getattr(cur, '_parent', None)
        scope = loop if loop is not None else fn
        applied = [s for s in ast.walk(scope) if isinstance(s, ast.Assign)
                   and isinstance(s.value, ast.Subscript)
                   and U(s.value.slice) == idx]
        tg = {U(s.targets[0]).split('[')[0] for s in applied}
        where = repo.loc(a, CLS, fn.name)
        if 'times' in tg and 'observations' in tg:
            keys = {U(s.targets[0]).split('[', 1)[1] for s in applied
                    if '[' in U(s.targets[0])}
            if len(keys) == 1:
                ctx.ok(rule, where, construct,
                       'the permutation `%s` that sorts an output\'s times '
                       'is applied to the same output\'s observations' % idx)
            else:
                ctx.violation(rule, where, construct, 'index mismatch',
                              'times and observations are re-ordered under '
                              'different output indices %s' % sorted(keys))
        elif 'times' in tg:
            ctx.violation(
                rule, where, construct, 'observations not permuted',
                'the times of an output are sorted with `%s` but its '
                'observations are not re-ordered with the same index: '
                'values are paired with the wrong time points for unsorted '
                'input' % idx)
        else:
            ctx.error(rule, '%s: use of `%s` not recognised' % (
                construct, idx))


def r01_3(ctx, repo):
    rule = 'R01.3'
    fn = repo.method(CLS, '_arange_times_for_mechanistic_model')
    construct = CLS + '._arange_times_for_mechanistic_model'
    store = _defs(fn, 'self._obs_masks')
    if len(store) != 1:
        ctx.error(rule, '%s: store of the per-output selector not found'
                  % construct)
        return
    src = store[0].value
    name = U(src)
    d = _defs(fn, name) if isinstance(src, ast.Name) else []
    init = d[0].value if d else src
    txt = U(init)
    if isinstance(init, ast.List) and not init.elts and isinstance(
            src, ast.Name):
        # the list is filled in a loop: judge what is appended
        parts = []
        for c in ast.walk(fn):
            if isinstance(c, ast.Call) and isinstance(
                    c.func, ast.Attribute) and c.func.attr == 'append' \
                    and U(c.func.value) == name and c.args:
                e = c.args[0]
                if isinstance(e, ast.Name) and _defs(fn, e.id):
                    e = _defs(fn, e.id)[-1].value
                parts.append(U(e))
        if parts:
            txt = ' ; '.join(parts)
    kind = None
    if 'searchsorted' in txt or 'np.where' in txt or 'argwhere' in txt \
            or 'nonzero' in txt:
        kind = 'index'
    elif 'dtype=bool' in txt or 'np.isin' in txt or 'in1d' in txt:
        kind = 'mask'
    where = repo.loc(store[0], CLS, fn.name)
    if kind is None:
        ctx.error(rule, '%s: selector `%s` is neither an index array nor a '
                  'boolean mask' % (construct, txt[:60]))
        return
    if kind == 'index':
        ctx.ok(rule, where, construct,
               'one integer index of the union grid per observation time '
               '(repeated times select the same model output)')
        # a binary search needs a sorted grid
        for c in ast.walk(fn):
            if not (isinstance(c, ast.Call) and U(c.func) in (
                    'np.searchsorted', 'numpy.searchsorted') and c.args):
                continue
            grid = c.args[0]
            is_sorted = None
            hops = 0
            cur = grid
            line = c.lineno
            while hops < 8:
                hops += 1
                if isinstance(cur, ast.Call) and U(cur.func) in (
                        'sorted', 'np.sort', 'np.unique', 'numpy.sort',
                        'numpy.unique'):
                    is_sorted = True
                    break
                if isinstance(cur, ast.Call) and cur.args and U(
                        cur.func) in ('pints.vector', 'np.array',
                                      'np.asarray', 'list', 'tuple',
                                      'np.copy'):
                    cur = cur.args[0]
                    continue
                if isinstance(cur, ast.Name):
                    d = [a for a in ast.walk(fn) if isinstance(a, ast.Assign)
                         and any(U(t) == cur.id for t in a.targets)
                         and a.lineno < line]
                    if not d:
                        break
                    d.sort(key=lambda a: a.lineno)
                    line = d[-1].lineno
                    cur = d[-1].value
                    continue
                is_sorted = False
                break
            w2 = repo.loc(c, CLS, fn.name)
            if is_sorted:
                ctx.ok(rule, w2, construct,
                       'the grid that is searched is sorted')
            elif is_sorted is False:
                ctx.violation(
                    rule, w2, construct, 'search in unsorted grid',
                    '`%s` looks the observation times up by binary search '
                    'in `%s`, which is built by `%s` and not sorted: for '
                    'grids that interleave between outputs the positions '
                    'are wrong (or out of range)' % (
                        U(c)[:50], U(grid), U(cur)[:50]))
            else:
                ctx.error(rule, '%s: order of the searched grid `%s` not '
                          'derived' % (construct, U(grid)))
        return
    # boolean mask over the union grid: is the grid de-duplicated?
    dedup = any(isinstance(c, ast.Call) and U(c.func) in (
        'set', 'np.unique', 'np.union1d', 'sorted(set')
        for c in ast.walk(fn))
    init_fn = repo.method(CLS, '__init__')
    guards = []
    for t in ast.walk(init_fn):
        if isinstance(t, ast.Compare) and len(t.ops) == 1 and \
                '[:-1]' in U(t.left) and '[1:]' in U(t.comparators[0]):
            guards.append(t)
    uniq = [c for c in ast.walk(init_fn) if isinstance(c, ast.Compare)
            and 'np.unique' in U(c) and 'len(' in U(c)]
    if not dedup:
        ctx.ok(rule, where, construct,
               'boolean mask over a grid that keeps repeated times')
        return
    strict = [g for g in guards if isinstance(g.ops[0], ast.GtE)]
    loose = [g for g in guards if isinstance(g.ops[0], ast.Gt)]
    if strict or uniq:
        ctx.ok(rule, where, construct,
               'boolean mask over the de-duplicated union grid; the '
               'constructor rejects repeated times')
    elif loose:
        g = loose[0]
        ctx.violation(
            rule, repo.loc(g, CLS, '__init__'), CLS + '.__init__',
            'ties accepted',
            'the constructor only rejects decreasing times (`%s`), so a '
            'repeated time point is accepted; the union grid is '
            'de-duplicated and the per-output selector is a boolean mask '
            'over it, which then has fewer True entries than the output has '
            'observations: the object is constructed without error but '
            'every evaluation raises' % U(g))
    else:
        ctx.violation(
            rule, where, construct, 'no tie guard',
            'a boolean mask over the de-duplicated union grid needs a '
            'constructor guard against repeated times; none was found')


def r01_4(ctx, repo):
    rule = 'R01.4'
    fn = repo.method(CLS, '__init__')
    construct = CLS + '.__init__'
    d = _defs(fn, 'self._n_obs')
    from ..seqs import SeqEval, END
    val = SeqEval(['observations', 'self._observations']).ev(
        d[0].value) if len(d) == 1 else None
    if val is not None and len(val) == 1 and val[0].lo == '0' and \
            val[0].hi == END and val[0].tf == 'len($)' and not val[0].sub:
        ctx.ok(rule, repo.loc(d[0], CLS, fn.name), construct,
               'n_observations = one count per output')
    else:
        ctx.error(rule, '%s: n_observations idiom not recognised (%s)' % (
            construct, U(d[0].value) if d else 'no assignment'))
    g = repo.method(CLS, 'n_observations')
    from ..loader import returned_expr
    if any(isinstance(r, ast.Return) and r.value is not None and U(
            returned_expr(g, r)) == 'self._n_obs' for r in ast.walk(g)):
        ctx.ok(rule, repo.loc(g, CLS, g.name), CLS + '.n_observations',
               'reports the stored per-output counts')
    else:
        ctx.error(rule, 'n_observations does not return self._n_obs')


# -----------------------------------------------------------------------------
# R01.5 — the per-output selector is applied on every path
# -----------------------------------------------------------------------------
def r01_5(ctx, repo):
    """In the per-output loops of LogLikelihood the simulated values (and
    their sensitivities) handed to an error model are the entries of the
    union grid selected by that output's selector `self._obs_masks[k]`, on
    every path.  A selection that is skipped under a run-time condition (for
    instance "lengths already agree") pairs observations with the
    predictions of other time points whenever the condition holds by
    coincidence."""
    rule = 'R01.5'
    SEL = 'self._obs_masks'
    n = 0
    for m in ('__call__', 'evaluateS1', 'compute_pointwise_ll'):
        fn = repo.method(CLS, m)
        if fn is None:
            continue
        construct = '%s.%s' % (CLS, m)
        for loop in [l for l in ast.walk(fn) if isinstance(l, ast.For)]:
            calls = [c for c in ast.walk(loop) if isinstance(c, ast.Call)
                     and isinstance(c.func, ast.Attribute)
                     and c.func.attr in ('compute_log_likelihood',
                                         'compute_pointwise_ll',
                                         'compute_sensitivities')]
            if not calls:
                continue
            state = {}          # local name -> 'SEL' | 'RAW' | 'MIXED'
            # locals of the loop that hold the output's selector itself
            selnames = {a.targets[0].id for a in ast.walk(loop)
                        if isinstance(a, ast.Assign) and len(a.targets) == 1
                        and isinstance(a.targets[0], ast.Name)
                        and isinstance(a.value, ast.Subscript)
                        and U(a.value.value) == SEL
                        and sum(1 for b in ast.walk(loop) if isinstance(
                            b, ast.Assign) and any(
                                U(t) == a.targets[0].id for t in b.targets))
                        == 1}

            # ... or that the loop header pairs with the selectors:
            # `for k, (em, mask, ..) in enumerate(zip(.., self._obs_masks))`
            it = loop.iter
            tg = loop.target
            if isinstance(it, ast.Call) and U(it.func) == 'enumerate' \
                    and it.args and isinstance(tg, ast.Tuple) and len(
                        tg.elts) == 2:
                it, tg = it.args[0], tg.elts[1]
            if isinstance(it, ast.Name):
                d_ = [a for a in ast.walk(fn) if isinstance(a, ast.Assign)
                      and len(a.targets) == 1 and U(a.targets[0]) == it.id]
                if len(d_) == 1:
                    it = d_[0].value
            if isinstance(it, ast.Call) and U(it.func) == 'zip' and \
                    isinstance(tg, ast.Tuple) and len(tg.elts) == len(
                        it.args):
                for a_, t_ in zip(it.args, tg.elts):
                    if U(a_) == SEL and isinstance(t_, ast.Name):
                        selnames.add(t_.id)

            def kind(e):
                if isinstance(e, ast.Name):
                    return state.get(e.id)
                if isinstance(e, ast.Subscript):
                    if SEL in U(e.slice) or any(
                            isinstance(x, ast.Name) and x.id in selnames
                            for x in ast.walk(e.slice)):
                        return 'SEL'
                    k = kind(e.value)
                    if k:
                        return k
                    if any(isinstance(x, ast.Name) and x.id in (
                            'outputs', 'senss') for x in ast.walk(e.value)):
                        return 'RAW'
                    return None
                if isinstance(e, ast.Call) and e.args and U(e.func) in (
                        'np.asarray', 'np.array', 'np.copy'):
                    return kind(e.args[0])
                if isinstance(e, ast.Name) is False and isinstance(
                        e, ast.Attribute) and e.attr == 'T':
                    return kind(e.value)
                return None

            def visit(stmts):
                for s in stmts:
                    if isinstance(s, ast.If):
                        before = dict(state)
                        visit(s.body)
                        a = dict(state)
                        state.clear()
                        state.update(before)
                        visit(s.orelse)
                        b = dict(state)
                        for k_ in set(a) | set(b):
                            va, vb = a.get(k_), b.get(k_)
                            state[k_] = va if va == vb else 'MIXED'
                        continue
                    if isinstance(s, (ast.Try, ast.With)):
                        visit(s.body)
                        continue
                    for c in ast.walk(s):
                        if c in calls:
                            check(c)
                    if isinstance(s, ast.Assign) and len(s.targets) == 1 \
                            and isinstance(s.targets[0], ast.Name):
                        k_ = kind(s.value)
                        if k_:
                            state[s.targets[0].id] = k_
                        else:
                            state.pop(s.targets[0].id, None)

            def check(c):
                nonlocal n
                args = {k.arg: k.value for k in c.keywords if k.arg}
                pos = list(c.args)
                want = [('model_output', 1)]
                if c.func.attr == 'compute_sensitivities':
                    want.append(('model_sensitivities', 2))
                for name, p in want:
                    a = args.get(name, pos[p] if len(pos) > p else None)
                    if a is None:
                        continue
                    n += 1
                    k_ = kind(a)
                    where = repo.loc(c, CLS, m)
                    if k_ == 'SEL':
                        ctx.ok(rule, where, construct,
                               '%s of `%s` is the selection by the '
                               'output\'s selector on every path' % (
                                   name, c.func.attr))
                    elif k_ in ('RAW', 'MIXED'):
                        ctx.violation(
                            rule, where, construct,
                            'selector skipped %s' % name,
                            '`%s` handed to %s is %s: the predictions on '
                            'the union grid of all outputs are paired with '
                            'this output\'s observations position by '
                            'position' % (
                                U(a)[:30], c.func.attr,
                                'selected with self._obs_masks only on some '
                                'paths' if k_ == 'MIXED' else
                                'not selected with self._obs_masks'))
                    else:
                        ctx.error(rule, '%s: provenance of %s `%s` not '
                                  'derived' % (construct, name, U(a)[:30]))
            visit(loop.body)
    if n < 4:
        ctx.error(rule, 'only %d error-model calls analysed (floor 4)' % n)
