"""Interface rules over the class hierarchy (engine A).

R02.1 exhaustiveness: every interface method invoked on a chi-typed receiver
      resolves to a non-abstract body in every concrete class the receiver may
      be.
R02.7 keyword/arity compatibility of those calls with every resolved callee.
R02.6 classification of pooled / heterogeneous dimensions goes through the
      interface, never through isinstance on the elementary classes.
R02.2 wrappers forward state-changing interface methods and keep no stale
      cache of a count that the forwarded call can change.
"""
import ast

from ..loader import U, norm_stmt
from ..types import Types

SKIP_FILES = ('chi/plots', 'chi/library')


def _guarded_type(repo, call):
    """`x.m(..)` evaluated only when `isinstance(x, chi.K)` holds (the true
    arm of a conditional expression / the body of an `if` with that test):
    the receiver is a K there."""
    recv = call.func.value
    if not isinstance(recv, ast.Name):
        return None
    child, cur = call, getattr(call, '_parent', None)
    while cur is not None and not isinstance(cur, (ast.FunctionDef,
                                                   ast.ClassDef)):
        test = None
        if isinstance(cur, ast.IfExp) and child is cur.body:
            test = cur.test
        if isinstance(cur, ast.If) and any(child is b for b in cur.body):
            test = cur.test
        if isinstance(test, ast.Call) and U(test.func) == 'isinstance' \
                and len(test.args) == 2 and U(test.args[0]) == recv.id:
            names = [U(e).split('.')[-1] for e in (
                test.args[1].elts if isinstance(test.args[1], ast.Tuple)
                else [test.args[1]])]
            names = [n_ for n_ in names if repo.has_cls(n_)]
            if len(names) == 1:
                return (names[0], frozenset())
        child, cur = cur, getattr(cur, '_parent', None)
    return None


def _sites(repo, T, base_filter=None):
    """Yield (rel, cls, fn, call, type) for calls on chi-typed receivers."""
    for rel, cls, fn in repo.all_functions():
        if rel.startswith(SKIP_FILES):
            continue
        for n in ast.walk(fn):
            if isinstance(n, ast.Call) and isinstance(n.func, ast.Attribute):
                t = T.type_of(n.func.value, cls, fn)
                if not t:
                    t = _guarded_type(repo, n)
                if not t or t[0] == 'list':
                    continue
                if base_filter and not base_filter(t):
                    continue
                yield rel, cls, fn, n, t


def _injected_kwargs(fn):
    out = set()
    for n in ast.walk(fn):
        if isinstance(n, ast.Assign) and len(n.targets) == 1:
            t = n.targets[0]
            if isinstance(t, ast.Subscript) and isinstance(
                    t.value, ast.Name) and t.value.id == 'kwargs' \
                    and isinstance(t.slice, ast.Constant):
                out.add(t.slice.value)
    return out


def _enclosing_abstract(repo, fn):
    return repo.is_abstract(fn)


def _unreachable_explicit(fn, call):
    """The call sits after an unconditional `raise NotImplementedError` at
    function level (explicitly unimplemented path)."""
    for s in fn.body:
        if isinstance(s, ast.Raise):
            return s.lineno < call.lineno
    return False


def r02_1(ctx, repo):
    rule = 'R02.1'
    T = Types(repo)
    exported = repo.exported()
    seen = {}
    for rel, cls, fn, call, t in _sites(repo, T):
        if _enclosing_abstract(repo, fn) or _unreachable_explicit(fn, call):
            continue
        m = call.func.attr
        for k in T.candidates(t):
            if exported and k not in exported:
                continue
            # the abstract root itself is not a concrete candidate
            kk, d = repo.resolve(k, m)
            if d is None:
                continue      # not part of this class's interface (R02.7)
            if is_abstract_base(repo, k):
                continue
            key = (k, m)
            construct = '%s.%s' % (k, m)
            caller = '%s.%s' % (cls, fn.name) if cls else fn.name
            if repo.is_abstract(d):
                if key in seen:
                    continue
                seen[key] = True
                ctx.violation(
                    rule, repo.loc(call, cls, fn.name), construct,
                    'abstract',
                    '%s calls `%s` on a %s-typed receiver, but class %s '
                    'resolves it to the abstract %s.%s (raises '
                    'NotImplementedError)' % (
                        caller, m, _tname(t), k, kk, m),
                    caller=caller, receiver=U(call.func.value))
            else:
                if key in seen:
                    continue
                seen[key] = True
                ctx.ok(rule, repo.loc(call, cls, fn.name), construct,
                       '`%s` called from %s resolves to concrete %s.%s' % (
                           m, caller, kk, m))
    ctx.floor(rule, 100)


def is_abstract_base(repo, k):
    """A class that defines abstract methods itself and has subclasses."""
    own = any(repo.is_abstract(x) for x in repo.cls(k).methods.values())
    return own and len(repo.subclasses(k, strict=True)) > 0


# (construct, key) -> reason; reported as notes, never as violations
EXEMPT_R02_7 = {
    ('compute_pointwise_loglikelihood -> HierarchicalLogLikelihood.get_id',
     'args individual_ids'):
        'hierarchical pointwise path is explicitly unimplemented: '
        'HierarchicalLogLikelihood.compute_pointwise_ll raises '
        'NotImplementedError (function is marked `pragma: no cover`)',
}


def _tname(t):
    b = t[0]
    return '|'.join(b) if isinstance(b, tuple) else b


def r02_7(ctx, repo):
    rule = 'R02.7'
    T = Types(repo)
    reported = set()
    for rel, cls, fn, call, t in _sites(repo, T):
        m = call.func.attr
        inj = _injected_kwargs(fn)
        has_star_kw = any(k.arg is None for k in call.keywords)
        has_star = any(isinstance(a, ast.Starred) for a in call.args)
        kws = {k.arg for k in call.keywords if k.arg}
        if has_star_kw:
            kws |= inj
        npos = len([a for a in call.args if not isinstance(a, ast.Starred)])
        caller = '%s.%s' % (cls, fn.name) if cls else fn.name
        any_cand = False
        for k in T.candidates(t):
            kk, d = repo.resolve(k, m)
            if d is None or is_abstract_base(repo, k):
                continue
            any_cand = True
            a = d.args
            params = [x.arg for x in a.posonlyargs + a.args][1:]
            names = params + [x.arg for x in a.kwonlyargs]
            bad = sorted(kw for kw in kws if kw not in names
                         and a.kwarg is None)
            if npos > len(params) and a.vararg is None:
                bad.append('<%d positional>' % npos)
            # keyword that duplicates a positional
            for i, p in enumerate(params[:npos]):
                if p in kws:
                    bad.append('<%s given twice>' % p)
            # required parameters not supplied (no *args/**kwargs at the site)
            if not has_star and not has_star_kw:
                n_req = len(params) - len(a.defaults)
                for p in params[npos:n_req]:
                    if p not in kws:
                        bad.append('<missing %s>' % p)
            construct = '%s -> %s.%s' % (caller, kk, m)
            if bad:
                key = 'args ' + ','.join(bad)
                if (construct, key) in reported:
                    continue
                reported.add((construct, key))
                if k == cls:
                    ctx.note(rule, '%s: a %s nested in a %s is constructible '
                             'but `%s` would be rejected (%s) — self-nesting '
                             'of a wrapper, not armed' % (
                                 repo.loc(call, cls, fn.name), k, cls, m,
                                 ', '.join(bad)))
                    continue
                if (construct, key) in EXEMPT_R02_7:
                    ctx.note(rule, '%s %s %s — not armed: %s' % (
                        repo.loc(call, cls, fn.name), construct, key,
                        EXEMPT_R02_7[(construct, key)]))
                    continue
                ctx.violation(
                    rule, repo.loc(call, cls, fn.name), construct, key,
                    'call `%s` passes %s, which %s.%s(%s) does not accept '
                    '(receiver may be a %s)' % (
                        norm_stmt(call)[:70], ', '.join(bad), kk, m,
                        ', '.join(names) + (', *' + a.vararg.arg
                                            if a.vararg else '')
                        + (', **' + a.kwarg.arg if a.kwarg else ''), k),
                    receiver_class=k)
            else:
                ctx.ok(rule, repo.loc(call, cls, fn.name), construct,
                       'arguments of `%s(...)` accepted by %s.%s' % (
                           m, kk, m))
    ctx.floor(rule, 300)


ELEMENTARY_SPECIAL = ('PooledModel', 'HeterogeneousModel')


def r02_6(ctx, repo, files=('chi/_log_pdfs.py', 'chi/_predictive_models.py',
                            'chi/_problems.py', 'chi/_inference.py',
                            'chi/_population_models.py')):
    """isinstance(x, PooledModel|HeterogeneousModel) outside the population
    model module decides a layout by class identity; wrappers (Reduced,
    Covariate) forward the interface but are not instances."""
    rule = 'R02.6'
    n = 0
    for rel, cls, fn in repo.all_functions(files):
        uses_iface = False
        hits = []
        for c in ast.walk(fn):
            if isinstance(c, ast.Call) and isinstance(c.func, ast.Attribute) \
                    and c.func.attr in ('get_special_dims',
                                        'n_hierarchical_dim',
                                        'n_hierarchical_parameters'):
                uses_iface = True
            if isinstance(c, ast.Call) and isinstance(c.func, ast.Name) \
                    and c.func.id == 'isinstance' and len(c.args) == 2:
                names = [U(e).split('.')[-1] for e in (
                    c.args[1].elts if isinstance(c.args[1], ast.Tuple)
                    else [c.args[1]])]
                sp = [x for x in names if x in ELEMENTARY_SPECIAL]
                if sp:
                    hits.append((c, sp))
        construct = '%s.%s' % (cls, fn.name) if cls else fn.name
        for c, sp in hits:
            n += 1
            ctx.violation(
                rule, repo.loc(c, cls, fn.name), construct,
                'isinstance ' + '|'.join(sorted(set(sp))),
                'pooled/heterogeneous dimensions are classified by '
                '`%s`; a %s wrapped in a CovariatePopulationModel or '
                'ReducedPopulationModel forwards get_special_dims() / '
                'n_hierarchical_dim() but is not an instance, so its '
                'dimensions are treated as hierarchical' % (
                    norm_stmt(c), '/'.join(sp)))
        if uses_iface and not hits:
            n += 1
            ctx.ok(rule, repo.loc(fn, cls, fn.name), construct,
                   'special dimensions found through the interface only')
    ctx.floor(rule, 6)


def r02_6_fixture():
    src = ('def f(self, pop_model):\n'
           '    if isinstance(pop_model, (chi.PooledModel, '
           'chi.HeterogeneousModel)):\n        return 0\n')
    fn = ast.parse(src).body[0]
    for c in ast.walk(fn):
        if isinstance(c, ast.Call) and U(c.func) == 'isinstance':
            return 'PooledModel' in U(c.args[1])
    return False
