"""R08.5 — derived-state refresh in composite objects (engine D).

A *cache* is a field of a composite class W whose value is computed from
getters of W's sub-models (n_parameters(), get_parameter_names(), ...).  A
*reconfiguration* is a statement of a method of W that calls a mutator on a
sub-model which can change one of those getters (decided from field effects:
writes(mutator) meets reads(getter) in some candidate class), or that rebinds
a sub-model field.  After the last reconfiguration of a method every affected
cache must be re-assigned (directly or through a self-call).
"""
import ast

from ..loader import U, norm_stmt
from ..types import Types
from ..effects import Effects, _self_field
from .iface import is_abstract_base

COMPOSITES = ('LogLikelihood', 'PredictiveModel', 'PopulationPredictiveModel',
              'ProblemModellingController', 'HierarchicalLogLikelihood',
              'ReducedMechanisticModel', 'ReducedErrorModel')
MUTATOR_PREFIX = ('set_', 'fix_', 'enable_')


def _submodel_type(T, cls, fn, expr):
    t = T.type_of(expr, cls, fn)
    if t is None:
        return None
    return t[1] if t[0] == 'list' else t


def _getter_calls(T, cls, fn, expr):
    """Getter calls on sub-model typed receivers inside expr."""
    out = []
    for n in ast.walk(expr):
        if isinstance(n, ast.Call) and isinstance(n.func, ast.Attribute) \
                and not n.func.attr.startswith(MUTATOR_PREFIX):
            t = _submodel_type(T, cls, fn, n.func.value)
            if t is not None and t[0] != 'list':
                out.append((n.func.attr, t))
    return out


def caches_of(repo, T, cls):
    """field -> set of (getter, type) it is computed from; and the methods
    that assign it."""
    caches = {}
    writers = {}
    for m, fn in repo.cls(cls).methods.items():
        taint = {}          # local name -> set of (getter, type)
        changed = True
        rounds = 0
        while changed and rounds < 4:
            changed = False
            rounds += 1
            for s in ast.walk(fn):
                src = None
                tgt = None
                if isinstance(s, ast.Assign) and len(s.targets) == 1:
                    tgt, src = s.targets[0], s.value
                elif isinstance(s, ast.AugAssign):
                    tgt, src = s.target, s.value
                elif isinstance(s, ast.Expr) and isinstance(
                        s.value, ast.Call) and isinstance(
                        s.value.func, ast.Attribute) and s.value.func.attr \
                        in ('append', 'extend') and isinstance(
                        s.value.func.value, ast.Name) and s.value.args:
                    tgt, src = s.value.func.value, s.value.args[0]
                if tgt is None:
                    continue
                g = set(_getter_calls(T, cls, fn, src))
                for x in ast.walk(src):
                    if isinstance(x, ast.Name) and x.id in taint:
                        g |= taint[x.id]
                    f = _self_field(x) if isinstance(
                        x, ast.Attribute) else None
                    if f and f in caches:
                        g |= caches[f]
                if not g:
                    continue
                for t in (tgt.elts if isinstance(tgt, ast.Tuple) else [tgt]):
                    if isinstance(t, ast.Name):
                        if not g <= taint.get(t.id, set()):
                            taint.setdefault(t.id, set()).update(g)
                            changed = True
                    else:
                        f = _self_field(t)
                        if f and T.field(cls, f) is None:
                            if not g <= caches.get(f, set()):
                                caches.setdefault(f, set()).update(g)
                                changed = True
                            writers.setdefault(f, set()).add(m)
    return caches, writers


def _changed_getters(repo, T, E, t, mutator, depth=0):
    """Getters whose value mutator may change, for receiver type t."""
    out = set()
    for K in T.candidates(t):
        if is_abstract_base(repo, K):
            continue
        k, fn = repo.resolve(K, mutator)
        if fn is None:
            continue
        w, _, fcw = E.summary(K, mutator)
        fwd_fields = {f for f, name, _ in fcw if name == mutator}
        inner = set()
        if fwd_fields and depth < 2:
            for f in fwd_fields:
                ft = T.field(K, f)
                if ft is not None and ft[0] != 'list':
                    inner |= _changed_getters(repo, T, E, ft, mutator,
                                              depth + 1)
        seen = set()
        for kk in repo.mro(K):
            for g in repo.cls(kk).methods:
                if g in seen or g.startswith(MUTATOR_PREFIX + ('_',)):
                    continue
                seen.add(g)
                _, r, fcg = E.summary(K, g)
                if w & r:
                    out.add(g)
                    continue
                # getter forwarded to the same wrapped field
                for f, name, _ in fcg:
                    if f in fwd_fields and name in inner:
                        out.add(g)
    return out


def r08_5(ctx, repo):
    rule = 'R08.5'
    T = Types(repo)
    E = Effects(repo)
    n = 0
    precise = [None]
    for cls in COMPOSITES:
        if not repo.has_cls(cls):
            continue
        caches, writers = caches_of(repo, T, cls)
        if not caches:
            continue
        sub_fields = {f for (k, f) in T.fields if k in repo.mro(cls)}
        for m, fn in sorted(repo.cls(cls).methods.items()):
            if (m.startswith('_') and m != '__init__') or m == 'copy':
                continue
            # reconfiguration events at statement granularity
            events = []     # (stmt index, description, changed getters)
            rebinds = []
            body = fn.body
            for i, s in enumerate(body):
                for c in ast.walk(s):
                    if isinstance(c, ast.Call) and isinstance(
                            c.func, ast.Attribute) and c.func.attr.startswith(
                            MUTATOR_PREFIX):
                        t = _submodel_type(T, cls, fn, c.func.value)
                        if t is None or U(c.func.value) == 'self':
                            continue
                        ch = _changed_getters(repo, T, E, t, c.func.attr)
                        if c.func.attr == 'set_n_ids' and \
                                'PopulationModel' in T.candidates(t) + [
                                    t[0]]:
                            # precise least-fixpoint set (value dependence
                            # on the argument), see wrappers.Changed
                            if precise[0] is None:
                                from .wrappers import Changed
                                precise[0] = Changed(repo,
                                                     'set_n_ids').getters
                            ch = ch & precise[0]
                        if ch:
                            events.append((i, norm_stmt(c)[:50], ch, t))
                    if isinstance(c, ast.Assign):
                        for tg in c.targets:
                            f = _self_field(tg)
                            if f in sub_fields and not (
                                    isinstance(c.value, ast.Constant)):
                                rebinds.append((i, norm_stmt(c)[:50],
                                                T.field(cls, f)))
            # a rebinding (wrapping / unwrapping) changes what the mutators
            # applied to that kind of sub-model in this method change
            for i, desc, ft in rebinds:
                et = ft[1] if ft and ft[0] == 'list' else ft
                ch = set()
                for _, _, c2, t2 in events:
                    if et is not None and t2 is not None and (
                            set(T.candidates(et)) & set(T.candidates(t2))):
                        ch |= c2
                if ch:
                    events.append((i, desc, ch, et))
            if not events:
                continue
            last = max(e[0] for e in events)
            # writes after the last reconfiguration
            after = set()
            for s in body[last:]:
                for a in ast.walk(s):
                    if isinstance(a, (ast.Assign, ast.AugAssign)):
                        tg = a.targets if isinstance(a, ast.Assign) \
                            else [a.target]
                        for t in tg:
                            f = _self_field(t)
                            if f and getattr(a, 'lineno', 0) >= \
                                    body[last].lineno:
                                after.add(f)
                    if isinstance(a, ast.Call) and isinstance(
                            a.func, ast.Attribute) and U(
                            a.func.value) == 'self':
                        w, _, _ = E.summary(cls, a.func.attr)
                        if a.lineno > body[last].lineno or s is not \
                                body[last]:
                            after |= w
            construct = '%s.%s' % (cls, m)
            # a constructor has no earlier state: only caches it computes
            # itself *before* the reconfiguration can be stale
            before_last = set()
            for s in body[:last]:
                for a in ast.walk(s):
                    if isinstance(a, (ast.Assign, ast.AugAssign)):
                        tg = a.targets if isinstance(a, ast.Assign) \
                            else [a.target]
                        for t in tg:
                            f0 = _self_field(t)
                            if f0:
                                before_last.add(f0)
            for f, srcs in sorted(caches.items()):
                if m == '__init__' and f not in before_last:
                    continue
                affected = []
                for i, desc, ch, t in events:
                    for g, gt in srcs:
                        same = gt is not None and t is not None and (
                            set(T.candidates(gt)) & set(T.candidates(t)))
                        if not same:
                            continue
                        if g in ch:
                            affected.append((desc, g))
                if not affected:
                    continue
                n += 1
                where = repo.loc(fn, cls, m)
                if f in after:
                    ctx.ok(rule, where, construct,
                           'cache %s (from %s) is recomputed after the '
                           'sub-models are reconfigured' % (
                               f, ', '.join(sorted({g for g, _ in srcs}))))
                else:
                    desc, g = affected[0]
                    ctx.violation(
                        rule, where, construct, 'stale %s' % f,
                        '`%s` can change `%s()` of a sub-model, from which '
                        '%s is computed (in %s), but %s does not recompute '
                        'it afterwards: the object keeps slicing / '
                        'reporting with the old value' % (
                            desc, g, f, ', '.join(sorted(writers.get(
                                f, ['?']))), construct))
    if n < 6:
        ctx.error(rule, 'only %d (method, cache) obligations found '
                  '(floor 6)' % n)
