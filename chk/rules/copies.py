"""Ownership / aliasing rules (engine D).

R19.3  constructors of likelihoods, predictive models, controllers and the
       filter posterior store a copy of every user-supplied mechanistic /
       error / population / filter model that is deep enough for the classes
       the argument may be: a shallow copy suffices only if no candidate class
       mutates a field in place or holds another chi object.
R11.3  copy() of the mechanistic model classes shares no mutable state with
       the original.
R11.6  the pristine (`_vanilla_model`) myokit model never escapes uncloned.
"""
import ast

from ..loader import U, norm_stmt
from ..types import Types, _unwrap_copy
from ..effects import _self_field, MUTATING
from .iface import is_abstract_base

SCOPE = ('LogLikelihood', 'PredictiveModel', 'ProblemModellingController',
         'PopulationFilterLogPosterior')
ROOTS = ('MechanisticModel', 'ErrorModel', 'ReducedErrorModel',
         'PopulationModel', 'PopulationFilter', 'CovariateModel')


def inplace_fields(repo, K):
    """Fields of K (MRO-resolved methods) mutated in place, and fields that
    hold another chi object."""
    out = set()
    for k in repo.mro(K):
        for fn in repo.cls(k).methods.values():
            for n in ast.walk(fn):
                if isinstance(n, (ast.Assign, ast.AugAssign)):
                    tgts = n.targets if isinstance(n, ast.Assign) \
                        else [n.target]
                    for t in tgts:
                        if isinstance(t, ast.Subscript):
                            f = _self_field(t)
                            if f:
                                out.add(f)
                if isinstance(n, ast.Call) and isinstance(
                        n.func, ast.Attribute) and n.func.attr in MUTATING:
                    f = _self_field(n.func.value)
                    if f:
                        out.add(f)
    return out


def nested_objects(repo, T, K):
    out = set()
    for k in repo.mro(K):
        for (kk, f), t in T.fields.items():
            if kk == k:
                out.add(f)
    return out


def _copy_kind(expr):
    """'deep' | 'shallow' | 'method' | None for the outermost copy."""
    if isinstance(expr, ast.Call):
        f = U(expr.func)
        if f == 'copy.deepcopy':
            return 'deep'
        if f == 'copy.copy':
            return 'shallow'
        if isinstance(expr.func, ast.Attribute) and expr.func.attr == 'copy' \
                and not expr.args:
            return 'method'
    return None


def _flows(fn, T, cls):
    """Stores `self._f = v` in fn with the chain of copies v went through,
    following local rebinding and list comprehensions.
    -> list of (field, param, type, kinds, node)"""
    env = T.fn_env(cls, fn)
    origin = {}        # local name -> (param, kinds)
    for p, t in env.items():
        if '.' not in p and '(' not in p:
            origin[p] = (p, ())
    out = []
    for s in ast.walk(fn):
        if not isinstance(s, ast.Assign) or len(s.targets) != 1:
            continue
        t, v = s.targets[0], s.value
        kinds = ()
        src = None
        if isinstance(v, ast.ListComp) and len(v.generators) == 1:
            g = v.generators[0]
            if isinstance(g.iter, ast.Name) and g.iter.id in origin \
                    and isinstance(g.target, ast.Name):
                k = _copy_kind(v.elt)
                inner = _unwrap_copy(v.elt)
                if isinstance(inner, ast.Name) and inner.id == g.target.id:
                    src = g.iter.id
                    kinds = (k,) if k else ()
        else:
            k = _copy_kind(v)
            inner = _unwrap_copy(v)
            if isinstance(inner, ast.Name) and inner.id in origin:
                src = inner.id
                kinds = (k,) if k else ()
                t0 = env.get(origin[src][0])
                if k == 'deep' and t0 is not None and t0[0] == 'list':
                    # one deepcopy of the whole container: entries that
                    # are the same object stay the same object
                    kinds = ('deepall',)
            elif isinstance(v, ast.List) and len(v.elts) == 1 and isinstance(
                    v.elts[0], ast.Name) and v.elts[0].id in origin:
                src = v.elts[0].id
        if src is None:
            continue
        param, k0 = origin[src]
        if isinstance(t, ast.Name):
            origin[t.id] = (param, k0 + kinds)
        elif isinstance(t, ast.Attribute) and U(t.value) == 'self':
            out.append(('self.' + t.attr, param, env.get(param),
                        k0 + kinds, s))
    return out


def r19_3(ctx, repo):
    rule = 'R19.3'
    T = Types(repo)
    n = 0
    for cls in SCOPE:
        fn = repo.method(cls, '__init__')
        env = T.fn_env(cls, fn)
        for field, param, t, kinds, node in _flows(fn, T, cls):
            if t is None:
                continue
            et = t[1] if t[0] == 'list' else t
            bases = et[0] if isinstance(et[0], tuple) else (et[0],)
            if not any(b in ROOTS for b in bases):
                continue
            n += 1
            construct = '%s.__init__ %s' % (cls, field)
            where = repo.loc(node, cls, '__init__')
            cands = [k for k in T.candidates(et)
                     if not is_abstract_base(repo, k)]
            need_deep = {}
            for K in cands:
                ip = inplace_fields(repo, K)
                ne = nested_objects(repo, T, K)
                if ip or ne:
                    need_deep[K] = sorted(ip | ne)
            if 'deepall' in kinds and 'deep' not in kinds and \
                    'method' not in kinds:
                if need_deep:
                    K = sorted(need_deep)[0]
                    ctx.violation(
                        rule, where, construct, 'container copy',
                        '`%s` is stored from one `copy.deepcopy` of the '
                        'whole list `%s`: a deep copy preserves sharing '
                        'inside the container, so a model passed twice '
                        '(`[m] * 2`) stays one object for two entries and '
                        'per-entry changes (%s of %s) overwrite each other' % (
                            field, param, ', '.join(need_deep[K][:2]), K))
                else:
                    ctx.ok(rule, where, construct, 'deep copy of the list')
            elif 'deep' in kinds or 'method' in kinds:
                ctx.ok(rule, where, construct,
                       'stored from a deep copy of `%s` (%s)' % (
                           param, '/'.join(k for k in kinds if k)))
            elif 'shallow' in kinds:
                if need_deep:
                    K = sorted(need_deep)[0]
                    ctx.violation(
                        rule, where, construct, 'shallow copy',
                        '`%s` is stored from a shallow copy of the user\'s '
                        '`%s`, which may be a %s whose state (%s) is mutated '
                        'in place / nested: later changes to the user\'s '
                        'object, or to a sibling built from it, change this '
                        'object' % (field, param, K,
                                    ', '.join(need_deep[K][:3])))
                else:
                    ctx.ok(rule, where, construct,
                           'shallow copy of `%s` suffices: no candidate '
                           'class (%s) mutates a field in place or nests '
                           'another model' % (param, ', '.join(cands[:4])))
            else:
                ctx.violation(
                    rule, where, construct, 'no copy',
                    '`%s` stores the user\'s `%s` object itself: later '
                    'changes to the user\'s model change this object'
                    % (field, param))
    # every other constructor: the wrappers of the library keep the very
    # object they wrap (Reduced*, Composed*, the hierarchical likelihood);
    # a constructor that copies one of its user-supplied models and keeps
    # another one as it is contradicts itself
    for cls, c in sorted(repo.classes.items()):
        if cls in SCOPE or '__init__' not in c.methods \
                or c.relpath.startswith(('chi/plots', 'chi/library')):
            continue
        fn = c.methods['__init__']
        rows = []
        for field, param, t, kinds, node in _flows(fn, T, cls):
            if t is None:
                continue
            et = t[1] if t[0] == 'list' else t
            bases = et[0] if isinstance(et[0], tuple) else (et[0],)
            if any(b in ROOTS for b in bases):
                rows.append((field, param, kinds, node))
        copied = [r for r in rows if r[2]]
        raw = [r for r in rows if not r[2]]
        for field, param, kinds, node in rows:
            construct = '%s.__init__ %s' % (cls, field)
            where = repo.loc(node, cls, '__init__')
            if copied and not kinds:
                ctx.violation(
                    rule, where, construct, 'no copy (sibling copied)',
                    '`%s` stores the user\'s `%s` object itself although the '
                    'same constructor stores a copy of `%s`: configuring '
                    'this object (dimension names, number of individuals, '
                    'fixed parameters) then configures the user\'s model and '
                    'every other object built from it' % (
                        field, param, copied[0][1]))
            else:
                ctx.ok(rule, where, construct,
                       'consistent with the other model arguments of the '
                       'constructor (%s)' % ('copied' if kinds else
                                             'a wrapper that keeps the '
                                             'object it wraps'))
    if n < 9:
        ctx.error(rule, 'only %d constructor stores of user models found '
                  '(floor 9)' % n)


def r11_3(ctx, repo):
    """copy(): the returned object is a deep copy (or shares nothing
    mutable); fields nulled around the deepcopy are restored and re-created
    on the clone."""
    rule = 'R11.3'
    T = Types(repo)
    n = 0
    for cls in ['MechanisticModel'] + list(repo.subclasses(
            'MechanisticModel', strict=True)):
        c = repo.cls(cls)
        fn = c.methods.get('copy')
        if fn is None:
            continue
        construct = '%s.copy' % cls
        where = repo.loc(fn, cls, 'copy')
        n += 1
        kinds = []
        for s in ast.walk(fn):
            if isinstance(s, ast.Call):
                k = _copy_kind(s)
                if k in ('deep', 'shallow') and s.args and U(
                        s.args[0]) == 'self':
                    kinds.append((k, s))
                if isinstance(s.func, ast.Attribute) and s.func.attr == \
                        'copy' and isinstance(s.func.value, ast.Call) and \
                        U(s.func.value.func) == 'super':
                    kinds.append(('super', s))
        if not kinds:
            ctx.error(rule, '%s: no copy of self recognised' % construct)
            continue
        for k, node in kinds:
            if k == 'shallow':
                ip = inplace_fields(repo, cls) | nested_objects(repo, T, cls)
                if cls == 'MechanisticModel':
                    # the default every user-defined model inherits: its
                    # state is unknown, only a deep copy shares nothing
                    ctx.violation(
                        rule, repo.loc(node, cls, 'copy'), construct,
                        'shallow self copy',
                        'the default copy() of the base class, inherited by '
                        'user-defined mechanistic models, returns a shallow '
                        'copy: every container the user model keeps its '
                        'state in is shared between the model, its copies '
                        'and the likelihoods / predictive models built '
                        'from it')
                elif ip:
                    ctx.violation(
                        rule, repo.loc(node, cls, 'copy'), construct,
                        'shallow self copy',
                        'copy() returns a shallow copy of self: the fields '
                        '%s are shared with the original, and they are '
                        'mutated in place (or are nested models), so a later '
                        'change to one object changes the other' % (
                            ', '.join(sorted(ip)[:4])))
                else:
                    ctx.ok(rule, where, construct, 'shallow copy, nothing '
                           'mutable to share')
            else:
                ctx.ok(rule, repo.loc(node, cls, 'copy'), construct,
                       'clone is created by %s' % (
                           'copy.deepcopy(self)' if k == 'deep'
                           else 'the parent class\'s copy()'))
        # fields nulled before the deepcopy must be restored on self and
        # re-created on the clone
        nulled = []
        for s in fn.body:
            if isinstance(s, ast.Assign) and isinstance(
                    s.value, ast.Constant) and s.value.value is None:
                f = _self_field(s.targets[0])
                if f:
                    nulled.append(f)
        clone = None
        for s in fn.body:
            if isinstance(s, ast.Assign) and isinstance(
                    s.targets[0], ast.Name) and _copy_kind(s.value) in (
                    'deep', 'shallow'):
                clone = s.targets[0].id
        for f in nulled:
            attr = f.split('.', 1)[1]
            restored = any(
                isinstance(s, ast.Assign) and _self_field(
                    s.targets[0]) == f and not (
                    isinstance(s.value, ast.Constant)
                    and s.value.value is None) for s in fn.body)
            recreated = clone is not None and any(
                isinstance(s, ast.Assign) and U(s.targets[0]) ==
                '%s.%s' % (clone, attr) for s in fn.body)
            shared = None
            if recreated:
                # the value given to the clone must be a fresh object
                for st in fn.body:
                    if isinstance(st, ast.Assign) and U(st.targets[0]) == \
                            '%s.%s' % (clone, attr):
                        v = st.value
                        hops = 0
                        while isinstance(v, ast.Name) and hops < 4:
                            d = [a for a in fn.body if isinstance(
                                a, ast.Assign) and U(a.targets[0]) == v.id
                                and a.lineno < st.lineno]
                            if not d:
                                break
                            v = d[-1].value
                            hops += 1
                        if _self_field(v) == f or (isinstance(
                                v, ast.Attribute) and U(v) == f):
                            shared = st
            if restored and recreated and shared is not None:
                ctx.violation(
                    rule, repo.loc(shared, cls, 'copy'), construct,
                    'clone shares %s' % f,
                    'copy() gives the clone the original\'s own `%s` '
                    '(`%s`): both objects then drive one nested model / '
                    'solver, so configuring one (outputs, dosing regimen, '
                    'sensitivities, fixed parameters) changes the other'
                    % (f, norm_stmt(shared)[:60]))
            elif restored and recreated:
                ctx.ok(rule, where, construct, '%s is restored on the '
                       'original and re-created on the clone' % f)
            else:
                ctx.violation(
                    rule, where, construct, 'nulled field %s' % f,
                    'copy() sets %s to None around the deepcopy but does '
                    'not %s' % (f, 'restore it on the original'
                                if not restored else
                                'create it on the clone'))
    if n < 4:
        ctx.error(rule, 'only %d copy() methods found (floor 4)' % n)


def r11_6(ctx, repo):
    rule = 'R11.6'
    cls = 'PKPDModel'
    F = '_vanilla_model'
    n = 0
    for k in [cls] + repo.subclasses(cls, strict=True):
        for m, fn in repo.cls(k).methods.items():
            for node in ast.walk(fn):
                if isinstance(node, ast.Attribute) and node.attr == F \
                        and isinstance(node.value, ast.Name):
                    n += 1
                    construct = '%s.%s' % (k, m)
                    where = repo.loc(node, k, m)
                    par = getattr(node, '_parent', None)
                    if isinstance(node.ctx, ast.Store):
                        val = par.value if isinstance(par, ast.Assign) \
                            else None
                        if isinstance(val, ast.Call) and isinstance(
                                val.func, ast.Attribute) and \
                                val.func.attr == 'clone':
                            ctx.ok(rule, where, construct, 'pristine model '
                                   'is stored from a clone')
                        else:
                            ctx.violation(
                                rule, where, construct, 'store',
                                'the pristine model is stored from `%s`, '
                                'not from a clone' % (U(val) if val else '?'))
                        continue
                    grand = getattr(par, '_parent', None)
                    if isinstance(par, ast.Attribute) and par.attr == 'clone' \
                            and isinstance(grand, ast.Call):
                        ctx.ok(rule, where, construct,
                               'pristine model is only read through clone()')
                    else:
                        ctx.violation(
                            rule, where, construct, 'uncloned use',
                            'the pristine model `self.%s` is used without '
                            'clone() in `%s`: model surgery on it (dose '
                            'compartment, pace binding) would persist into '
                            'every later change of administration' % (
                                F, norm_stmt(getattr(par, '_parent', par))))
    if n < 2:
        ctx.error(rule, 'anchor field %s not found' % F)
