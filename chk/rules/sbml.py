"""C09 rules.

R09.1 published order = states then constants; one boundary (_n_states);
      constants are set by one enumerate over the published constant names.
R09.2 the gather index used for the states is the inverse of the permutation
      that sorts the declaration order.
R09.3 sensitivities are requested in published order (init(.) for states).
R09.4 keys of the name maps are created in one place only.
R09.5 the rate equations of the shipped SBML files equal the documented
      equations (SBML level 3: a species with hasSubstanceUnits=false
      denotes a concentration in kinetic laws and rules).
"""
import ast
import hashlib
import os
import xml.etree.ElementTree as ET

import sympy as sp

from ..loader import U, norm_stmt, AnalysisError
from ..effects import _self_field

CLS = 'SBMLModel'
ENG = 'term-algebra'


def _assigns(fn, field):
    return [a for a in ast.walk(fn) if isinstance(a, ast.Assign)
            and any(_self_field(t) == field and isinstance(t, ast.Attribute)
                    for t in a.targets)]


def _simulate_inlined(repo):
    """SBMLModel.simulate with the private helpers that hand the vector to
    the solver (`_set_state`, `_set_const`, whatever they are called)
    substituted in: the rules read one method, wherever the code sits."""
    import copy
    from .. import inline
    fn0 = repo.method(CLS, 'simulate')
    fn = copy.deepcopy(fn0)
    inl = inline.Inliner(repo, set())
    try:
        inl.function(fn, CLS)
    except Exception:
        fn = copy.deepcopy(fn0)
    for parent in ast.walk(fn):
        for child in ast.iter_child_nodes(parent):
            child._parent = parent
    fn._parent = getattr(fn0, '_parent', None)
    return fn


def _slice_of_parameters(e, fn, depth=0):
    """(lower, upper) texts if e is (a copy / a name bound to) a slice
    `parameters[lo:hi]` of simulate's first argument."""
    if isinstance(e, ast.Call) and U(e.func) in (
            'np.array', 'np.asarray', 'np.copy', 'list') and e.args:
        return _slice_of_parameters(e.args[0], fn, depth)
    if isinstance(e, ast.Subscript) and isinstance(e.slice, ast.Slice) \
            and U(e.value) == 'parameters':
        return (U(e.slice.lower) if e.slice.lower is not None else '',
                U(e.slice.upper) if e.slice.upper is not None else '')
    if isinstance(e, ast.Name) and depth < 4:
        d = [a for a in ast.walk(fn) if isinstance(a, ast.Assign)
             and len(a.targets) == 1 and U(a.targets[0]) == e.id]
        outs = {_slice_of_parameters(a.value, fn, depth + 1) for a in d}
        outs.discard(None)
        # `x = parameters[a:b]; x = np.array(x)` keeps the slice
        if len(outs) == 1:
            return outs.pop()
    return None


def r09_1(ctx, repo):
    rule = 'R09.1'
    fn = repo.method(CLS, '_set_number_and_names')
    construct = CLS + '._set_number_and_names'
    a = _assigns(fn, 'self._parameter_names')
    where = repo.loc(fn, CLS, fn.name)
    if len(a) == 1 and U(a[0].value).replace(' ', '') == \
            'self._state_names+self._const_names':
        ctx.ok(rule, repo.loc(a[0], CLS, fn.name), construct,
               'published parameters = state names then constant names')
    elif len(a) == 1 and U(a[0].value).replace(' ', '') == \
            'self._const_names+self._state_names':
        ctx.violation(rule, where, construct, 'published order',
                      'the published parameter names are `constant names + '
                      'state names`; simulate() assigns the first n_states '
                      'entries to the states')
    else:
        ctx.error(rule, '%s: construction of the published parameter names '
                  'is outside the recognised idiom (%s)' % (
                      construct, U(a[0].value) if a else 'no assignment'))
    for f in ('self._state_names', 'self._const_names'):
        a = _assigns(fn, f)
        if len(a) == 1 and isinstance(a[0].value, ast.Call) and U(
                a[0].value.func) == 'sorted':
            ctx.ok(rule, repo.loc(a[0], CLS, fn.name), construct,
                   '%s are published alphabetically' % f)
        else:
            ctx.error(rule, '%s: %s is not built with sorted(...)' % (
                construct, f))
    # simulate: boundary
    fn = _simulate_inlined(repo)
    construct = CLS + '.simulate'
    st = [c for c in ast.walk(fn) if isinstance(c, ast.Call)
          and U(c.func).endswith('_simulator.set_state') and c.args]
    co = [c for c in ast.walk(fn) if isinstance(c, ast.Call)
          and U(c.func).endswith('_simulator.set_constant')
          and len(c.args) == 2]
    s_src = None
    if len(st) == 1:
        a = st[0].args[0]
        # the gather with the stored permutation is R09.2's business
        while isinstance(a, ast.Subscript) and not isinstance(
                a.slice, ast.Slice):
            a = a.value
        if isinstance(a, ast.Name):
            # follow `x = x[perm]` re-bindings back to the slice
            seen = set()
            cur = a
            while isinstance(cur, ast.Name) and cur.id not in seen:
                seen.add(cur.id)
                d = [x for x in ast.walk(fn) if isinstance(x, ast.Assign)
                     and len(x.targets) == 1 and U(x.targets[0]) == cur.id]
                nxt = None
                for x in d:
                    v = x.value
                    while isinstance(v, ast.Subscript) and not isinstance(
                            v.slice, ast.Slice):
                        v = v.value
                    got = _slice_of_parameters(v, fn)
                    if got is not None:
                        s_src = got
                    elif isinstance(v, ast.Call) and v.args and isinstance(
                            v.args[0], ast.Name):
                        nxt = v.args[0]
                    elif isinstance(v, ast.Name):
                        nxt = v
                if s_src is not None or nxt is None:
                    break
                cur = nxt
        else:
            s_src = _slice_of_parameters(a, fn)
    c_src = None
    c_pair = False
    if len(co) == 1:
        val = co[0].args[1]
        sub = [x for x in ast.walk(val) if isinstance(x, ast.Subscript)
               and not isinstance(x.slice, ast.Slice)]
        loop = None
        cur = getattr(co[0], '_parent', None)
        while cur is not None and cur is not fn:
            if isinstance(cur, ast.For):
                loop = cur
                break
            cur = getattr(cur, '_parent', None)
        if sub and loop is not None:
            c_src = _slice_of_parameters(sub[0].value, fn)
            it = loop.iter
            if isinstance(it, ast.Call) and U(it.func) == 'enumerate' \
                    and it.args and U(it.args[0]) == 'self._const_names' \
                    and isinstance(loop.target, ast.Tuple):
                i, v = [U(x) for x in loop.target.elts]
                c_pair = U(co[0].args[0]) == v and U(sub[0].slice) == i
            elif isinstance(it, ast.Call) and U(it.func) == 'zip' \
                    and len(it.args) == 2 and isinstance(
                        loop.target, ast.Tuple):
                names = [U(x) for x in it.args]
                tg = [U(x) for x in loop.target.elts]
                if 'self._const_names' in names:
                    k = names.index('self._const_names')
                    c_pair = U(co[0].args[0]) == tg[k]
                    c_src = _slice_of_parameters(it.args[1 - k], fn)
    ok = s_src == ('', 'self._n_states') and c_src == ('self._n_states', '')
    if ok:
        ctx.ok(rule, repo.loc(fn, CLS, fn.name), construct,
               'states get parameters[:n_states], constants the rest')
    elif s_src is not None and c_src is not None:
        ctx.violation(
            rule, repo.loc(fn, CLS, fn.name), construct, 'boundary',
            'the parameter vector is not split at self._n_states into '
            '(initial states | constants): states get `parameters[%s:%s]`, '
            'constants `parameters[%s:%s]`' % (s_src + c_src))
    else:
        ctx.error(rule, '%s: state / constant assignment outside the '
                  'recognised idiom' % construct)
    # pairing of the constants with their published names
    if c_pair:
        ctx.ok(rule, repo.loc(co[0], CLS, fn.name), construct,
               'constant k of the published list receives parameters[k]')
    else:
        ctx.error(rule, '%s: constants are not assigned by one enumerate '
                  'over the published constant names (idiom not '
                  'recognised)' % construct)
    ctx.floor(rule, 5)


def r09_2(ctx, repo):
    rule = 'R09.2'
    fn = repo.method(CLS, '_set_number_and_names')
    construct = CLS + '._set_number_and_names'
    # kind of every local / field: 'NAMES', 'SORT' = argsort(names),
    # 'INV' = argsort(SORT)
    kind = {}
    names_src = None
    keyed = []

    def kind_of(v):
        if isinstance(v, (ast.Name, ast.Attribute)):
            return kind.get(U(v))
        if isinstance(v, ast.ListComp) and 'qname' in U(v) and 'states' in U(
                v):
            return 'NAMES'
        if isinstance(v, ast.Call) and U(v.func) in (
                'np.argsort', 'numpy.argsort') and v.args:
            k = kind_of(v.args[0])
            return {'NAMES': 'SORT', 'SORT': 'INV', 'INV': 'SORT'}.get(k)
        if isinstance(v, ast.Call) and U(v.func) in (
                'np.array', 'np.asarray', 'list') and v.args:
            return kind_of(v.args[0])
        if isinstance(v, ast.ListComp) and len(v.generators) == 1 \
                and isinstance(v.elt, ast.Call) and isinstance(
                    v.elt.func, ast.Attribute) and v.elt.func.attr == \
                'index' and len(v.elt.args) == 1 and U(
                    v.elt.args[0]) == U(v.generators[0].target) \
                and kind_of(v.generators[0].iter) == 'NAMES' \
                and kind_of(v.elt.func.value) == 'SORTED_NAMES':
            # rank of every declared name in the published (sorted) list
            return 'INV'
        if isinstance(v, ast.Call) and U(v.func) in ('sorted', 'np.sort') \
                and v.args and kind_of(v.args[0]) == 'NAMES':
            extra = [k for k in v.keywords if k.arg in ('key', 'reverse')
                     and not (k.arg == 'reverse' and isinstance(
                         k.value, ast.Constant) and k.value.value is False)]
            if extra:
                keyed.append((v, extra[0]))
            return 'SORTED_NAMES'
        return None
    for s in fn.body:
        if not isinstance(s, ast.Assign) or len(s.targets) != 1:
            continue
        t, v = U(s.targets[0]), s.value
        k = kind_of(v)
        if k is not None:
            kind[t] = k
            if k == 'NAMES' and isinstance(v, ast.ListComp):
                names_src = t
    if names_src is None:
        ctx.error(rule, '%s: declaration-order state names not found'
                  % construct)
        return
    for v, kw in keyed:
        ctx.violation(
            rule, repo.loc(v, CLS, fn.name), construct, 'sort key',
            '`%s` publishes the names in an order of its own (%s=%s) while '
            'the permutation back to the declaration order is computed with '
            'a plain argsort of the names: the i-th entry of the state '
            'vector is assigned to another state than the i-th published '
            'name' % (U(v)[:50], kw.arg, U(kw.value)[:20]))
    if kind.get('self._state_names') == 'SORTED_NAMES':
        ctx.ok(rule, repo.loc(fn, CLS, fn.name), construct,
               'the published state names are the sorted copy of the list '
               'the permutation is computed from')
    else:
        ctx.violation(rule, repo.loc(fn, CLS, fn.name), construct,
                      'names source', 'the permutation is not computed from '
                      'the list whose sorted copy is published')
    use = _simulate_inlined(repo)
    uconstruct = CLS + '.simulate'
    fields = {k: v for k, v in kind.items() if k.startswith('self.')
              and v in ('SORT', 'INV')}
    n = 0
    for node in ast.walk(use):
        if isinstance(node, ast.Subscript) and U(node.slice) in fields:
            n += 1
            k = fields[U(node.slice)]
            par = getattr(node, '_parent', None)
            scatter = isinstance(node.ctx, ast.Store)
            where = repo.loc(node, CLS, use.name)
            good = (k == 'INV' and not scatter) or (k == 'SORT' and scatter)
            if good:
                ctx.ok(rule, where, uconstruct,
                       'states are brought from published (sorted) order '
                       'into declaration order with the inverse permutation '
                       '(%s)' % ('gather with argsort(argsort(names))'
                                 if not scatter else
                                 'scatter with argsort(names)'))
            else:
                ctx.violation(
                    rule, where, uconstruct, 'permutation',
                    '`%s` %s the published-order values with `%s` = %s: '
                    'declared state i must receive the value published at '
                    'the rank of its name, i.e. a gather with '
                    'argsort(argsort(names)) or a scatter with '
                    'argsort(names); this is only equivalent for '
                    'permutations that are their own inverse (all 1- and '
                    '2-state models)' % (
                        U(node)[:50], 'scatters' if scatter else 'gathers',
                        U(node.slice),
                        'argsort(names)' if k == 'SORT'
                        else 'argsort(argsort(names))'))
    if n == 0:
        ctx.error(rule, '%s: use of the state permutation not found'
                  % uconstruct)
    ctx.floor(rule, 2)


def r09_3(ctx, repo):
    rule = 'R09.3'
    from ..seqs import SeqEval, Seg, Alt, END
    fn = repo.method(CLS, 'enable_sensitivities')
    construct = CLS + '.enable_sensitivities'
    sims = [c for c in ast.walk(fn) if isinstance(c, ast.Call)
            and U(c.func).endswith('Simulation') and any(
                k.arg == 'sensitivities' for k in c.keywords)]
    if not sims:
        ctx.error(rule, '%s: no Simulation(..., sensitivities=...) found'
                  % construct)
        ctx.floor(rule, 2)
        return
    sim = sims[0]
    req = [k.value for k in sim.keywords if k.arg == 'sensitivities'][0]
    # top-level statement holding the request tuple
    body = repo.body_wo_doc(fn)

    def top_of(node):
        for k, s_ in enumerate(body):
            if any(x is node for x in ast.walk(s_)):
                return k
        return None
    tup = req
    if isinstance(req, ast.Name):
        defs = [a for a in ast.walk(fn) if isinstance(a, ast.Assign)
                and U(a.targets[0]) == req.id and isinstance(
                    a.value, ast.Tuple) and len(a.value.elts) == 2]
        tup = defs[-1].value if defs else None
    if not isinstance(tup, ast.Tuple) or len(tup.elts) != 2:
        ctx.error(rule, '%s: the sensitivity request `%s` is not a pair '
                  '(outputs, parameters)' % (construct, U(req)[:50]))
        ctx.floor(rule, 2)
        return
    stop = top_of(tup)
    se = SeqEval(['self._parameter_names'])
    se.run(body[:stop])
    val = se.env.get(U(tup.elts[1])) if U(tup.elts[1]) in se.env \
        else se.ev(tup.elts[1])
    want = (Seg('self._parameter_names', '0', 'self._n_states',
                "'init(' + $ + ')'"),
            Seg('self._parameter_names', 'self._n_states', END, 'id'))
    alts = val.alts if isinstance(val, Alt) else [val]
    where = repo.loc(sim, CLS, fn.name)

    def strip(v):
        return tuple(Seg(x.src, x.lo, x.hi, x.tf) for x in v)
    by_request = [l for l in ast.walk(fn) if isinstance(l, ast.For)
                  and 'parameter_names' in [a.arg for a in fn.args.args]
                  and any(isinstance(x, ast.Name) and x.id ==
                          'parameter_names' for x in ast.walk(l.iter))
                  and any(isinstance(c, ast.Call) and isinstance(
                      c.func, ast.Attribute) and c.func.attr in (
                      'append', 'extend') for c in ast.walk(l))]
    if any(a is None for a in alts) and by_request:
        ctx.violation(
            rule, repo.loc(by_request[0], CLS, fn.name), construct,
            'request order',
            'the parameters handed to the solver are collected by walking '
            'the caller\'s `parameter_names` (`%s`): the derivative columns '
            'come back in the order of the request, not in the published '
            'order of parameters() that every consumer (reduced models, '
            'likelihoods) assumes' % norm_stmt(by_request[0])[:60])
    elif any(a is None for a in alts):
        ctx.error(rule, '%s: construction of the requested parameter list '
                  '`%s` not recognised' % (construct, U(tup.elts[1])[:40]))
    elif all(strip(a) == want for a in alts):
        ctx.ok(rule, where, construct,
               'sensitivities are requested in published order, init(.) '
               'for the first n_states entries')
    else:
        bad = [a for a in alts if strip(a) != want][0]
        ctx.violation(
            rule, where, construct, 'request order',
            'the parameters handed to the solver are %s; the published '
            'order is init(.) of the first n_states names followed by the '
            'remaining names: the derivative columns are returned in a '
            'different order than parameters() reports' % (
                ' + '.join(repr(x) for x in bad) or '[]'))
    if U(tup.elts[0]) == 'self._output_names':
        ctx.ok(rule, where, construct,
               'the simulation is built with (selected outputs, parameters '
               'in published order)')
    else:
        ctx.violation(rule, where, construct, 'request outputs',
                      'the sensitivity request is built for `%s`, not for '
                      'the selected outputs self._output_names' % U(
                          tup.elts[0]))
    ctx.floor(rule, 2)


def r09_4(ctx, repo):
    rule = 'R09.4'
    allowed = {'self._parameter_name_map': {'_set_number_and_names'},
               'self._output_name_map': {'_set_number_and_names',
                                         'set_outputs'}}
    n = 0
    for cls in repo.subclasses(CLS):
        for m, fn in repo.cls(cls).methods.items():
            for a in ast.walk(fn):
                if isinstance(a, ast.Assign):
                    for t in a.targets:
                        if isinstance(t, ast.Attribute) and U(t) in allowed:
                            n += 1
                            construct = '%s.%s' % (cls, m)
                            if m in allowed[U(t)]:
                                ctx.ok(rule, repo.loc(a, cls, m), construct,
                                       '%s is (re)built where the name '
                                       'tables are derived' % U(t))
                            else:
                                ctx.violation(
                                    rule, repo.loc(a, cls, m), construct,
                                    'rebuild ' + U(t),
                                    '%s is rebuilt in %s: the dictionary '
                                    'order is the published order that '
                                    'enable_sensitivities and parameters() '
                                    'rely on' % (U(t), construct))
    if n < 3:
        ctx.error(rule, 'only %d name-map constructions found' % n)


# -- SBML ---------------------------------------------------------------------
def _strip(tag):
    return tag.split('}')[-1]


def _mathml(e, env):
    tag = _strip(e.tag)
    if tag == 'math':
        return _mathml(list(e)[0], env)
    if tag == 'ci':
        name = (e.text or '').strip()
        return env.get(name, sp.Symbol(name, positive=True))
    if tag == 'cn':
        return sp.nsimplify((e.text or '').strip())
    if tag == 'apply':
        kids = list(e)
        op = _strip(kids[0].tag)
        args = [_mathml(k, env) for k in kids[1:]]
        if op == 'times':
            return sp.Mul(*args)
        if op == 'plus':
            return sp.Add(*args)
        if op == 'minus':
            return -args[0] if len(args) == 1 else args[0] - args[1]
        if op == 'divide':
            return args[0] / args[1]
        if op == 'power':
            return args[0] ** args[1]
        if op == 'exp':
            return sp.exp(args[0])
        if op == 'ln':
            return sp.log(args[0])
        raise AnalysisError('MathML operator %s not supported' % op)
    raise AnalysisError('MathML element %s not supported' % tag)


def read_sbml(path, text=None):
    """-> dict variable -> d/dt expression (amounts for species), and the
    list of species / compartments."""
    root = ET.fromstring(text) if text is not None \
        else ET.parse(path).getroot()
    model = [c for c in root if _strip(c.tag) == 'model'][0]
    comps, species = {}, {}
    for lst in model:
        t = _strip(lst.tag)
        if t == 'listOfCompartments':
            for c in lst:
                comps[c.get('id')] = sp.Symbol(c.get('id'), positive=True)
        if t == 'listOfSpecies':
            for s in lst:
                species[s.get('id')] = dict(
                    comp=s.get('compartment'),
                    amount=s.get('hasSubstanceUnits') == 'true')
    # species symbol in math: concentration unless hasSubstanceUnits
    env = {}
    amount = {}
    for sid, info in species.items():
        A = sp.Symbol('A_' + sid, positive=True)
        amount[sid] = A
        env[sid] = A if info['amount'] else A / comps[info['comp']]
    for cid, sym in comps.items():
        env[cid] = sym
    rates = {}
    for lst in model:
        t = _strip(lst.tag)
        if t == 'listOfRules':
            for r in lst:
                if _strip(r.tag) == 'rateRule':
                    var = r.get('variable')
                    m = [k for k in r if _strip(k.tag) == 'math'][0]
                    e = _mathml(m, env)
                    if var in species and not species[var]['amount']:
                        # rate rule on a concentration: d(A/V)/dt
                        e = e * comps[species[var]['comp']]
                    rates[var] = rates.get(var, 0) + e
        if t == 'listOfReactions':
            for r in lst:
                law = None
                reac, prod = [], []
                for k in r:
                    kt = _strip(k.tag)
                    if kt == 'kineticLaw':
                        law = _mathml([x for x in k
                                       if _strip(x.tag) == 'math'][0], env)
                    if kt in ('listOfReactants', 'listOfProducts'):
                        for sr in k:
                            st = sp.nsimplify(sr.get('stoichiometry', '1'))
                            (reac if kt == 'listOfReactants'
                             else prod).append((sr.get('species'), st))
                if law is None:
                    raise AnalysisError('reaction without kinetic law')
                for sid, st in reac:
                    rates[sid] = rates.get(sid, 0) - st * law
                for sid, st in prod:
                    rates[sid] = rates.get(sid, 0) + st * law
    return rates, species, comps, amount


def _documented():
    """Equations transcribed from the ModelLibrary docstrings."""
    S = lambda n: sp.Symbol(n, positive=True)     # noqa: E731
    A, V = S('A_drug'), S('central')
    ke = S('elimination_rate')
    VT, kap = S('tumour_volume'), S('kappa')
    l0, l1 = S('lambda_0'), S('lambda_1')
    lam, vc = S('lambda'), S('critical_volume')
    C = S('drug_concentration')
    return {
        # dA/dt = -k_e A,  C = A / V
        'pk_one_comp.xml': {'drug': -ke * A},
        # dV_T/dt = 2 l0 l1 V_T / (2 l0 V_T + l1) - kappa C V_T
        'tgi_Koch_2009.xml': {
            'tumour_volume': 2 * l0 * l1 * VT / (2 * l0 * VT + l1)
            - kap * C * VT},
        # dV_T/dt = lambda V_T / (V_T / V_crit + 1) - kappa C V_T
        'tgi_Koch_2009_reparametrised.xml': {
            'tumour_volume': lam * VT / (VT / vc + 1) - kap * C * VT},
        # combination: C = A / V of the PK model
        'temporary_full_pkpd_model.xml': {
            'drug': -ke * A,
            'tumour_volume': lam * VT / (VT / vc + 1) - kap * (A / V) * VT},
    }


def r09_5(ctx, repo):
    rule = 'R09.5'
    base = os.path.join(repo.root, 'chi', 'library', 'model_library')
    api = 'chi/library/_model_library_api.py'
    if api not in repo.trees:
        raise AnalysisError('model library API not found')
    repo.consulted.add(api)
    used = set()
    for n in ast.walk(repo.trees[api]):
        if isinstance(n, ast.Constant) and isinstance(n.value, str) \
                and n.value.endswith('.xml'):
            used.add(n.value)
    docs = _documented()
    for fname in sorted(used):
        path = os.path.join(base, fname)
        rel = 'chi/library/model_library/' + fname
        text = repo.overrides.get(rel)
        if text is None and not os.path.exists(path):
            ctx.error(rule, 'library file %s missing' % rel)
            continue
        if text is not None:
            repo.sha[rel] = hashlib.sha256(text.encode()).hexdigest()
        else:
            with open(path, 'rb') as f:
                repo.sha[rel] = hashlib.sha256(f.read()).hexdigest()
        repo.consulted.add(rel)
        if fname not in docs:
            ctx.note(rule, '%s has no transcribed equations' % fname)
            continue
        try:
            rates, species, comps, amount = read_sbml(path, text)
        except (AnalysisError, ET.ParseError, IndexError, KeyError) as e:
            ctx.error(rule, 'cannot read %s: %s' % (rel, e))
            continue
        for var, want in docs[fname].items():
            construct = '%s d(%s)/dt' % (fname, var)
            if var not in rates:
                ctx.violation(rule, rel, construct, 'no rate',
                              'the model defines no rate for `%s`' % var,
                              engine=ENG)
                continue
            d = sp.simplify(rates[var] - want)
            if d == 0:
                ctx.ok(rule, rel, construct,
                       'rate equation equals the documented equation (%s)'
                       % sp.simplify(want), engine=ENG)
            else:
                ctx.violation(
                    rule, rel, construct, 'equation',
                    'the SBML file defines d(%s)/dt = %s but the documented '
                    'equation is %s (SBML level 3: species `%s` denotes a '
                    'concentration in the kinetic law)' % (
                        'amount of ' + var if var in species else var,
                        sp.simplify(rates[var]), sp.simplify(want), var),
                    engine=ENG)
        extra = set(rates) - set(docs[fname])
        for var in sorted(extra):
            ctx.violation(rule, rel, '%s d(%s)/dt' % (fname, var),
                          'undocumented rate',
                          'the model gives `%s` a rate that the '
                          'documentation does not mention' % var, engine=ENG)
    ctx.floor(rule, 5)


def r09_6(ctx, repo):
    """Renaming guards look at the *published* names.

    `set_parameter_names` / `set_output_names` keep two tables each: the
    immutable myokit names (`_parameter_names`, `_output_names`) and the map
    to the names currently published (`_*_name_map`).  A clash test of a new
    name must consult the published names (the values of the map or the
    public getter); the two sibling setters must agree in which kind of table
    they consult."""
    rule = 'R09.6'
    pairs = [('set_parameter_names', 'parameter'),
             ('set_output_names', 'output')]
    n = 0
    for cls in repo.subclasses(CLS):
        for m, kind in pairs:
            fn = repo.cls(cls).methods.get(m)
            if fn is None:
                continue
            construct = '%s.%s' % (cls, m)
            params = [a.arg for a in fn.args.args][1:]
            tests = []
            for c in ast.walk(fn):
                if isinstance(c, ast.Compare) and len(c.ops) == 1 and \
                        isinstance(c.ops[0], (ast.In, ast.NotIn)):
                    ce = c.comparators[0]
                    if isinstance(ce, ast.Name):
                        # a local bound once to the table that is consulted
                        d = [a for a in ast.walk(fn)
                             if isinstance(a, ast.Assign)
                             and len(a.targets) == 1
                             and U(a.targets[0]) == ce.id]
                        if len(d) == 1:
                            ce = d[0].value
                    cont = U(ce)
                    if 'self.' in cont:
                        tests.append((c, cont))
            # the caller's dictionary {displayed name: new name} is looked
            # up with *displayed* names
            if params:
                dname = params[0]
                for sub in ast.walk(fn):
                    if not (isinstance(sub, ast.Subscript) and U(
                            sub.value) == dname and isinstance(
                            sub.ctx, ast.Load) and isinstance(
                            sub.slice, ast.Name)):
                        continue
                    key = sub.slice.id
                    # loop variable over the myokit names?
                    loops_ = [l for l in ast.walk(fn) if isinstance(l, ast.For)
                              and any(x is sub for x in ast.walk(l))]
                    raw = None
                    for l in loops_:
                        tg = [x.id for x in ast.walk(l.target)
                              if isinstance(x, ast.Name)]
                        if key in tg and U(l.iter).replace(' ', '') in (
                                'self._%s_names' % kind,
                                'self._%s_name_map' % kind,
                                'self._%s_name_map.keys()' % kind):
                            rebound = any(
                                isinstance(a, ast.Assign) and any(
                                    U(t) == key for t in a.targets)
                                for a in ast.walk(l))
                            if not rebound:
                                raw = l
                    if raw is not None:
                        n += 1
                        ctx.violation(
                            rule, repo.loc(sub, cls, m), construct,
                            'lookup by myokit name',
                            '`%s` looks the caller\'s dictionary up with '
                            '`%s`, a myokit name (loop over `%s`); callers '
                            'address parameters by the names currently '
                            'displayed, so a second renaming of the same '
                            'entry is silently ignored' % (
                                U(sub), key, U(raw.iter)))
            for c, cont in tests:
                n += 1
                where = repo.loc(c, cls, m)
                published = ('_%s_name_map.values()' % kind in cont
                             or cont.replace(' ', '') in (
                                 'self.%ss()' % kind,
                                 'self.%s_names()' % kind))
                raw = 'self._%s_names' % kind in cont or cont.replace(
                    ' ', '') in ('self._%s_name_map' % kind,
                                 'self._%s_name_map.keys()' % kind)
                if published:
                    ctx.ok(rule, where, construct,
                           'clash test consults the published %s names'
                           % kind)
                elif raw:
                    ctx.violation(
                        rule, where, construct, 'clash table',
                        '`%s` looks a caller-supplied name up in `%s`, the '
                        'immutable myokit names (the keys of the name map); '
                        'after a first renaming the published names differ '
                        'from them, so a name can be published twice, a '
                        'renamed entry can no longer be addressed and '
                        'renaming back is refused' % (U(c)[:60], cont))
                else:
                    ctx.error(rule, '%s: membership test on `%s` not '
                              'classified' % (construct, cont[:40]))
    if n < 2:
        ctx.error(rule, 'only %d renaming guards found (floor 2)' % n)


def r09_7(ctx, repo):
    """Names supplied by the caller are published names.

    `enable_sensitivities(True, parameter_names)` receives the names the
    model publishes (parameters()); the optional filter must therefore walk
    the *published* names (values of `_parameter_name_map`, same order as
    `_parameter_names`) when it tests `name in parameter_names`, otherwise a
    renamed parameter silently drops out of the request.  In `set_outputs` the
    published-name table of the outputs must be rebuilt for exactly the new
    selection (a table that is only added to keeps the names of de-selected
    outputs and blocks their re-use)."""
    rule = 'R09.7'
    n = 0
    for cls in repo.subclasses(CLS):
        fn = repo.cls(cls).methods.get('enable_sensitivities')
        if fn is not None and 'parameter_names' in [
                a.arg for a in fn.args.args]:
            construct = '%s.enable_sensitivities' % cls
            if any(isinstance(l, ast.For) and any(
                    isinstance(x, ast.Name) and x.id == 'parameter_names'
                    for x in ast.walk(l.iter)) for l in ast.walk(fn)):
                # the request itself is walked: its order is R09.3's finding
                n += 1
            loops_ = []
            for l in ast.walk(fn):
                if isinstance(l, ast.For):
                    loops_.append((l, l.target, l.iter, l))
                if isinstance(l, ast.comprehension):
                    loops_.append((l, l.target, l.iter, ast.Module(
                        body=[ast.Expr(value=x) for x in l.ifs],
                        type_ignores=[])))
            for l, ltarget, liter, lbody in loops_:
                tests = [c for c in ast.walk(lbody) if isinstance(
                    c, ast.Compare)
                         and len(c.ops) == 1 and isinstance(
                             c.ops[0], (ast.In, ast.NotIn))
                         and U(c.comparators[0]) == 'parameter_names']
                if not tests:
                    continue
                src = liter
                if isinstance(src, ast.Call) and U(src.func) in (
                        'enumerate', 'zip') and src.args:
                    # the tested variable's source among the zipped args
                    tv = U(tests[0].left)
                    args = src.args
                    if U(src.func) == 'enumerate':
                        src = args[0]
                    else:
                        elts = ltarget.elts if isinstance(
                            ltarget, ast.Tuple) else [ltarget]
                        idx = [i for i, e in enumerate(elts) if U(e) == tv]
                        src = args[idx[0]] if idx and idx[0] < len(args) \
                            else args[0]
                n += 1
                stxt = U(src).replace(' ', '')
                where = repo.loc(tests[0], cls, fn.name)
                if '_parameter_name_map.values()' in stxt or stxt in (
                        'self.parameters()',):
                    ctx.ok(rule, where, construct,
                           'the requested names are matched against the '
                           'published parameter names')
                elif 'self._parameter_names' in stxt:
                    ctx.violation(
                        rule, where, construct, 'request filter',
                        '`%s` matches the requested names against `%s`, the '
                        'immutable myokit names; callers pass published '
                        'names (parameters()), so after a renaming the '
                        'renamed parameters are silently left out of the '
                        'sensitivity request' % (U(tests[0])[:50], U(src)))
                else:
                    ctx.error(rule, '%s: source `%s` of the name filter not '
                              'classified' % (construct, U(src)[:40]))
        fn = repo.cls(cls).methods.get('set_outputs')
        if fn is not None:
            construct = '%s.set_outputs' % cls
            rebinds = [a for a in ast.walk(fn) if isinstance(a, ast.Assign)
                       and any(U(t) == 'self._output_name_map'
                               for t in a.targets)]
            stores = [a for a in ast.walk(fn) if isinstance(a, ast.Assign)
                      and any(isinstance(t, ast.Subscript) and U(
                          t.value) == 'self._output_name_map'
                          for t in a.targets)]
            # in-place growth through the dict API is a store as well
            stores += [c for c in ast.walk(fn) if isinstance(c, ast.Call)
                       and isinstance(c.func, ast.Attribute)
                       and c.func.attr in ('setdefault', 'update',
                                           '__setitem__')
                       and U(c.func.value) == 'self._output_name_map']
            n += 1
            where = repo.loc(rebinds[0] if rebinds else (
                stores[0] if stores else fn), cls, fn.name)
            if rebinds:
                ctx.ok(rule, where, construct,
                       'the output name table is rebuilt for the new '
                       'selection')
            elif stores:
                ctx.violation(
                    rule, where, construct, 'stale output names',
                    '`%s` adds to the existing output name table instead of '
                    'rebuilding it for the new selection: names of outputs '
                    'that are no longer selected stay in the table (they '
                    'clash with later renamings and survive a re-selection)'
                    % norm_stmt(stores[0])[:60])
            else:
                ctx.error(rule, '%s: update of the output name table not '
                          'found' % construct)
    if n < 2:
        ctx.error(rule, 'only %d sites found (floor 2)' % n)


def r09_8(ctx, repo):
    """The parameter count is the length of the parameter name list.

    `_set_number_and_names` publishes `_parameter_names = states + constants`
    and `_n_parameters = n_states + <count of constants>`.  The constants are
    a *filtered* list (derived constants are not parameters), so the count
    must be the length of that filtered list: either `len(...)` of it, or a
    counter that starts at the size of the iterated collection and is
    decremented on exactly the paths that do not append."""
    rule = 'R09.8'
    from ..rules.cursors import cursor_increments
    n = 0
    for cls in repo.subclasses(CLS):
        fn = repo.cls(cls).methods.get('_set_number_and_names')
        if fn is None:
            continue
        construct = '%s._set_number_and_names' % cls
        counts = [a for a in ast.walk(fn) if isinstance(a, ast.Assign)
                  and U(a.targets[0]) == 'self._n_parameters']
        if not counts:
            ctx.error(rule, '%s: assignment of _n_parameters not found'
                      % construct)
            continue
        n += 1
        cnt = counts[-1]
        where = repo.loc(cnt, cls, fn.name)
        terms = []

        def flat(e):
            if isinstance(e, ast.BinOp) and isinstance(e.op, ast.Add):
                flat(e.left)
                flat(e.right)
            else:
                terms.append(e)
        flat(cnt.value)
        # the list of constant names and how it is filled
        fills = [a for a in ast.walk(fn) if isinstance(a, ast.Assign)
                 and U(a.targets[0]) == 'const_names']
        loop = None
        for l in ast.walk(fn):
            if isinstance(l, ast.For) and any(
                    isinstance(c, ast.Call) and isinstance(
                        c.func, ast.Attribute) and c.func.attr == 'append'
                    and U(c.func.value) == 'const_names'
                    for c in ast.walk(l)):
                loop = l
        comp = [a.value for a in fills if isinstance(a.value, ast.ListComp)]
        filtered = bool(comp and any(g.ifs for g in comp[-1].generators)) or (
            loop is not None and any(isinstance(x, ast.Continue)
                                     for x in ast.walk(loop)))
        bad = None
        for t in terms:
            txt = U(t).replace(' ', '')
            if txt in ('self._n_states',) or txt.startswith('len('):
                continue
            if not isinstance(t, ast.Name):
                continue
            # a counter: its decrements must mirror the filter
            if loop is not None:
                incs = cursor_increments(loop, t.id)
                # every path either appends (inc 0) or skips (inc -1):
                # count the appending paths by re-walking with the list
                dec = [inc for conds, inc in incs]
                n_skip_paths = sum(1 for x in ast.walk(loop)
                                   if isinstance(x, ast.Continue))
                n_dec = sum(1 for d in dec if d is not None and d == -1)
                if filtered and n_dec < max(1, n_skip_paths):
                    bad = t
            elif filtered:
                bad = t
        if bad is not None:
            ctx.violation(
                rule, where, construct, 'count of constants',
                '`%s` counts the constants with `%s`, the size of the whole '
                'collection, while the published names keep only the '
                'literal constants (the list is filtered): for a model with '
                'a derived constant n_parameters() exceeds '
                'len(parameters())' % (norm_stmt(cnt)[:60], bad.id))
        else:
            ctx.ok(rule, where, construct,
                   'n_parameters = n_states + number of published constant '
                   'names')
    if n < 1:
        ctx.error(rule, 'no _set_number_and_names found')
