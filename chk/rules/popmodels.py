"""C05 / C06 / C03 rules on the continuous population models (engine F).

R05.2 log-likelihood = sum of the documented log-density; sensitivities =
      its derivatives (+ upstream term); non-centred: standard normal in eta,
      chain rule through the class's own transform.
R06.2 sampler parameterisation = density parameterisation.
R06.3 reported moments = closed-form moments of the density.
"""
import ast

import sympy as sp

from ..loader import U, AnalysisError
from .. import spec as SP
from ..term import (Lifter, Slots, Tup, Opaque, Unsupported, summand, is_zero,
                    gaussian_family, S, NotASum)

ENG = 'term-algebra'
ELEM = (SP.psi, SP.eta, SP.mu, SP.sigma, SP.up)
STDNORMAL = -sp.log(2 * sp.pi) / 2 - SP.eta**2 / 2


def _base_env():
    n_dim = sp.Symbol('n_dim', positive=True)
    return {
        'parameters': Slots({0: SP.mu, 1: SP.sigma}),
        'self._n_dim': n_dim,
        'self._n_parameters': 2 * n_dim,
        'self._n_ids': sp.Symbol('n_ids', positive=True),
        'reduce': Opaque('flag'), 'flattened': Opaque('flag'),
        'args': Opaque('args'), 'kwargs': Opaque('kwargs'),
    }


def _has_centering(repo, cls):
    fn = repo.method(cls, '__init__')
    return 'centered' in [a.arg for a in fn.args.args]


def _res(e):
    try:
        return str(sp.simplify(e))[:140]
    except Exception:
        return str(e)[:140]


def _check(ctx, rule, where, construct, key, got, want, what):
    try:
        z = is_zero(got - want)
    except Exception as e:
        ctx.error(rule, '%s %s: %s' % (construct, key, e))
        return
    if z is True:
        ctx.ok(rule, where, construct, what, engine=ENG)
    elif z is False:
        ctx.violation(rule, where, construct, key,
                      '%s does not hold: residual %s' % (
                          what, _res(got - want)), engine=ENG)
    else:
        ctx.error(rule, '%s %s: residual %s undecided' % (
            construct, key, _res(got - want)))


def _models(repo):
    specs = SP.population_model_specs()
    for k in specs:
        repo.cls(k)
    return specs


def r05_2(ctx, repo):
    rule = 'R05.2'
    specs = _models(repo)
    for cls, sp_ in specs.items():
        cent = _has_centering(repo, cls)
        modes = [True, False] if cent else [True]
        T = None
        # -- transform (non-centred) -----------------------------------------
        if cent:
            fn = repo.method(cls, 'compute_individual_parameters')
            construct = '%s.compute_individual_parameters' % cls
            where = repo.loc(fn, cls, fn.name)
            try:
                env = _base_env()
                env.update({'eta': SP.eta, 'return_eta': False})
                lf = Lifter(repo, cls, flags={'self._centered': False,
                                              'return_eta': False})
                T = lf.run(fn, env)
                _check(ctx, rule, where, construct, 'transform', T,
                       sp_['transform'],
                       'non-centred transform psi(eta) = documented '
                       'transform')
                lf = Lifter(repo, cls, flags={'self._centered': True,
                                              'return_eta': False})
                Tc = lf.run(fn, env)
                _check(ctx, rule, where, construct, 'identity transform',
                       Tc, SP.eta, 'centred model returns eta unchanged')
                lf = Lifter(repo, cls, flags={'self._centered': False,
                                              'return_eta': True})
                env['return_eta'] = True
                Tr = lf.run(fn, env)
                _check(ctx, rule, where, construct, 'return_eta', Tr, SP.eta,
                       'return_eta=True returns eta unchanged')
            except Unsupported as e:
                ctx.error(rule, 'cannot lift %s: %s' % (construct, e))
        for centered in modes:
            flags = {'self._centered': centered}
            obs = SP.psi if centered else SP.eta
            want = sp_['logpdf'] if centered else STDNORMAL
            label = 'centred' if centered else 'non-centred'
            # -- log-likelihood ----------------------------------------------
            fn = repo.method(cls, 'compute_log_likelihood')
            construct = '%s.compute_log_likelihood[%s]' % (cls, label)
            where = repo.loc(fn, cls, fn.name)
            try:
                env = _base_env()
                env['observations'] = obs
                lf = Lifter(repo, cls, flags=flags)
                val = lf.run(fn, env)
                _check(ctx, rule, where, construct, 'density',
                       summand(val, ELEM), want,
                       'log-likelihood = sum over individuals and dimensions '
                       'of the %s log-density' % (
                           'documented' if centered else 'standard-normal'))
            except NotASum as e:
                ctx.violation(rule, where, construct, 'not a sum',
                              'the log-likelihood is not a sum over '
                              'individuals and dimensions of a per-element '
                              'log-density: %s' % e, engine=ENG)
            except Unsupported as e:
                ctx.error(rule, 'cannot lift %s: %s' % (construct, e))
            # -- sensitivities -------------------------------------------------
            fn = repo.method(cls, 'compute_sensitivities')
            where = repo.loc(fn, cls, fn.name)
            for upstream in (False, True):
                construct = '%s.compute_sensitivities[%s,%s]' % (
                    cls, label, 'upstream' if upstream else 'no upstream')
                env = _base_env()
                env['observations'] = obs
                env['dlogp_dpsi'] = SP.up if upstream else None
                fl = dict(flags)
                fl['dlogp_dpsi is None'] = not upstream
                lf = Lifter(repo, cls, flags=fl)
                lf.terminal = '_shape'
                try:
                    val = lf.run(fn, env)
                except Unsupported as e:
                    ctx.error(rule, 'cannot lift %s: %s' % (construct, e))
                    continue
                if not (isinstance(val, (tuple, Tup)) and len(val) >= 4
                        and isinstance(val[0], Opaque)):
                    ctx.error(rule, '%s does not end in self._shape(score, '
                              'dpsi, dtheta, ...)' % construct)
                    continue
                score, dpsi, dtheta = val[1], val[2], val[3]
                try:
                    _check(ctx, rule, where, construct, 'score',
                           summand(score, ELEM), want,
                           'score returned with the sensitivities = '
                           'log-likelihood')
                except NotASum as e:
                    ctx.violation(rule, where, construct, 'score not a sum',
                                  'the score returned with the '
                                  'sensitivities is not a sum of per-element '
                                  'log-densities: %s' % e, engine=ENG)
                except Unsupported as e:
                    ctx.error(rule, '%s score: %s' % (construct, e))
                u = SP.up if upstream else 0
                if centered:
                    _check(ctx, rule, where, construct, 'dpsi', dpsi,
                           sp.diff(want, SP.psi) + u,
                           'dpsi = d log p / d psi (+ upstream sensitivity)')
                    wants = [sp.diff(want, SP.mu), sp.diff(want, SP.sigma)]
                else:
                    if T is None or isinstance(T, (Opaque, bool)):
                        continue
                    _check(ctx, rule, where, construct, 'deta', dpsi,
                           u * sp.diff(T, SP.eta) + sp.diff(want, SP.eta),
                           'deta = upstream * dpsi/deta + d stdnormal/d eta')
                    wants = [u * sp.diff(T, SP.mu),
                             u * sp.diff(T, SP.sigma)]
                if not isinstance(dtheta, Slots):
                    ctx.error(rule, '%s: dtheta is not filled slot-wise'
                              % construct)
                    continue
                if sorted(dtheta.slots) != [0, 1]:
                    ctx.violation(
                        rule, where, construct, 'dtheta slots',
                        'dtheta has entries %s on the parameter axis; the '
                        'model has the two parameters (location, scale)' % (
                            sorted(dtheta.slots)), engine=ENG)
                    continue
                for k, w in enumerate(wants):
                    _check(ctx, rule, where, construct,
                           'dtheta[%d]' % k, dtheta.get(k), w,
                           'dtheta[:, %d] = derivative w.r.t. parameter %d '
                           '(%s)' % (k, k, ('location', 'scale')[k]))
    ctx.floor(rule, 40)


def r06_2(ctx, repo):
    rule = 'R06.2'
    specs = _models(repo)
    for cls, sp_ in specs.items():
        cent = _has_centering(repo, cls)
        fn = repo.method(cls, 'sample')
        where = repo.loc(fn, cls, 'sample')
        for centered in ([True, False] if cent else [True]):
            label = 'centred' if centered else 'non-centred'
            construct = '%s.sample[%s]' % (cls, label)
            env = _base_env()
            env.update({'n_samples': Opaque('int'), 'seed': Opaque('seed'),
                        'parameters.shape': Opaque('shape')})
            lf = Lifter(repo, cls, flags={
                'self._centered': centered, 'n_samples is None': False,
                'isinstance(seed, np.random.Generator)': False})
            try:
                val = lf.run(fn, env)
            except Unsupported as e:
                ctx.error(rule, 'cannot lift %s: %s' % (construct, e))
                continue
            dens = sp_['logpdf'] if centered else STDNORMAL
            x = SP.psi if centered else SP.eta
            rvs = [d for d in lf.draws if d[0] == 'rvs']
            if rvs:
                # scipy truncnorm: a, b are standardised bounds
                _, dist, kw = rvs[0]
                if 'truncnorm' not in dist:
                    ctx.error(rule, '%s: unknown scipy distribution %s' % (
                        construct, dist))
                    continue
                loc = kw.get('loc', sp.Integer(0))
                scale = kw.get('scale', sp.Integer(1))
                a, b = kw.get('a'), kw.get('b')
                _check(ctx, rule, where, construct, 'loc', loc, SP.mu,
                       'truncnorm loc = mu of the density')
                _check(ctx, rule, where, construct, 'scale', scale, SP.sigma,
                       'truncnorm scale = sigma of the density')
                if a is None or b is None:
                    ctx.error(rule, '%s: bounds not given' % construct)
                    continue
                want_a = (0 - loc) / scale
                z = is_zero(a - want_a)
                if z is True:
                    ctx.ok(rule, where, construct,
                           'lower bound a = (0 - loc)/scale truncates at 0',
                           engine=ENG)
                elif z is False:
                    ctx.violation(
                        rule, where, construct, 'truncation point',
                        'scipy truncnorm takes standardised bounds: a = %s '
                        'truncates the samples at loc + a*scale = %s, but '
                        'the density scored by the log-likelihood is '
                        'truncated at 0 (needs a = (0 - loc)/scale)' % (
                            a, sp.simplify(loc + a * scale)), engine=ENG)
                else:
                    ctx.error(rule, '%s: bound undecided' % construct)
                if b != sp.oo:
                    ctx.violation(rule, where, construct, 'upper bound',
                                  'upper bound b = %s, density has support '
                                  '(0, inf)' % b, engine=ENG)
                continue
            eps = [d[-1] for d in lf.draws if d[0] in ('normal', 'lognormal')]
            if not eps or isinstance(val, Opaque):
                ctx.error(rule, '%s: no generator draw recognised'
                          % construct)
                continue
            # family of the density
            g = gaussian_family(dens, x)
            sample = val
            what = 'psi' if centered else 'eta'
            if g is None:
                lx = sp.Symbol('lx', real=True)
                g = gaussian_family(
                    (dens + sp.log(x)).subs(sp.log(x), lx).subs(
                        x, sp.exp(lx)), lx)
                sample = sp.expand_log(sp.log(val), force=True)
                what = 'log psi'
            if g is None:
                ctx.error(rule, '%s: density family not recognised'
                          % construct)
                continue
            _, mean, var = g
            try:
                P = sp.Poly(sp.expand(sample), *eps)
            except sp.PolynomialError:
                P = None
            if P is None or P.total_degree() > 1:
                ctx.violation(rule, where, construct, 'sample not affine',
                              'the sampled %s is not an affine function of '
                              'the standard-normal draw' % what, engine=ENG)
                continue
            m0 = P.coeff_monomial(1)
            v0 = sum(P.coeff_monomial(e)**2 for e in eps)
            _check(ctx, rule, where, construct, 'sampler mean', m0, mean,
                   'mean of sampled %s = mean of the density (%s)' % (
                       what, mean))
            _check(ctx, rule, where, construct, 'sampler variance',
                   sp.expand(v0), sp.expand(var),
                   'variance of sampled %s = variance of the density (%s)'
                   % (what, var))
    ctx.floor(rule, 10)


def r06_3(ctx, repo):
    rule = 'R06.3'
    moments = SP.population_model_moments()
    for cls, (mean, std) in moments.items():
        fn = repo.method(cls, 'get_mean_and_std')
        construct = '%s.get_mean_and_std' % cls
        where = repo.loc(fn, cls, fn.name)
        env = _base_env()
        lf = Lifter(repo, cls)
        try:
            val = lf.run(fn, env)
        except Unsupported as e:
            ctx.error(rule, 'cannot lift %s: %s' % (construct, e))
            continue
        if isinstance(val, Slots):
            got = [val.get(0), val.get(1)]
            if sorted(val.slots) != [0, 1]:
                ctx.violation(rule, where, construct, 'rows',
                              'output has rows %s, expected (mean, std)'
                              % sorted(val.slots), engine=ENG)
                continue
        elif isinstance(val, (tuple, Tup)) and len(val) == 2:
            got = list(val)
        else:
            ctx.error(rule, '%s: return value not recognised' % construct)
            continue
        _check(ctx, rule, where, construct, 'mean', got[0], mean,
               'reported mean = closed-form mean of the density')
        _check(ctx, rule, where, construct, 'std', got[1]**2, std**2,
               'reported std = closed-form standard deviation of the density')
    ctx.floor(rule, 4)


# -----------------------------------------------------------------------------
# R05.5 — return-form helpers `_shape`: the hierarchical (reduce=True) form
# carries the upstream sensitivities
# -----------------------------------------------------------------------------
def _deps_on_path(fn, flags):
    """Data dependences of the returned tuple elements of `fn` on its
    parameters, along the path selected by the boolean `flags`
    (name -> bool).  -> list of sets (one per returned element) or None."""
    from ..pathwalk import beval
    params = [a.arg for a in fn.args.args if a.arg != 'self']
    deps = {p: {p} for p in params}

    def used(e):
        out = set()
        for n in ast.walk(e):
            if isinstance(n, ast.Name) and n.id in deps:
                out |= deps[n.id]
        return out

    def run(stmts):
        for s in stmts:
            if isinstance(s, ast.If):
                v = beval(s.test, dict(flags))
                if v is None:
                    return 'unknown'
                r = run(s.body if v else s.orelse)
                if r is not None:
                    return r
            elif isinstance(s, ast.Assign):
                d = used(s.value)
                for t in s.targets:
                    for x in ast.walk(t):
                        if isinstance(x, ast.Name) and isinstance(
                                x.ctx, ast.Store):
                            deps[x.id] = set(d)
            elif isinstance(s, ast.AugAssign) and isinstance(
                    s.target, ast.Name):
                deps[s.target.id] = deps.get(s.target.id, set()) | used(
                    s.value)
            elif isinstance(s, ast.Return):
                from ..loader import returned_expr
                v = returned_expr(fn, s) if s.value is not None else None
                if isinstance(v, ast.Tuple):
                    return [used(e) for e in v.elts]
                return [used(v)] if v is not None else []
        return None
    return run(fn.body)


def r05_5(ctx, repo):
    rule = 'R05.5'
    n = 0
    for cls in sorted(repo.classes):
        if not repo.is_subclass(cls, 'PopulationModel'):
            continue
        fn = repo.cls(cls).methods.get('_shape')
        if fn is None:
            continue
        params = [a.arg for a in fn.args.args][1:]
        if len(params) < 4 or 'reduce' not in params:
            ctx.error(rule, '%s._shape: signature (score, dpsi, dtheta, '
                      'reduce, ...) not recognised' % cls)
            continue
        n += 1
        construct = '%s._shape' % cls
        where = repo.loc(fn, cls, '_shape')
        for flat in (True, False):
            flags = {'reduce': True}
            if 'flattened' in params:
                flags['flattened'] = flat
            r = _deps_on_path(fn, flags)
            if r == 'unknown' or r is None or len(r) != 2:
                ctx.error(rule, '%s: reduce=True return not derived' % (
                    construct))
                break
            missing = []
            if params[0] not in r[0]:
                missing.append('the score does not derive from `%s`'
                               % params[0])
            if params[1] not in r[1]:
                missing.append(
                    'the returned sensitivities do not depend on `%s`, the '
                    'sensitivities w.r.t. the individual parameters '
                    '(which carry the upstream dlogp/dpsi)' % params[1])
            if missing:
                ctx.violation(
                    rule, where, construct, 'reduce form',
                    'in the hierarchical return form (reduce=True) %s: '
                    'gradients of a hierarchical objective lose the '
                    'contribution of the individual likelihoods for these '
                    'dimensions' % '; '.join(missing))
                break
        else:
            # axis-wise: the reduced form sums over individuals only
            from ..shapes import ShapeLifter, Arr, Ax
            from .layout import (sym, N_DIM, R_OBS, _class_invariants,
                                 _emit_events)
            inv = _class_invariants(repo, cls) if cls != 'PopulationModel' \
                else {}
            P = inv.get('self._n_parameters')
            npd = sp.cancel(P / N_DIM) if isinstance(P, sp.Expr) \
                else sym('n_param_per_dim')
            mixed = 0
            for flat in (True, False):
                lf = ShapeLifter(repo, cls, flags={'reduce': True,
                                                   'flattened': flat})
                lf.check_mix = True
                env = dict(inv)
                env.update({'score': sp.Symbol('score'),
                            'dpsi': Arr([Ax(R_OBS), Ax(N_DIM)]),
                            'dtheta': Arr([Ax(R_OBS), Ax(npd), Ax(N_DIM)]),
                            'reduce': True, 'flattened': flat})
                try:
                    lf._block(fn.body, env, fn, 0, cls)
                except Exception:
                    continue
                lf.events = [e for e in lf.events if 'are mixed' in e.msg]
                mixed += _emit_events(ctx, rule, repo, cls, fn, lf,
                                      construct)
                if mixed:
                    break
            if not mixed:
                ctx.ok(rule, where, construct,
                       'reduce=True returns (score, f(dpsi, ...)) — the '
                       'upstream sensitivities are carried into the '
                       'hierarchical form, summed over individuals only')
    if n < 3:
        ctx.error(rule, 'only %d _shape implementations found (floor 3)' % n)


# -----------------------------------------------------------------------------
# R17.4 — the two published counts of population parameters agree
# -----------------------------------------------------------------------------
def r17_4(ctx, repo):
    """`n_hierarchical_parameters(n_ids)` returns (individual-level count,
    population-level count); the second entry is the number of entries of
    the population block of a hierarchical parameter vector and therefore
    equals `n_parameters()` (with n_ids the model's own number of
    individuals).  Both are evaluated symbolically per class; wrapped models
    contribute opaque counts."""
    rule = 'R17.4'
    Bw, Pw, Cw = sp.symbols('B_wrapped P_wrapped C_covariate', positive=True)
    POPC = sp.Symbol('POPC', positive=True)
    NI = sp.Symbol('n_ids', positive=True)
    MASK = 'self._fixed_params_mask'

    class L(Lifter):
        def ev(self, n, env, fn_, depth, owner):
            if U(n) == MASK:
                return Opaque('mask')
            return super().ev(n, env, fn_, depth, owner)

        def _call(self, n, env, fn_, depth, owner):
            f = U(n.func)
            if f.endswith('_population_model.n_hierarchical_parameters'):
                return Tup([Bw, Pw])
            if f.endswith('_population_model.n_parameters'):
                return Pw
            if f.endswith('_covariate_model.n_parameters'):
                return Cw
            if f in ('np.sum', 'np.count_nonzero') and n.args:
                v = self.ev(n.args[0], env, fn_, depth, owner)
                if isinstance(v, Opaque) and v.what == 'mask':
                    return POPC
            if f == 'int' and n.args:
                return self.ev(n.args[0], env, fn_, depth, owner)
            return super()._call(n, env, fn_, depth, owner)
    n = 0
    n_first = 0
    for cls in sorted(repo.subclasses('PopulationModel', strict=True)):
        c = repo.cls(cls)
        fh = c.methods.get('n_hierarchical_parameters')
        if fh is None or repo.is_abstract(fh):
            continue
        kp, fp = repo.resolve(cls, 'n_parameters')
        if fp is None:
            continue
        construct = '%s.n_hierarchical_parameters' % cls
        where = repo.loc(fh, cls, fh.name)
        verdicts = []
        for mask_none in (True, False):
            vals = []
            for fn_, owner in ((fh, cls), (fp, kp)):
                lf = L(repo, cls, flags={MASK + ' is None': mask_none})
                env = {'n_ids': NI, 'self._n_ids': NI,
                       'self._n_dim': sp.Symbol('n_dim', positive=True),
                       'self._n_pop': Pw,
                       'self._n_covariates': sp.Symbol('n_cov',
                                                       positive=True)}
                if cls == 'ReducedPopulationModel':
                    env['self._n_parameters'] = Pw
                else:
                    env['self._n_parameters'] = sp.Symbol(
                        'n_parameters_field', positive=True)
                if cls == 'HeterogeneousModel':
                    env['self._n_parameters'] = NI * env['self._n_dim']
                try:
                    vals.append(lf.run(fn_, env))
                except Unsupported as e:
                    vals.append(('unsupported', str(e)))
            h, p_ = vals
            if isinstance(h, tuple) and h and h[0] == 'unsupported' or \
                    isinstance(p_, tuple) and p_ and p_[0] == 'unsupported':
                verdicts.append(('skip', None))
                continue
            if not (isinstance(h, (tuple, Tup)) and len(h) == 2
                    and isinstance(h[1], sp.Expr)
                    and isinstance(p_, sp.Expr)):
                verdicts.append(('skip', None))
                continue
            d = sp.expand(h[1] - p_)
            verdicts.append(('ok', None) if d == 0 else ('bad', (h[1], p_)))
            # first entry: one bottom-level parameter per individual and
            # hierarchical dimension
            kd, fd = repo.resolve(cls, 'n_hierarchical_dim')
            if fd is not None and isinstance(h[0], (sp.Expr, int)) \
                    and not sp.sympify(h[0]).has(Bw):
                env2 = dict(env)
                # the field is set by the constructors: the most derived
                # assignment wins (subclasses assign after super().__init__)
                for k_ in repo.mro(cls):
                    init = repo.classes[k_].methods.get('__init__') \
                        if k_ in repo.classes else None
                    asg = [a for a in ast.walk(init) if isinstance(
                        a, ast.Assign) and U(a.targets[0]) ==
                        'self._n_hierarchical_dim'] if init else []
                    if asg:
                        v_ = U(asg[-1].value)
                        if v_ == 'self._n_dim':
                            env2['self._n_hierarchical_dim'] = env[
                                'self._n_dim']
                        elif v_ == '0':
                            env2['self._n_hierarchical_dim'] = sp.Integer(0)
                        break
                try:
                    lf = L(repo, cls, flags={MASK + ' is None': mask_none})
                    D = lf.run(fd, env2)
                except Unsupported:
                    D = None
                if isinstance(D, (sp.Expr, int)) and not sp.sympify(
                        D).has(Bw, Pw):
                    n_first += 1
                    if sp.expand(sp.sympify(h[0]) - NI * sp.sympify(D)) != 0:
                        ctx.violation(
                            rule, where, construct, 'individual count',
                            'n_hierarchical_parameters reports `%s` '
                            'individual-level parameters but the model has '
                            '`%s` hierarchical dimension(s) for each of the '
                            'n_ids individuals (n_hierarchical_dim): the '
                            'bottom block of a hierarchical vector and of '
                            'the reduced gradient is cut at the wrong place '
                            'for n_dim > 1' % (h[0], D))
                    else:
                        ctx.ok(rule, where, construct,
                               'first entry equals n_ids * '
                               'n_hierarchical_dim()')
            if cls != 'ReducedPopulationModel':
                break
        if all(v[0] == 'skip' for v in verdicts):
            ctx.note(rule, '%s: counts not evaluated (loop over sub-models)'
                     % construct)
            continue
        n += 1
        bad = [v for v in verdicts if v[0] == 'bad']
        if bad:
            got, want = bad[0][1]
            ctx.violation(
                rule, where, construct, 'population count',
                'n_hierarchical_parameters reports `%s` population-level '
                'parameters but n_parameters() is `%s`: the population block '
                'of a hierarchical vector, the names and the gradient have '
                'different lengths whenever the two differ (e.g. a subset '
                'of parameters depends on covariates, or parameters are '
                'fixed)' % (got, want))
        else:
            ctx.ok(rule, where, construct,
                   'second entry equals n_parameters()')
    if n < 5:
        ctx.error(rule, 'only %d classes evaluated (floor 5)' % n)
    if n_first < 4:
        ctx.error(rule, 'individual-level count evaluated for %d classes '
                  'only (floor 4)' % n_first)


# -----------------------------------------------------------------------------
# R05.9 — one support for the transform, the density and its gradient
# -----------------------------------------------------------------------------
def r05_9(ctx, repo):
    """The three evaluation methods of an elementary population model
    (`compute_individual_parameters`, `compute_log_likelihood`,
    `compute_sensitivities`) reject the same scale parameters: their
    support guards on the scale (`np.any(sigma < 0)` ...) compare with the
    same operator.  A transform that rejects sigma = 0 while the density
    accepts it (or the reverse) makes the hierarchical posterior disagree
    with itself on the boundary."""
    rule = 'R05.9'
    import ast as _ast
    from .layout import _elementary
    n = 0
    for cls in _elementary(repo):
        ops = {}
        for m in ('compute_individual_parameters', 'compute_log_likelihood',
                  'compute_sensitivities'):
            k, fn = repo.resolve(cls, m)
            if fn is None or k != cls or repo.is_abstract(fn):
                continue
            for g in _ast.walk(fn):
                if not (isinstance(g, _ast.If) and g.body and isinstance(
                        g.body[-1], (_ast.Return, _ast.Raise))):
                    continue
                for c in _ast.walk(g.test):
                    if isinstance(c, _ast.Compare) and len(c.ops) == 1 \
                            and isinstance(c.left, _ast.Name) \
                            and c.left.id.startswith(('sigma', 'std')) \
                            and isinstance(c.comparators[0], _ast.Constant) \
                            and c.comparators[0].value == 0:
                        ops.setdefault(type(c.ops[0]).__name__, []).append(
                            (m, g))
        if not ops:
            continue
        n += 1
        construct = '%s (support guards)' % cls
        if len(ops) == 1:
            m0, g0 = list(ops.values())[0][0]
            ctx.ok(rule, repo.loc(g0, cls, m0), construct,
                   'transform, density and gradient reject the same scale '
                   'values (%s 0)' % {'Lt': '<', 'LtE': '<='}.get(
                       list(ops)[0], list(ops)[0]))
        else:
            minority = min(ops.items(), key=lambda kv: len(kv[1]))
            m0, g0 = minority[1][0]
            ctx.violation(
                rule, repo.loc(g0, cls, m0), '%s.%s' % (cls, m0),
                'support guard differs',
                '`%s` in %s compares the scale with another operator than '
                'the sibling evaluation methods of %s (%s): the transform, '
                'the density and its gradient disagree on whether the '
                'boundary value belongs to the support' % (
                    U(g0.test)[:50], m0, cls, ', '.join(
                        '%s: %s' % (k_, sorted({x[0] for x in v}))
                        for k_, v in sorted(ops.items()))))
    if n < 3:
        ctx.error(rule, 'only %d models with scale guards found (floor 3)'
                  % n)
