"""C18 rules.

R18.1 initial points: population-level block from the prior, individual-level
      block from the population model at those population values (same row),
      n_ids individuals, same covariates.
R18.2 chain formatting: the `individual` coordinate is the likelihood's
      unique IDs in their original order; result tables pair names and IDs of
      the same posterior.
R18.3 parameter maps are applied as one simultaneous substitution.
"""
import ast
import re

from ..loader import U, norm_stmt, AnalysisError

ORDER_PRESERVING = {'np.array', 'np.asarray', 'list', 'copy.copy',
                    'copy.deepcopy', 'tuple'}
ORDER_CHANGING = {'np.unique', 'sorted', 'set', 'np.sort', 'frozenset'}


def _defs(fn, name):
    return [a for a in ast.walk(fn) if isinstance(a, ast.Assign)
            and any(isinstance(t, ast.Name) and t.id == name
                    for t in a.targets)]


def _returned_name(fn, default):
    """Name of the local that the function returns (last `return <name>`)."""
    rets = [r for r in ast.walk(fn) if isinstance(r, ast.Return)
            and isinstance(r.value, ast.Name)]
    return rets[-1].value.id if rets else default


def _resolved(fn, expr, depth=0):
    """Text of expr with single-assignment locals replaced by their
    definitions (so that rules compare what a value *is*, not what the
    local holding it is called)."""
    import copy as _copy
    if expr is None:
        return ''
    params = {a.arg for a in fn.args.args + fn.args.kwonlyargs}
    defs = {}
    for a in ast.walk(fn):
        if isinstance(a, ast.Assign) and len(a.targets) == 1 and isinstance(
                a.targets[0], ast.Name):
            defs.setdefault(a.targets[0].id, []).append(a.value)
        elif isinstance(a, (ast.AugAssign, ast.For, ast.comprehension)):
            t = a.target
            for x in ast.walk(t):
                if isinstance(x, ast.Name):
                    defs.setdefault(x.id, []).extend([None, None])

    class R(ast.NodeTransformer):
        def __init__(self, d):
            self.d = d

        def visit_Name(self, n):
            if n.id in params or self.d > 3:
                return n
            vs = defs.get(n.id, [])
            if len(vs) == 1 and vs[0] is not None and isinstance(
                    n.ctx, ast.Load):
                return R(self.d + 1).visit(_copy.deepcopy(vs[0]))
            return n
    return U(R(depth).visit(_copy.deepcopy(expr))).replace(' ', '')


def _bound_from(fn, needle, default):
    """Name of the local assigned from an expression containing `needle`."""
    for a in ast.walk(fn):
        if isinstance(a, ast.Assign) and len(a.targets) == 1 and isinstance(
                a.targets[0], ast.Name) and needle in U(a.value):
            return a.targets[0].id
    return default


def _column_space(ctx, rule, repo, cls, fn, construct):
    """The columns that are kept from the sampled individual parameters
    (`dims`) are positions in the matrix returned by the population model's
    sample(), which has n_dim() columns per sub-model: the cursor that
    produces those positions advances by the sub-model's n_dim() on every
    path through the loop — also for sub-models that are skipped."""
    import sympy as sp
    from .cursors import cursor_increments, _zero_inits
    zeros = _zero_inits(fn)
    for loop in ast.walk(fn):
        if not isinstance(loop, ast.For):
            continue
        # the loop that fills the index list from range(cursor, ...)
        fills = [a for a in ast.walk(loop) if isinstance(a, ast.AugAssign)
                 and 'range(' in U(a.value)]
        if not fills:
            continue
        rng_ = [c for c in ast.walk(fills[0].value) if isinstance(
            c, ast.Call) and U(c.func) == 'range' and c.args]
        if not rng_ or not isinstance(rng_[0].args[0], ast.Name):
            continue
        v = rng_[0].args[0].id
        if v not in zeros:
            continue            # positions not taken from a running cursor
        elem = U(loop.target)
        want = sp.Symbol('%s.n_dim()' % elem)
        incs = cursor_increments(loop, v)
        where = repo.loc(loop, cls, fn.name)
        bad = [(c, i) for c, i in incs if i is None or sp.expand(
            i - want) != 0]
        if not incs:
            continue
        if not bad:
            ctx.ok(rule, where, construct,
                   'kept columns are positions in the sampled matrix: the '
                   'cursor `%s` advances by %s.n_dim() on all %d paths' % (
                       v, elem, len(incs)))
        else:
            conds, inc = bad[0]
            ctx.violation(
                rule, where, construct, 'column space',
                'the cursor `%s` that produces the kept column positions '
                'advances by `%s` on the path {%s}; the sampled matrix has '
                '%s.n_dim() columns per sub-model, so positions after such '
                'a sub-model select the wrong columns' % (
                    v, inc, ', '.join('%s is %s' % (U(t)[:40], b)
                                      for t, b in conds) or 'always', elem))


def r18_1(ctx, repo):
    rule = 'R18.1'
    n = 0
    for cls in ('HierarchicalLogPosterior', 'PopulationFilterLogPosterior'):
        fn = repo.method(cls, 'sample_initial_parameters')
        construct = '%s.sample_initial_parameters' % cls
        _column_space(ctx, rule, repo, cls, fn, construct)
        IP = _returned_name(fn, 'initial_params')
        # the prior sample fills one block of every row
        tops = [a for a in ast.walk(fn) if isinstance(a, ast.Assign)
                and isinstance(a.targets[0], ast.Subscript)
                and U(a.targets[0].value) == IP
                and '_log_prior.sample' in U(a.value)]
        pops = [c for c in ast.walk(fn) if isinstance(c, ast.Call)
                and isinstance(c.func, ast.Attribute)
                and c.func.attr == 'sample'
                and 'population_model' in U(c.func.value)]
        if len(tops) != 1 or len(pops) != 1:
            ctx.error(rule, '%s: prior / population sampling sites not '
                      'found (%d, %d)' % (construct, len(tops), len(pops)))
            continue
        n += 1
        top = tops[0]
        sl = top.targets[0].slice
        top_slice = U(sl.elts[1]) if isinstance(sl, ast.Tuple) and len(
            sl.elts) == 2 else None
        top_slice_r = _resolved(fn, sl.elts[1]) if top_slice else None
        where = repo.loc(top, cls, fn.name)
        if 'n_samples' in U(top.value) and top_slice:
            ctx.ok(rule, where, construct,
                   'population-level block [%s] of every initial point is '
                   'drawn from the prior' % top_slice)
        else:
            ctx.error(rule, '%s: prior block not recognised' % construct)
        # the population sample uses the same block of the same row
        c = pops[0]
        kw = {k.arg: k.value for k in c.keywords}
        p = kw.get('parameters', c.args[0] if c.args else None)
        # iteration constructs around the draw: for loops and comprehension
        # generators, innermost first -> (target text, iterable node)
        iters = []
        cur = getattr(c, '_parent', None)
        while cur is not None and cur is not fn:
            if isinstance(cur, ast.For):
                iters.append((U(cur.target), cur.iter))
            if isinstance(cur, (ast.ListComp, ast.GeneratorExp)):
                for g in reversed(cur.generators):
                    iters.append((U(g.target), g.iter))
            cur = getattr(cur, '_parent', None)
        wherec = repo.loc(c, cls, fn.name)
        if isinstance(p, ast.Name) and p.id not in [t for t, _ in iters]:
            d = [a for a in _defs(fn, p.id) if a.lineno < c.lineno]
            if d:
                p = d[-1].value

        def norm(x):
            return U(x).replace(' ', '') if x is not None else ''

        def row_block(p):
            """-> (row variable, column-slice text) of `p` if it is the
            block of one row of initial_params, visited row by row."""
            for tgt, it in iters:
                # for k in range(n_samples): initial_params[k, SL]
                if isinstance(p, ast.Subscript) and U(p.value) == \
                        IP and isinstance(
                        p.slice, ast.Tuple) and len(p.slice.elts) == 2 \
                        and U(p.slice.elts[0]) == tgt and isinstance(
                        it, ast.Call) and U(it.func) == 'range' \
                        and norm(it.args[-1] if len(it.args) < 3 else None) \
                        == 'n_samples':
                    return tgt, _resolved(fn, p.slice.elts[1])
                # for row in initial_params[:, SL]: row
                if isinstance(p, ast.Name) and p.id == tgt and isinstance(
                        it, ast.Subscript) and U(it.value) == \
                        IP and isinstance(
                        it.slice, ast.Tuple) and len(it.slice.elts) == 2 \
                        and norm(it.slice.elts[0]) == ':':
                    return tgt, _resolved(fn, it.slice.elts[1])
            return None
        rb = row_block(p)
        ptxt = norm(p)
        row = rb[0] if rb else (iters[0][0] if iters else None)
        if cls == 'PopulationFilterLogPosterior':
            want_sl = ':self._population_model.n_parameters()'
        else:
            want_sl = top_slice_r or ''

        want = '%s[%s,%s]' % (IP, row, want_sl)
        if rb and rb[1] == want_sl:
            ctx.ok(rule, wherec, construct,
                   'individual-level entries of initial point k are drawn '
                   'from the population model at the population values of '
                   'the same point k')
        elif IP not in ptxt and not rb:
            ctx.error(rule, '%s: population values `%s` not traced to the '
                      'initial points' % (construct, ptxt[:50]))
        else:
            ctx.violation(
                rule, wherec, construct, 'population values',
                'the population model is sampled at `%s`; the individual '
                'entries of initial point `%s` must be drawn at that '
                'point\'s own population values `%s` (otherwise the '
                'population density at the initial point can be -inf)' % (
                    U(p) if p is not None else '?', row, want))
        ns = kw.get('n_samples')
        want_n = 'self._log_likelihood.n_log_likelihoods()' \
            if cls == 'HierarchicalLogPosterior' else 'self._n_samples'
        if ns is not None and _resolved(fn, ns) == want_n:
            ctx.ok(rule, wherec, construct,
                   'one individual-level draw per modelled individual '
                   '(n_samples=%s)' % want_n)
        else:
            ctx.violation(rule, wherec, construct, 'number of individuals',
                          'the population model is asked for `%s` samples; '
                          'expected one per modelled individual (%s)' % (
                              U(ns) if ns is not None else 'default',
                              want_n))
        cov = kw.get('covariates')
        if cov is not None and _resolved(fn, cov) in (
                'self._log_likelihood._covariates', 'self._covariates'):
            ctx.ok(rule, wherec, construct,
                   'the likelihood\'s covariates are used for the draw')
        else:
            ctx.violation(rule, wherec, construct, 'covariates',
                          'the population draw does not receive the '
                          'covariates of the modelled individuals')
        # placement of the bottom block
        bots = [a for a in ast.walk(fn) if isinstance(a, ast.Assign)
                and isinstance(a.targets[0], ast.Subscript)
                and U(a.targets[0].value) == IP
                and '_log_prior' not in _resolved(fn, a.value)
                and 'population_model' in _resolved(fn, a.value)
                + U(a.value)]
        if len(bots) == 1:
            bsl = _resolved(fn, bots[0].targets[0].slice)
            nb = _resolved(fn, ast.Name(id=_bound_from(
                fn, 'n_parameters(', 'n_bottom'), ctx=ast.Load()))
            want_b = (':,:n_bottom' if cls == 'HierarchicalLogPosterior'
                      else ':,self._n_top:self._end_bottom')
            if cls == 'HierarchicalLogPosterior':
                # [:, :<number of individual-level parameters>]
                m_ = re.match(r'^\(?:,:(.+?)\)?$', bsl)
                ok_b = bool(m_) and ('n_parameters(' in m_.group(1)
                                     or 'n_bottom' in m_.group(1))
            else:
                ok_b = bsl.strip('()') == want_b
            if ok_b:
                ctx.ok(rule, repo.loc(bots[0], cls, fn.name), construct,
                       'individual-level block is written to [%s]' % want_b)
            else:
                ctx.violation(rule, repo.loc(bots[0], cls, fn.name),
                              construct, 'bottom block',
                              'the individual-level draws are written to '
                              '[%s], expected [%s]' % (bsl, want_b))
    if n < 2:
        ctx.error(rule, 'sample_initial_parameters not analysed')


def _order_flow(fn, name, upto):
    """Chain of calls a value bound to `name` went through (def-use, in
    statement order up to line `upto`)."""
    chain = []
    for a in sorted(_defs(fn, name), key=lambda a: a.lineno):
        if a.lineno > upto:
            break
        v = a.value
        # conditional expression: both arms
        arms = [v.body, v.orelse] if isinstance(v, ast.IfExp) else [v]
        for arm in arms:
            for c in ast.walk(arm):
                if isinstance(c, ast.Call):
                    chain.append((U(c.func), a))
    return chain


def r18_2(ctx, repo):
    rule = 'R18.2'
    cls = 'SamplingController'
    fn = repo.method(cls, '_format_chains')
    construct = cls + '._format_chains'
    coords = [d for d in ast.walk(fn) if isinstance(d, ast.Dict) and any(
        isinstance(k, ast.Constant) and k.value == 'individual'
        for k in d.keys)]
    if not coords:
        ctx.error(rule, '%s: individual coordinate not found' % construct)
    for d in coords:
        v = [val for k, val in zip(d.keys, d.values)
             if isinstance(k, ast.Constant) and k.value == 'individual'][0]
        where = repo.loc(d, cls, fn.name)
        if not isinstance(v, ast.Name):
            ctx.error(rule, '%s: individual coordinate is not a name'
                      % construct)
            continue
        chain = _order_flow(fn, v.id, d.lineno)
        src = [c for c, a in chain if c.endswith('.get_id')]
        bad = [(c, a) for c, a in chain if c in ORDER_CHANGING]
        unknown = [(c, a) for c, a in chain
                   if c not in ORDER_PRESERVING and c not in ORDER_CHANGING
                   and not c.endswith('.get_id')]
        uniq = any(isinstance(a.value, ast.Call) and any(
            k.arg == 'unique' and isinstance(k.value, ast.Constant)
            and k.value.value is True for k in a.value.keywords)
            for c, a in chain if c.endswith('.get_id'))
        if bad:
            c, a = bad[0]
            ctx.violation(
                rule, repo.loc(a, cls, fn.name), construct,
                'ids reordered',
                'the `individual` coordinate passes through `%s`, which '
                're-orders the IDs, while the data columns stay in the '
                'likelihood\'s ID order: selecting an individual returns '
                'another individual\'s chain whenever the IDs are not '
                'already sorted' % c)
        elif src and uniq and not unknown:
            ctx.ok(rule, where, construct,
                   'the individual coordinate is get_id(unique=True) in its '
                   'original order')
        elif not src:
            ctx.violation(rule, where, construct, 'ids source',
                          'the individual coordinate does not come from the '
                          'posterior\'s get_id(unique=True)')
        else:
            ctx.error(rule, '%s: individual coordinate flows through `%s`'
                      % (construct, unknown[0][0] if unknown else '?'))
    # bottom columns are selected by a name mask over the full name list:
    # the data of every DataArray with an `individual` dimension is
    # chains[:, :, <names == loop parameter>]
    NM = _bound_from(fn, '.get_parameter_names(', 'names')
    arrays = [c for c in ast.walk(fn) if isinstance(c, ast.Call)
              and U(c.func).endswith('DataArray') and any(
                  k.arg == 'dims' and 'individual' in U(k.value)
                  for k in c.keywords)]
    if not arrays:
        ctx.error(rule, '%s: no DataArray with an individual dimension found'
                  % construct)
    for c in arrays:
        data = [k.value for k in c.keywords if k.arg == 'data']
        data = data[0] if data else (c.args[0] if c.args else None)
        sel = None
        if isinstance(data, ast.Subscript) and isinstance(
                data.slice, ast.Tuple) and len(data.slice.elts) == 3:
            sel = data.slice.elts[2]
            if isinstance(sel, ast.Name):
                d = [a for a in _defs(fn, sel.id) if a.lineno <= c.lineno]
                sel = d[-1].value if d else sel
            # the positions of a mask select the same columns as the mask
            if isinstance(sel, ast.Subscript) and isinstance(
                    sel.slice, ast.Constant) and sel.slice.value == 0 \
                    and isinstance(sel.value, ast.Call) and U(
                        sel.value.func) in ('np.where', 'np.nonzero') \
                    and len(sel.value.args) == 1:
                sel = sel.value.args[0]
            if isinstance(sel, ast.Call) and U(sel.func) in (
                    'np.flatnonzero',) and len(sel.args) == 1:
                sel = sel.args[0]
        loopvars = set()
        cur = getattr(c, '_parent', None)
        while cur is not None and cur is not fn:
            if isinstance(cur, ast.For):
                loopvars |= {x.id for x in ast.walk(cur.target)
                             if isinstance(x, ast.Name)}
            cur = getattr(cur, '_parent', None)
        where = repo.loc(c, cls, fn.name)
        if isinstance(sel, ast.Compare) and len(sel.ops) == 1 and isinstance(
                sel.ops[0], ast.Eq) and {U(sel.left),
                                         U(sel.comparators[0])} & {NM} \
                and ({U(sel.left), U(sel.comparators[0])} - {NM}) \
                <= loopvars:
            ctx.ok(rule, where, construct,
                   'individual-level columns are selected by name over the '
                   'full name list (ID order of the posterior)')
        elif sel is None:
            ctx.error(rule, '%s: column selection of the individual-level '
                      'samples not recognised' % construct)
        else:
            ctx.violation(
                rule, where, construct, 'column selection',
                'the individual-level samples are selected with `%s`; the '
                'columns of one parameter are those whose published name '
                'equals it (names == parameter), in the posterior\'s ID '
                'order' % U(sel)[:60])
    # population-level columns: position of the name in the full name list
    # (or a name mask), never a position computed from the number of
    # population parameters (posteriors lay their blocks out differently)
    tops = [c for c in ast.walk(fn) if isinstance(c, ast.Call)
            and U(c.func).endswith('DataArray') and any(
                k.arg == 'dims' and 'individual' not in U(k.value)
                and 'chain' in U(k.value) for k in c.keywords)]
    for c in tops:
        data = [k.value for k in c.keywords if k.arg == 'data']
        data = data[0] if data else (c.args[0] if c.args else None)
        if not (isinstance(data, ast.Subscript) and isinstance(
                data.slice, ast.Tuple) and len(data.slice.elts) == 3):
            continue
        sel = data.slice.elts[2]
        where = repo.loc(c, cls, fn.name)
        ok_ = False
        cur = getattr(c, '_parent', None)
        while cur is not None and cur is not fn:
            if isinstance(cur, ast.For) and isinstance(
                    cur.iter, ast.Call) and U(cur.iter.func) == 'enumerate' \
                    and cur.iter.args and U(cur.iter.args[0]) == NM \
                    and isinstance(cur.target, ast.Tuple) and U(
                        cur.target.elts[0]) == U(sel):
                ok_ = True
            cur = getattr(cur, '_parent', None)
        if isinstance(sel, ast.Name):
            d = [a for a in _defs(fn, sel.id) if a.lineno <= c.lineno]
            if d and isinstance(d[-1].value, ast.Compare) and NM in U(
                    d[-1].value):
                ok_ = True
        if isinstance(sel, ast.Compare) and NM in U(sel):
            ok_ = True
        if ok_:
            ctx.ok(rule, where, construct,
                   'population-level columns are addressed by the position '
                   'of their name in the full name list')
        else:
            ctx.violation(
                rule, where, construct, 'top-level column',
                'the samples of a population-level parameter are read from '
                'column `%s`, which is not the position of its name in the '
                'posterior\'s name list: posteriors that order their blocks '
                'differently (the filter posterior puts the population '
                'parameters first) are mislabelled' % U(sel)[:40])
    # optimisation table
    cls2 = 'OptimisationController'
    fn2 = repo.method(cls2, 'run')
    cols = {}
    for a in ast.walk(fn2):
        if isinstance(a, ast.Assign) and isinstance(
                a.targets[0], ast.Subscript) and isinstance(
                a.targets[0].value, ast.Name) and isinstance(
                a.targets[0].slice, ast.Constant):
            cols[a.targets[0].slice.value] = (U(a.value), a)
    want = {'Parameter': 'self._log_posterior.get_parameter_names()',
            'ID': 'self._log_posterior.get_id()'}
    for col, src in want.items():
        got = cols.get(col)
        if got and got[0] == src:
            ctx.ok(rule, repo.loc(got[1], cls2, 'run'), cls2 + '.run',
                   'column %s = %s (full-length, same posterior)' % (
                       col, src))
        else:
            ctx.violation(rule, repo.loc(fn2, cls2, 'run'), cls2 + '.run',
                          'column ' + col,
                          'column %s is filled from `%s`; expected `%s` so '
                          'that estimates, names and IDs are paired row by '
                          'row' % (col, got[0] if got else '?', src))
    ctx.floor(rule, 4)


def r18_3(ctx, repo):
    rule = 'R18.3'
    n = 0
    for rel, cls, fn in repo.all_functions(
            ['chi/_inference.py', 'chi/_predictive_models.py']):
        if fn.name != '_check_parameters':
            continue
        params = [a.arg for a in fn.args.args]
        if 'param_map' not in params:
            continue
        n += 1
        construct = '%s.%s' % (cls, fn.name) if cls else fn.name
        loops = [l for l in ast.walk(fn) if isinstance(l, ast.For)
                 and any(isinstance(s, ast.Assign) and isinstance(
                     s.targets[0], ast.Subscript)
                     and 'param_map' in U(s) or (
                         isinstance(s, ast.Assign) and isinstance(
                             s.targets[0], ast.Subscript)
                         and 'mapped' in U(s.value))
                     for s in ast.walk(l))]
        MN = _bound_from(fn, '.get_parameter_names(', 'model_names')
        stores = [s for s in ast.walk(fn) if isinstance(s, ast.Assign)
                  and isinstance(s.targets[0], ast.Subscript)
                  and U(s.targets[0].value) == MN]
        if not stores:
            # the whole list is rebuilt: `names = [<lookup> for n in names]`
            rebinds = [s for s in ast.walk(fn) if isinstance(s, ast.Assign)
                       and len(s.targets) == 1 and U(s.targets[0]) == MN
                       and isinstance(s.value, (ast.ListComp, ast.Call))
                       and any(isinstance(g, ast.comprehension)
                               and (MN in U(g.iter)
                                    or '.get_parameter_names(' in U(g.iter))
                               for g in ast.walk(s.value))]
            done = False
            for rb in rebinds:
                loop = None
                cur = getattr(rb, '_parent', None)
                while cur is not None and cur is not fn:
                    if isinstance(cur, (ast.For, ast.While)):
                        loop = cur
                        break
                    cur = getattr(cur, '_parent', None)
                where = repo.loc(rb, cls, fn.name)
                if loop is not None and isinstance(loop, ast.For) \
                        and 'param_map' in U(loop.iter):
                    done = True
                    ctx.violation(
                        rule, where, construct, 'sequential renaming',
                        'the map is applied entry by entry to the list that '
                        'is being renamed (`for ... in %s`, `%s`): a name '
                        'produced by one entry is renamed again by a later '
                        'entry, so maps whose values overlap with model '
                        'names (a -> b, b -> c; swaps) select the wrong '
                        'posterior columns' % (U(loop.iter)[:40],
                                               norm_stmt(rb)[:50]))
                elif loop is None and 'param_map' in U(rb.value):
                    done = True
                    ctx.ok(rule, where, construct,
                           'every model name is looked up in the map once '
                           '(simultaneous substitution)')
            if not done:
                ctx.error(rule, '%s: renaming store not found' % construct)
            continue
        st = stores[0]
        loop = None
        cur = getattr(st, '_parent', None)
        while cur is not None and cur is not fn:
            if isinstance(cur, ast.For):
                loop = cur
                break
            cur = getattr(cur, '_parent', None)
        where = repo.loc(st, cls, fn.name)
        it = U(loop.iter) if loop is not None else ''
        over_names = MN in it
        uses_index_search = '.index(' in U(st.targets[0])
        if over_names and not uses_index_search:
            ctx.ok(rule, where, construct,
                   'every model name is looked up in the map once '
                   '(simultaneous substitution)')
        elif 'param_map' in it or uses_index_search:
            ctx.violation(
                rule, where, construct, 'sequential renaming',
                'the map is applied entry by entry to the list that is '
                'being renamed (`for ... in %s`, `%s`): a name produced by '
                'one entry is renamed again by a later entry, so maps whose '
                'values overlap with model names (a -> b, b -> c; swaps) '
                'select the wrong posterior columns' % (
                    it, norm_stmt(st)[:50]))
        else:
            ctx.error(rule, '%s: renaming idiom not recognised' % construct)
    if n < 2:
        ctx.error(rule, 'only %d _check_parameters functions found' % n)


def r18_4(ctx, repo):
    """Dataset read-back keeps (chain, draw) pairs.

    `_format_posterior` copies every posterior variable into
    `posterior[:, :, k]` of shape (n_chains, n_draws).  The direct store
    assumes the variable is laid out (chain, draw); the `except ValueError`
    fallback handles the transposed layout (draw, chain) and must therefore
    *transpose* it — a reshape keeps the memory order and pairs draws with
    the wrong chains.  Decided with the layout engine: in the handler the
    variable's values are (n_draws, n_chains)."""
    rule = 'R18.4'
    from ..shapes import ShapeLifter, Arr, Ax, TOP
    from .layout import sym, _emit_events, ENG
    NC, ND, NP = sym('n_chains'), sym('n_draws'), sym('n_parameters')
    fn = repo.functions.get(('chi/_inference.py', '_format_posterior'))
    if fn is None:
        ctx.error(rule, 'anchor function _format_posterior vanished')
        return
    construct = '_format_posterior'

    class L(ShapeLifter):
        layout = (NC, ND)

        def ev(self, n, env, fn_, depth, owner):
            if isinstance(n, ast.Attribute) and n.attr == 'values':
                return Arr([Ax(x) for x in self.layout])
            return super().ev(n, env, fn_, depth, owner)
    n = 0
    for t in ast.walk(fn):
        if not isinstance(t, ast.Try):
            continue
        for which, stmts, layout in (('direct store', t.body, (NC, ND)),) + \
                tuple(('fallback', h.body, (ND, NC)) for h in t.handlers):
            lf = L(repo, None, rel='chi/_inference.py')
            lf.layout = layout
            env = {'posterior': Arr([Ax(NC), Ax(ND), Ax(NP)]),
                   'n_chains': NC, 'n_draws': ND, 'n_parameters': NP,
                   'param_id': sym('k')}
            try:
                lf._block(stmts, env, fn, 0, None)
            except Exception as e:
                ctx.error(rule, '%s: %s: %s' % (construct, type(e).__name__,
                                                e))
                continue
            n += 1
            where = repo.loc(stmts[0], None, fn.name)
            site = '%s (%s)' % (construct, which)
            if not _emit_events(ctx, rule, repo, None, fn, lf, site):
                ctx.ok(rule, where, site,
                       'values laid out (%s) are stored as (chain, draw)' % (
                           ', '.join(str(x) for x in layout)), engine=ENG)
    if n < 2:
        ctx.error(rule, 'only %d stores analysed (floor 2: one direct '
                  'store and its fallback)' % n)
