"""R13.3 — noise lines of the population-filter posterior (engine F).

y = ybar + sigma*eps   or   y = ybar * exp(sigma*eps)   (log scale)
The coefficients that multiply the filter sensitivity D = ds/dy in the
updates of the eps-, sigma- and psi-blocks must be dy/deps, dy/dsigma and
dy/dybar of the *same* branch; the noise score is -sum(eps^2)/2 + const with
gradient -eps.
"""
import ast

import sympy as sp

from ..loader import U, norm_stmt, AnalysisError
from ..term import Lifter, Unsupported, summand, is_zero, S, NotASum, Opaque

ENG = 'term-algebra'
YB = sp.Symbol('ybar', positive=True)
SIG = sp.Symbol('sigma', positive=True)
EPS = sp.Symbol('eps', real=True)
D = sp.Symbol('D', real=True)           # filter sensitivity ds/dy
M = sp.Symbol('M', real=True)           # d ybar / d psi
CLS = 'PopulationFilterLogPosterior'


class _NoiseLifter(Lifter):
    def _call(self, n, env, fn, depth, owner):
        f = U(n.func)
        if f == 'np.swapaxes' and n.args:
            return self.ev(n.args[0], env, fn, depth, owner)
        return super()._call(n, env, fn, depth, owner)


def _base(t):
    while isinstance(t, ast.Subscript):
        t = t.value
    return t.id if isinstance(t, ast.Name) else None


def _roles(fn):
    """Local names by what they hold (no reliance on the names themselves):
    Y / DYBAR   targets of the mechanistic model's simulate()
    EPS         bound from the tail `parameters[self._end_bottom:]`
    SIGMA       bound from `self._sigma` or from the block ending at
                `self._n_top`
    DS_Y        second result of the filter's compute_sensitivities
    DPSI        the value handed to the population model as dlogp_dpsi
    SCORE/SENS  the returned pair"""
    r = {}
    for n in ast.walk(fn):
        if isinstance(n, ast.Assign) and len(n.targets) == 1:
            t, v = n.targets[0], n.value
            calls = [c for c in ast.walk(v) if isinstance(c, ast.Call)
                     and isinstance(c.func, ast.Attribute)]
            sim = [c for c in calls if c.func.attr == 'simulate'
                   and 'mechanistic_model' in U(c.func.value)]
            if sim and v is sim[0]:
                if isinstance(t, ast.Tuple) and len(t.elts) == 2:
                    r.setdefault('Y', _base(t.elts[0]))
                    r.setdefault('DYBAR', _base(t.elts[1]))
                else:
                    r.setdefault('Y', _base(t))
            flt = [c for c in calls if c.func.attr == 'compute_sensitivities'
                   and '_filter' in U(c.func.value)]
            if flt and v is flt[0] and isinstance(t, ast.Tuple) and len(
                    t.elts) == 2:
                r.setdefault('DS_Y', _base(t.elts[1]))
                r.setdefault('FILTER_S', _base(t.elts[0]))
            if isinstance(t, ast.Name):
                txt = U(v).replace(' ', '')
                if 'parameters[self._end_bottom:]' in txt:
                    r.setdefault('EPS', t.id)
                sig_blk = any(
                    isinstance(x, ast.Subscript) and U(x.value) ==
                    'parameters' and isinstance(x.slice, ast.Slice)
                    and x.slice.lower is not None
                    and x.slice.upper is not None
                    and U(x.slice.upper) == 'self._n_top'
                    for x in ast.walk(v))
                if txt == 'self._sigma' or sig_blk:
                    r.setdefault('SIGMA', t.id)
        if isinstance(n, ast.Call) and isinstance(n.func, ast.Attribute) \
                and n.func.attr == 'compute_sensitivities' \
                and '_population_model' in U(n.func.value):
            for k in n.keywords:
                if k.arg == 'dlogp_dpsi' and isinstance(k.value, ast.Name):
                    r.setdefault('DPSI', k.value.id)
    # plain copies carry the role (`sigma = _h1_sigma` after inlining)
    by_name = {v: k for k, v in r.items() if v}
    copies = {}
    for _ in range(3):
        for n in ast.walk(fn):
            if isinstance(n, ast.Assign) and len(n.targets) == 1:
                t, v = n.targets[0], n.value
                pairs = []
                if isinstance(t, ast.Name) and isinstance(v, ast.Name):
                    pairs = [(t.id, v.id)]
                elif isinstance(t, ast.Tuple) and isinstance(v, ast.Tuple) \
                        and len(t.elts) == len(v.elts):
                    pairs = [(a.id, b.id) for a, b in zip(t.elts, v.elts)
                             if isinstance(a, ast.Name)
                             and isinstance(b, ast.Name)]
                for a, b in pairs:
                    n_defs = sum(1 for x in ast.walk(fn)
                                 if isinstance(x, ast.Name) and x.id == a
                                 and isinstance(x.ctx, ast.Store))
                    if n_defs != 1:
                        continue        # only single-assignment copies
                    if b in by_name and a not in by_name:
                        by_name[a] = by_name[b]
                        copies[a] = by_name[b]
    r['_copies'] = copies
    from ..loader import returned_expr
    rets = [x for x in fn.body if isinstance(x, ast.Return)]
    rv = returned_expr(fn, rets[-1]) if rets else None
    if isinstance(rv, ast.Tuple) and len(rv.elts) == 2:
        a, b = rv.elts
        r['SCORE'], r['SENS'] = _base(a), _base(b)
    elif isinstance(rv, ast.Name):
        r['SCORE'] = rv.id
    return r


def _target_block(t, roles):
    """'EPS' | 'SIGMA' | None for a store into the returned gradient."""
    if isinstance(t, ast.Subscript) and isinstance(t.value, ast.Name) \
            and t.value.id == roles.get('SENS') and isinstance(
                t.slice, ast.Slice):
        lo = U(t.slice.lower) if t.slice.lower is not None else ''
        hi = U(t.slice.upper) if t.slice.upper is not None else ''
        if lo == 'self._end_bottom' and not hi:
            return 'EPS'
        if lo and lo != '0' and hi == 'self._n_top':
            return 'SIGMA'
    return None


def _walk(fn, log_scale, repo):
    """Sequential walk of evaluateS1 / __call__ for one noise mode.
    -> dict with y_final, updates {'EPS': [...], 'SIGMA': [...]}, ds_dpsi,
    score terms mentioning eps."""
    lf = _NoiseLifter(repo, CLS, flags={
        'self._error_on_log_scale': log_scale, 'self._sigma is None': True})
    roles = _roles(fn)
    ry, rscore, rdpsi = roles.get('Y'), roles.get('SCORE'), roles.get('DPSI')
    env = {'self._n_samples': sp.Symbol('n_s'),
           'self._n_observables': sp.Symbol('n_o')}
    symof = {'Y': YB, 'SIGMA': SIG, 'EPS': EPS, 'DS_Y': D, 'DYBAR': M}
    for role, sym_ in symof.items():
        if roles.get(role):
            env[roles[role]] = sym_
    for nm, role in roles.get('_copies', {}).items():
        if role in symof and role != 'Y':
            env[nm] = symof[role]
    out = dict(updates={'EPS': [], 'SIGMA': []}, ds_dpsi=None,
               score=[], applied=False, nodes={})

    def visit(stmts):
        for s in stmts:
            if isinstance(s, ast.If):
                t = U(s.test)
                if t == 'self._error_on_log_scale':
                    visit(s.body if log_scale else s.orelse)
                elif t == 'self._sigma is None':
                    visit(s.body)
                elif t == 'not self._error_on_log_scale':
                    visit(s.orelse if log_scale else s.body)
                continue
            if isinstance(s, (ast.For, ast.While, ast.Try, ast.With)):
                continue
            if isinstance(s, ast.AugAssign):
                blk = _target_block(s.target, roles)
                if blk:
                    try:
                        v = lf.ev(s.value, env, fn, 0, CLS)
                    except Unsupported as e:
                        raise AnalysisError('cannot lift `%s`: %s' % (
                            norm_stmt(s)[:60], e))
                    out['updates'][blk].append((s, v, s.op))
                    continue
                if isinstance(s.target, ast.Name) and s.target.id == ry:
                    v = lf.ev(s.value, env, fn, 0, CLS)
                    env[ry] = lf._binop(s.op, env[ry], v)
                    out['applied'] = True
                    out['nodes']['apply'] = s
                    continue
                if isinstance(s.target, ast.Name) and s.target.id == rscore \
                        and roles.get('EPS') and roles['EPS'] in {
                            x.id for x in ast.walk(s.value)
                            if isinstance(x, ast.Name)}:
                    out['score'].append((s, lf.ev(s.value, env, fn, 0, CLS)))
                continue
            if isinstance(s, ast.Assign) and len(s.targets) == 1:
                t = s.targets[0]
                blk = _target_block(t, roles)
                if blk:
                    v = lf.ev(s.value, env, fn, 0, CLS)
                    out['updates'][blk].append((s, v, None))
                    continue
                if isinstance(t, ast.Name) and t.id == rdpsi:
                    out['ds_dpsi'] = (s, lf.ev(s.value, env, fn, 0, CLS))
                    continue
                if isinstance(t, ast.Name) and t.id == ry and out['applied']:
                    env[ry] = lf.ev(s.value, env, fn, 0, CLS)
                    continue
                if isinstance(t, ast.Name) and t.id == ry and not \
                        out['applied'] and isinstance(
                            s.value, ast.BinOp):
                    # `y = y * exp(..)` / `y = y + ..` (not in-place)
                    try:
                        env[ry] = lf.ev(s.value, env, fn, 0, CLS)
                        out['applied'] = True
                        out['nodes']['apply'] = s
                    except Unsupported:
                        pass
                    continue
                if isinstance(t, ast.Name) and t.id not in protected:
                    # temporaries (chain-rule factors defined per branch)
                    try:
                        env[t.id] = lf.ev(s.value, env, fn, 0, CLS)
                    except Unsupported:
                        env.pop(t.id, None)
    protected = set(env)
    visit(fn.body)
    out['y'] = env.get(ry, YB)
    return out


def _chk(ctx, rule, where, construct, key, got, want, what):
    z = is_zero(got - want)
    if z is True:
        ctx.ok(rule, where, construct, what, engine=ENG)
    elif z is False:
        ctx.violation(rule, where, construct, key,
                      '%s does not hold: got %s, expected %s' % (
                          what, sp.simplify(got), sp.simplify(want)),
                      engine=ENG)
    else:
        ctx.error(rule, '%s %s undecided' % (construct, key))


def r13_3(ctx, repo):
    rule = 'R13.3'
    for log_scale in (False, True):
        mode = 'log-scale noise' if log_scale else 'additive noise'
        want_y = YB * sp.exp(SIG * EPS) if log_scale else YB + SIG * EPS
        ys = {}
        for m in ('__call__', 'evaluateS1'):
            fn = repo.method(CLS, m)
            construct = '%s.%s [%s]' % (CLS, m, mode)
            where = repo.loc(fn, CLS, m)
            r = _walk(fn, log_scale, repo)
            ys[m] = r
            if not r['applied']:
                ctx.error(rule, '%s: noise application not found' % construct)
                continue
            _chk(ctx, rule, repo.loc(r['nodes']['apply'], CLS, m), construct,
                 'measurement model', r['y'], want_y,
                 'simulated measurement = %s' % (
                     'ybar*exp(sigma*eps)' if log_scale
                     else 'ybar + sigma*eps'))
            # noise score
            if not r['score']:
                ctx.error(rule, '%s: noise score not found' % construct)
            for s, v in r['score']:
                try:
                    sm = summand(v - v.subs(EPS, 0))
                except NotASum as e:
                    ctx.violation(rule, repo.loc(s, CLS, m), construct,
                                  'noise score', str(e), engine=ENG)
                    continue
                _chk(ctx, rule, repo.loc(s, CLS, m), construct,
                     'noise score', sm, -EPS**2 / 2,
                     'noise score = -sum(eps^2)/2 + constant')
                const = v.subs(EPS, 0)
                if const.has(SIG) or const.has(YB):
                    ctx.violation(rule, repo.loc(s, CLS, m), construct,
                                  'noise constant',
                                  'the constant of the noise score depends '
                                  'on parameters: %s' % const, engine=ENG)
        r = ys.get('evaluateS1')
        if not r or not r['applied']:
            continue
        fn = repo.method(CLS, 'evaluateS1')
        construct = '%s.evaluateS1 [%s]' % (CLS, mode)
        y = r['y']
        # eps block: first store = gradient of the noise score, then += D*dy/de
        eps_up = r['updates']['EPS']
        if len(eps_up) != 2:
            ctx.error(rule, '%s: expected two updates of the noise block, '
                      'found %d' % (construct, len(eps_up)))
        else:
            (s0, v0, op0), (s1, v1, op1) = eps_up
            _chk(ctx, rule, repo.loc(s0, CLS, fn.name), construct,
                 'd noise score / d eps', v0, -EPS,
                 'noise block starts with d(-eps^2/2)/d eps = -eps')
            _chk(ctx, rule, repo.loc(s1, CLS, fn.name), construct,
                 'd y / d eps', v1, D * sp.diff(want_y, EPS),
                 'noise block adds (ds/dy) * dy/deps of this branch')
        sig_up = r['updates']['SIGMA']
        if len(sig_up) != 1:
            ctx.error(rule, '%s: expected one update of the sigma block, '
                      'found %d' % (construct, len(sig_up)))
        else:
            s1, v1, _ = sig_up[0]
            try:
                _chk(ctx, rule, repo.loc(s1, CLS, fn.name), construct,
                     'd y / d sigma', summand(v1),
                     D * sp.diff(want_y, SIG),
                     'sigma block adds sum (ds/dy) * dy/dsigma of this '
                     'branch')
            except NotASum as e:
                ctx.violation(rule, repo.loc(s1, CLS, fn.name), construct,
                              'sigma update', str(e), engine=ENG)
        if r['ds_dpsi'] is None:
            ctx.error(rule, '%s: ds_dpsi not found' % construct)
        else:
            s1, v1 = r['ds_dpsi']
            try:
                _chk(ctx, rule, repo.loc(s1, CLS, fn.name), construct,
                     'd y / d ybar', summand(v1),
                     D * sp.diff(want_y, YB) * M,
                     'psi sensitivities = sum (ds/dy) * dy/dybar * '
                     'dybar/dpsi of this branch')
            except NotASum as e:
                ctx.violation(rule, repo.loc(s1, CLS, fn.name), construct,
                              'psi update', str(e), engine=ENG)
    ctx.floor(rule, 14)
