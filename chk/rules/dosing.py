"""C10 rules.

R10.1 set_dosing_regimen: pacing protocol = blocktrain(period, duration,
      offset=start, level=dose/duration, limit=num) with one `duration`.
R10.2 model surgery: depot  dA_d/dt = -k_a A_d (+ rate),  dosed compartment
      dA/dt = RHS + k_a A_d   resp.  RHS + rate, rate bound to `pace`.
R10.5 regimen table: Dose = level * duration; a finite multiplier is used as
      it is (the count is only re-derived for indefinite regimens); events
      beyond the final time are dropped.
"""
import ast

import sympy as sp

from ..loader import U, norm_stmt, AnalysisError

ENG = 'term-algebra'


def _defs(fn, name):
    return [a for a in ast.walk(fn) if isinstance(a, ast.Assign)
            and any(isinstance(t, ast.Name) and t.id == name
                    for t in a.targets)]


def r10_1(ctx, repo):
    rule = 'R10.1'
    n = 0
    for cls in repo.subclasses('SBMLModel'):
        fn = repo.cls(cls).methods.get('set_dosing_regimen')
        if fn is None:
            continue
        construct = '%s.set_dosing_regimen' % cls
        calls = [c for c in ast.walk(fn) if isinstance(c, ast.Call)
                 and U(c.func).endswith('blocktrain')]
        events = [c for c in ast.walk(fn) if isinstance(c, ast.Call)
                  and U(c.func).endswith('ProtocolEvent')]
        if len(calls) == 1:
            c = calls[0]
            kw = {k.arg: k.value for k in c.keywords}
            pos = list(c.args)
            names = ['period', 'duration', 'offset', 'level', 'limit']
            for i, a in enumerate(pos):
                kw.setdefault(names[i], a)
        elif not calls and len(events) == 1:
            # the same pulse train written as one periodic protocol event
            # (what myokit's blocktrain builds): roles by the event's names
            c = events[0]
            kw0 = {k.arg: k.value for k in c.keywords}
            pos = list(c.args)
            names = ['level', 'start', 'duration', 'period', 'multiplier']
            for i, a in enumerate(pos):
                kw0.setdefault(names[i], a)
            kw = {'period': kw0.get('period'),
                  'duration': kw0.get('duration'),
                  'offset': kw0.get('start'), 'level': kw0.get('level'),
                  'limit': kw0.get('multiplier')}
            kw = {k: v for k, v in kw.items() if v is not None}
        else:
            ctx.error(rule, '%s: expected one blocktrain call' % construct)
            continue
        n += 1
        where = repo.loc(c, cls, fn.name)
        want = {'period': 'period', 'duration': 'duration',
                'offset': 'start', 'limit': 'num'}
        ok = True
        for k, v in want.items():
            got = U(kw[k]) if k in kw else None
            if got != v:
                ctx.violation(
                    rule, where, construct, 'blocktrain %s' % k,
                    'blocktrain receives %s=`%s`; the regimen argument `%s` '
                    'belongs there' % (k, got, v))
                ok = False
        lv = kw.get('level')
        src = lv
        if isinstance(lv, ast.Name):
            d = _defs(fn, lv.id)
            src = d[-1].value if d else lv
        if not (isinstance(src, ast.BinOp) and isinstance(src.op, ast.Div)
                and U(src.left) == 'dose' and U(src.right) == 'duration'):
            ctx.violation(
                rule, where, construct, 'dose rate',
                'the infusion level is `%s`; the dose must be delivered at '
                'rate dose / duration over the same duration that is handed '
                'to the protocol' % (U(src) if src is not None else '?'))
            ok = False
        if ok:
            ctx.ok(rule, where, construct,
                   'blocktrain(period, duration, offset=start, '
                   'level=dose/duration, limit=num)')
    if n < 1:
        ctx.error(rule, 'no set_dosing_regimen with a blocktrain call found')


# -- myokit expression constructors -> sympy ------------------------------------
def _mk(e, env):
    if isinstance(e, ast.Call):
        f = U(e.func)
        a = e.args
        if f == 'myokit.Plus':
            return _mk(a[0], env) + _mk(a[1], env)
        if f == 'myokit.Minus':
            return _mk(a[0], env) - _mk(a[1], env)
        if f == 'myokit.Multiply':
            return _mk(a[0], env) * _mk(a[1], env)
        if f == 'myokit.Divide':
            return _mk(a[0], env) / _mk(a[1], env)
        if f == 'myokit.PrefixMinus':
            return -_mk(a[0], env)
        if f == 'myokit.PrefixPlus':
            return _mk(a[0], env)
        if f == 'myokit.Name':
            return sp.Symbol(U(a[0]))
        if f == 'myokit.Number':
            return sp.nsimplify(a[0].value)
        if f.endswith('.rhs') and not a:
            # current right-hand side of the variable that is being updated
            return sp.Symbol('RHS')
    if isinstance(e, ast.Name) and e.id in env:
        return env[e.id]
    if isinstance(e, ast.Name) and env.get('__fn__') is not None:
        # a local holding a myokit expression
        d = [x for x in _defs(env['__fn__'], e.id)
             if x.lineno <= e.lineno]
        if len(d) == 1 and isinstance(d[0].value, ast.Call) and U(
                d[0].value.func).startswith('myokit.'):
            return _mk(d[0].value, env)
    if isinstance(e, ast.Constant) and isinstance(e.value, (int, float)):
        return sp.nsimplify(e.value)
    raise AnalysisError('myokit expression `%s` not recognised' % U(e)[:50])


def _set_rhs_calls(fn):
    out = []
    for s in fn.body:
        for c in ast.walk(s):
            if isinstance(c, ast.Call) and isinstance(
                    c.func, ast.Attribute) and c.func.attr == 'set_rhs' \
                    and isinstance(c.func.value, ast.Name):
                out.append((c.func.value.id, c))
    return out


def r10_2(ctx, repo):
    rule = 'R10.2'
    cls = 'PKPDModel'
    # depot compartment
    fn = repo.method(cls, '_add_dose_compartment')
    construct = cls + '._add_dose_compartment'
    env = {'__fn__': fn}
    for s in fn.body:
        if isinstance(s, ast.Assign) and isinstance(s.value, ast.Call) and \
                U(s.value.func).endswith('.rhs') and isinstance(
                    s.targets[0], ast.Name):
            env[s.targets[0].id] = sp.Symbol('RHS')
    final = {}
    for var, c in _set_rhs_calls(fn):
        try:
            final[var] = (_mk(c.args[0], env), c)
        except AnalysisError as e:
            ctx.error(rule, '%s: %s' % (construct, e))
    params = [a.arg for a in fn.args.args][1:]
    dosed = params[1] if len(params) > 1 else 'drug_amount'
    depot = [v for v in final if v not in (dosed,) and final[v][0] != 0
             and final[v][0] != 1]
    ka = [v for v in final if final[v][0] == 1]
    if len(depot) != 1 or len(ka) != 1 or dosed not in final:
        ctx.error(rule, '%s: depot amount / absorption rate / dosed amount '
                  'not identified (%s)' % (construct, sorted(final)))
    else:
        A, K = sp.Symbol(depot[0]), sp.Symbol(ka[0])
        e, c = final[depot[0]]
        if sp.expand(e - (-K * A)) == 0:
            ctx.ok(rule, repo.loc(c, cls, fn.name), construct,
                   'depot: dA_d/dt = -k_a * A_d', engine=ENG)
        else:
            ctx.violation(rule, repo.loc(c, cls, fn.name), construct,
                          'depot equation',
                          'the depot amount obeys dA_d/dt = %s; first-order '
                          'absorption requires -k_a * A_d' % e, engine=ENG)
        e, c = final[dosed]
        if sp.expand(e - (sp.Symbol('RHS') + K * A)) == 0:
            ctx.ok(rule, repo.loc(c, cls, fn.name), construct,
                   'dosed compartment: dA/dt = RHS + k_a * A_d', engine=ENG)
        else:
            ctx.violation(rule, repo.loc(c, cls, fn.name), construct,
                          'absorption term',
                          'the dosed amount obeys dA/dt = %s; it must gain '
                          'what the depot loses: RHS + k_a * A_d' % e,
                          engine=ENG)
        # the depot amount must be a state, the rate a constant
        promoted = [U(c.func.value) for c in ast.walk(fn) if isinstance(
            c, ast.Call) and isinstance(c.func, ast.Attribute)
            and c.func.attr == 'promote']
        if depot[0] in promoted and ka[0] not in promoted:
            ctx.ok(rule, repo.loc(fn, cls, fn.name), construct,
                   'depot amount is promoted to a state, the absorption '
                   'rate stays a constant')
        else:
            ctx.violation(rule, repo.loc(fn, cls, fn.name), construct,
                          'promotion', 'promoted variables: %s; the depot '
                          'amount (and only it) must become a state'
                          % promoted)
    # dose rate
    fn = repo.method(cls, '_add_dose_rate')
    construct = cls + '._add_dose_rate'
    env = {'__fn__': fn}
    for s in fn.body:
        if isinstance(s, ast.Assign) and isinstance(s.value, ast.Call) and \
                U(s.value.func).endswith('.rhs') and isinstance(
                    s.targets[0], ast.Name):
            env[s.targets[0].id] = sp.Symbol('RHS')
    final = {}
    for var, c in _set_rhs_calls(fn):
        try:
            final[var] = (_mk(c.args[0], env), c)
        except AnalysisError as e:
            ctx.error(rule, '%s: %s' % (construct, e))
    params = [a.arg for a in fn.args.args][1:]
    dosed = params[1] if len(params) > 1 else 'drug_amount'
    rate = [v for v in final if v != dosed]
    bind = [(U(c.func.value), U(c.args[0])) for c in ast.walk(fn)
            if isinstance(c, ast.Call) and isinstance(c.func, ast.Attribute)
            and c.func.attr == 'set_binding' and c.args]
    if len(rate) != 1 or dosed not in final:
        ctx.error(rule, '%s: dose rate variable not identified' % construct)
    else:
        R = sp.Symbol(rate[0])
        e, c = final[dosed]
        if sp.expand(e - (sp.Symbol('RHS') + R)) == 0:
            ctx.ok(rule, repo.loc(c, cls, fn.name), construct,
                   'dosed amount: dA/dt = RHS + dose_rate', engine=ENG)
        else:
            ctx.violation(rule, repo.loc(c, cls, fn.name), construct,
                          'dose rate term',
                          'the dosed amount obeys dA/dt = %s; expected '
                          'RHS + dose_rate' % e, engine=ENG)
        if (rate[0], "'pace'") in bind:
            ctx.ok(rule, repo.loc(fn, cls, fn.name), construct,
                   'dose rate is bound to the pacing protocol')
        else:
            ctx.violation(rule, repo.loc(fn, cls, fn.name), construct,
                          'binding', 'the dose-rate variable is not bound '
                          'to `pace` (bindings: %s)' % bind)
    ctx.floor(rule, 5)


def r10_5(ctx, repo):
    rule = 'R10.5'
    n = 0
    for cls in ('PredictiveModel',):
        fn = repo.method(cls, 'get_dosing_regimen')
        construct = '%s.get_dosing_regimen' % cls
        loops = [l for l in ast.walk(fn) if isinstance(l, ast.For)
                 and U(l.iter).endswith('.events()')]
        if len(loops) != 1:
            ctx.error(rule, '%s: loop over the protocol events not found'
                      % construct)
            continue
        loop = loops[0]
        ev = U(loop.target)
        src = {}
        for a in ast.walk(loop):
            if isinstance(a, ast.Assign) and isinstance(
                    a.targets[0], ast.Name) and isinstance(
                    a.value, ast.Call) and U(a.value.func).startswith(
                    ev + '.'):
                src.setdefault(U(a.value.func).split('.')[-1],
                               a.targets[0].id)
        need = ('level', 'duration', 'start', 'period', 'multiplier')
        if any(k not in src for k in need):
            ctx.error(rule, '%s: event getters %s not all read' % (
                construct, need))
            continue
        n += 1
        # amount
        amount = [a for a in ast.walk(loop) if isinstance(a, ast.Assign)
                  and isinstance(a.value, ast.BinOp)
                  and isinstance(a.value.op, ast.Mult)
                  and {U(a.value.left), U(a.value.right)} ==
                  {src['level'], src['duration']}]
        dose_cols = [k for c in ast.walk(loop) if isinstance(c, ast.Dict)
                     for k, v in zip(c.keys, c.values)
                     if isinstance(k, ast.Constant) and k.value == 'Dose'
                     and not (amount and U(v).strip('[]') == U(
                         amount[0].targets[0]))]
        where = repo.loc(loop, cls, fn.name)
        if amount and not dose_cols:
            ctx.ok(rule, where, construct,
                   'reported dose = level * duration of the event')
        else:
            ctx.violation(rule, where, construct, 'dose amount',
                          'the Dose column is not level * duration of the '
                          'protocol event')
        # multiplier discipline
        mult = src['multiplier']
        bad = []
        for a in ast.walk(loop):
            if isinstance(a, (ast.Assign, ast.AugAssign)):
                tg = a.targets if isinstance(a, ast.Assign) else [a.target]
                if not any(isinstance(t, ast.Name) and t.id == mult
                           for t in tg):
                    continue
                if isinstance(a, ast.Assign) and isinstance(
                        a.value, ast.Call) and U(a.value.func).endswith(
                        '.multiplier'):
                    continue
                guarded = False
                cur = getattr(a, '_parent', None)
                while cur is not None and cur is not loop:
                    if isinstance(cur, ast.If) and U(cur.test).replace(
                            ' ', '') in ('%s==0' % mult, '0==%s' % mult,
                                         'not%s' % mult):
                        # must be in the body, not the else branch
                        if any(a is x or a in ast.walk(x) for x in cur.body):
                            guarded = True
                    cur = getattr(cur, '_parent', None)
                if not guarded:
                    bad.append(a)
        if bad:
            ctx.violation(
                rule, repo.loc(bad[0], cls, fn.name), construct,
                'multiplier overridden',
                '`%s` re-derives the number of doses outside the branch for '
                'indefinite regimens (`%s == 0`): a finite regimen of `num` '
                'doses is then listed with a count computed from the final '
                'time, i.e. with phantom or missing doses' % (
                    norm_stmt(bad[0])[:60], mult))
        else:
            ctx.ok(rule, where, construct,
                   'a finite multiplier is used as it is; the count is only '
                   're-derived for indefinite regimens')
        # events / doses beyond the final time are dropped
        cmp_ = [c for c in ast.walk(loop) if isinstance(c, ast.Compare)
                and 'final_time' in U(c)]
        if len(cmp_) >= 2:
            ctx.ok(rule, where, construct,
                   'events starting after and doses beyond final_time are '
                   'filtered')
        else:
            ctx.violation(rule, where, construct, 'final time filter',
                          'doses are not limited to the requested final '
                          'time')
    if n < 1:
        ctx.error(rule, 'get_dosing_regimen not analysed')


# -----------------------------------------------------------------------------
# R10.7 — the k-th periodic dose is listed at start + k * period
# -----------------------------------------------------------------------------
def r10_7(ctx, repo):
    """The regimen table lists a periodic event (start, period, multiplier)
    at the times start + k * period, k = 0, 1, ... — the times myokit's
    pacing applies it.  The expression that builds the time column is lifted
    to a function of the element index k (comprehensions over range(n),
    np.arange, arithmetic) and compared with that."""
    rule = 'R10.7'
    import sympy as sp
    cls = 'PredictiveModel'
    fn = repo.method(cls, 'get_dosing_regimen')
    construct = '%s.get_dosing_regimen' % cls
    loops = [l for l in ast.walk(fn) if isinstance(l, ast.For)
             and U(l.iter).endswith('.events()')]
    if len(loops) != 1:
        ctx.error(rule, '%s: loop over the protocol events not found'
                  % construct)
        return
    loop = loops[0]
    ev = U(loop.target)
    src = {}
    for a in ast.walk(loop):
        if isinstance(a, ast.Assign) and isinstance(
                a.targets[0], ast.Name) and isinstance(
                a.value, ast.Call) and U(a.value.func).startswith(ev + '.'):
            src.setdefault(U(a.value.func).split('.')[-1], a.targets[0].id)
    if 'start' not in src or 'period' not in src:
        ctx.error(rule, '%s: start / period of the event not read'
                  % construct)
        return
    k = sp.Symbol('k', integer=True, nonnegative=True)
    START, PERIOD = sp.Symbol('start'), sp.Symbol('period')
    names = {src['start']: START, src['period']: PERIOD}

    class NotLifted(Exception):
        pass

    def elem(e, bind):
        """the k-th element of a sequence-valued expression / the value of
        a scalar one"""
        if isinstance(e, ast.Constant) and isinstance(e.value, (int, float)):
            return sp.nsimplify(e.value)
        if isinstance(e, ast.Name):
            if e.id in bind:
                return bind[e.id]
            if e.id in names:
                return names[e.id]
            return sp.Symbol(e.id)
        if isinstance(e, ast.ListComp) and len(e.generators) == 1 \
                and not e.generators[0].ifs and isinstance(
                    e.generators[0].target, ast.Name):
            g = e.generators[0]
            b2 = dict(bind)
            b2[g.target.id] = elem(g.iter, bind)
            return elem(e.elt, b2)
        if isinstance(e, ast.Call):
            f = U(e.func)
            if f in ('range', 'np.arange', 'numpy.arange'):
                args = list(e.args)
                kw = {k_.arg: k_.value for k_ in e.keywords}
                if len(args) == 1 and not kw:
                    return k
                a0 = elem(kw.get('start', args[0]), bind) if (
                    'start' in kw or len(args) >= 2) else sp.Integer(0)
                st = kw.get('step', args[2] if len(args) >= 3 else None)
                s0 = elem(st, bind) if st is not None else sp.Integer(1)
                return a0 + k * s0
            if f in ('np.array', 'np.asarray', 'list', 'np.copy', 'float',
                     'np.float64') and e.args:
                return elem(e.args[0], bind)
            if f in ('np.linspace',):
                raise NotLifted(U(e)[:40])
            raise NotLifted(U(e)[:40])
        if isinstance(e, ast.BinOp):
            a, b = elem(e.left, bind), elem(e.right, bind)
            op = {ast.Add: lambda x, y: x + y, ast.Sub: lambda x, y: x - y,
                  ast.Mult: lambda x, y: x * y,
                  ast.Div: lambda x, y: x / y}.get(type(e.op))
            if op is None:
                raise NotLifted(U(e)[:40])
            return op(a, b)
        if isinstance(e, ast.UnaryOp) and isinstance(e.op, ast.USub):
            return -elem(e.operand, bind)
        raise NotLifted(U(e)[:40])
    # the sequence that is built from start and period
    cands = [a for a in ast.walk(loop) if isinstance(a, ast.Assign)
             and len(a.targets) == 1 and isinstance(a.targets[0], ast.Name)
             and {src['start'], src['period']} <= {
                 x.id for x in ast.walk(a.value) if isinstance(x, ast.Name)}]
    if not cands:
        ctx.error(rule, '%s: construction of the periodic dose times not '
                  'found' % construct)
        return
    a = cands[0]
    where = repo.loc(a, cls, fn.name)
    try:
        got = sp.expand(elem(a.value, {}))
    except NotLifted as e:
        ctx.error(rule, '%s: dose times `%s` not lifted (%s)' % (
            construct, U(a.value)[:50], e))
        return
    want = START + k * PERIOD
    if sp.expand(got - want) == 0:
        ctx.ok(rule, where, construct,
               'the k-th dose of a periodic event is listed at start + k * '
               'period')
    else:
        ctx.violation(
            rule, where, construct, 'dose times',
            '`%s` lists the k-th dose of a periodic event at %s; the '
            'simulation applies it at start + k*period' % (
                norm_stmt(a)[:60], got))
