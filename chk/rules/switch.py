"""Typestate rules around the sensitivity switch of mechanistic models.

R03.5  every `X.simulate(...)` on a MechanisticModel-typed field whose result
       is tuple-unpacked is reached only with sensitivities known ON, every
       one used as a plain array only with sensitivities known OFF (the
       `if [not] X.has_sensitivities(): X.enable_sensitivities(..)` idiom).
R08.7  in a reduced mechanistic model, a change of the free-parameter set
       (write to the fixed-parameter mask) is followed on every path by a
       re-request of the sensitivities when they are enabled.
"""
import ast
import itertools

from ..loader import U, norm_stmt, AnalysisError
from ..pathwalk import Walker
from ..types import Types
from ..effects import _self_field


class SwitchWalker(Walker):
    def __init__(self, repo, recv, field):
        super().__init__(repo, recv)
        self.field = field              # e.g. 'self._mechanistic_model'
        self.key = field + '.has_sensitivities()'
        self.sites = []                 # (call, need, have, trace)

    def on_stmt(self, stmt, st, frame):
        frame['stmt'] = stmt

    def on_call(self, call, st, frame):
        f = call.func
        if not isinstance(f, ast.Attribute):
            return None
        if U(f.value) != self.field:
            return None
        if f.attr == 'enable_sensitivities' and call.args:
            a = call.args[0]
            if isinstance(a, ast.Constant) and isinstance(a.value, bool):
                st.env[self.key] = a.value
            else:
                st.env.pop(self.key, None)
            return 'handled'
        if f.attr == 'simulate':
            stmt = frame.get('stmt')
            need = None
            if isinstance(stmt, ast.Return):
                need = 'passthrough'
            elif isinstance(stmt, ast.Assign) and stmt.value is call and \
                    isinstance(stmt.targets[0], ast.Name) and all(
                        isinstance(getattr(x, '_parent', None), ast.Return)
                        for x in ast.walk(frame['fn'])
                        if isinstance(x, ast.Name)
                        and x.id == stmt.targets[0].id
                        and isinstance(x.ctx, ast.Load)):
                need = 'passthrough'    # bound to a name that is only returned
            elif isinstance(stmt, ast.Assign) and stmt.value is call:
                need = isinstance(stmt.targets[0], (ast.Tuple, ast.List))
            elif isinstance(stmt, ast.Assign):
                need = False
            have = st.env.get(self.key)
            self.sites.append((call, need, have, frame['cls'],
                               frame['fn'].name))
            return 'handled'
        return None

    def _stmt(self, s, st, frame):
        # try/except around simulate: walk the body (handlers return early)
        return super()._stmt(s, st, frame)


def _mech_fields(repo, T):
    out = []
    for (k, f), t in sorted(T.fields.items()):
        if t[0] != 'list' and t[0] == 'MechanisticModel':
            out.append((k, f))
    return out


def _enable_true_reachable(repo, cls, field):
    for k in [cls] + repo.subclasses(cls, strict=True):
        for m, fn in repo.cls(k).methods.items():
            for n in ast.walk(fn):
                if isinstance(n, ast.Call) and isinstance(
                        n.func, ast.Attribute) \
                        and n.func.attr == 'enable_sensitivities' \
                        and U(n.func.value) == field and n.args \
                        and not (isinstance(n.args[0], ast.Constant)
                                 and n.args[0].value is False):
                    return True
    return False


def r03_5(ctx, repo):
    rule = 'R03.5'
    T = Types(repo)
    fields = _mech_fields(repo, T)
    if len(fields) < 3:
        ctx.error(rule, 'only %d classes with a MechanisticModel field '
                  'recognised (floor 3)' % len(fields))
    seen = set()
    for cls, field in fields:
        exempt = not _enable_true_reachable(repo, cls, field)
        for m, fn in sorted(repo.cls(cls).methods.items()):
            if not any(isinstance(n, ast.Call) and isinstance(
                    n.func, ast.Attribute) and n.func.attr == 'simulate'
                    and U(n.func.value) == field for n in ast.walk(fn)):
                continue
            for recv in [cls] + repo.subclasses(cls, strict=True):
                k, d = repo.resolve(recv, m)
                if d is not fn:
                    continue
                w = SwitchWalker(repo, recv, field)
                w.run(m)
                construct = '%s.%s' % (cls, m)
                for call, need, have, kk, mm in w.sites:
                    key = (construct, call.lineno, need, have)
                    if key in seen:
                        continue
                    seen.add(key)
                    where = repo.loc(call, cls, m)
                    if need == 'passthrough' or need is None:
                        ctx.ok(rule, where, construct,
                               'result of simulate is passed through '
                               'unchanged', engine='typestate')
                        continue
                    want = 'ON' if need else 'OFF'
                    if have is need:
                        ctx.ok(rule, where, construct,
                               'simulate() %s is reached with sensitivities '
                               'known %s' % (
                                   'unpacked as (outputs, sensitivities)'
                                   if need else 'used as a plain array',
                                   want), engine='typestate')
                    elif exempt and not need:
                        ctx.ok(rule, where, construct,
                               'plain-array use without normalisation is '
                               'accepted: no enable_sensitivities(True) on '
                               '%s is reachable from %s' % (field, cls),
                               engine='typestate')
                    else:
                        state = {True: 'ON', False: 'OFF',
                                 None: 'unknown'}[have]
                        ctx.violation(
                            rule, where, construct,
                            'simulate needs %s' % want,
                            '`%s` %s, which needs the sensitivity switch %s, '
                            'but a path from the entry of %s reaches it with '
                            'the switch %s (it is left ON by a preceding '
                            'evaluateS1 / OFF by a preceding plain '
                            'evaluation)' % (
                                norm_stmt(call)[:50],
                                'is unpacked into (outputs, sensitivities)'
                                if need else 'is indexed as a plain array',
                                want, construct, state),
                            engine='typestate')
    ctx.floor(rule, 6)


class MaskWalker(Walker):
    MASK = 'self._fixed_params_mask'

    def on_assign(self, target, value, st, frame):
        f = _self_field(target)
        if f == self.MASK:
            st.ts['req'] = 'STALE'
            st.trace += ((frame['cls'], frame['fn'].name, target.lineno),)

    def on_call(self, call, st, frame):
        f = call.func
        if isinstance(f, ast.Attribute) and isinstance(f.value, ast.Name) \
                and f.value.id == 'self' and f.attr == 'enable_sensitivities':
            if call.args and not (isinstance(call.args[0], ast.Constant)
                                  and call.args[0].value is False):
                st.ts['req'] = 'FRESH'
            return 'handled'
        if isinstance(f, ast.Attribute) and isinstance(f.value, ast.Name) \
                and f.value.id == 'self' and f.attr == 'has_sensitivities':
            return 'handled'
        return None


def r08_7(ctx, repo):
    rule = 'R08.7'
    cls = 'ReducedMechanisticModel'
    c = repo.cls(cls)
    # the dependency is derived, not assumed: enable_sensitivities must read
    # the mask for the rule to apply
    en = repo.method(cls, 'enable_sensitivities')
    if not any(_self_field(n) == MaskWalker.MASK for n in ast.walk(en)
               if isinstance(n, ast.Attribute)):
        ctx.note(rule, 'enable_sensitivities no longer reads the fixed-'
                 'parameter mask; rule not applicable')
        ctx.ok(rule, repo.loc(en, cls, en.name), cls + '.enable_sensitivities',
               'sensitivity request does not depend on the mask')
        return
    n = 0
    for m, fn in sorted(c.methods.items()):
        if m == '__init__':
            continue
        writes = any(_self_field(t) == MaskWalker.MASK
                     for a in ast.walk(fn)
                     if isinstance(a, (ast.Assign, ast.AugAssign))
                     for t in (a.targets if isinstance(a, ast.Assign)
                               else [a.target]))
        if not writes:
            continue
        construct = '%s.%s' % (cls, m)
        bad = None
        for has in (True, False):
            w = MaskWalker(repo, cls)
            exits = w.run(m, env={'self.has_sensitivities()': has},
                          ts={'req': 'FRESH'})
            for st in exits:
                if st.ts.get('req') == 'STALE' and has:
                    bad = st
        n += 1
        if bad is not None:
            loc = bad.trace[-1] if bad.trace else (cls, m, fn.lineno)
            ctx.violation(
                rule, repo.loc(fn, cls, m), construct, 'stale sensitivities',
                'the set of free parameters changes (%s.%s:%d writes the '
                'fixed-parameter mask) and an exit of %s is reached with '
                'sensitivities enabled but not re-requested: the wrapped '
                'model keeps returning derivatives for the previous free '
                'set' % (loc[0], loc[1], loc[2], construct),
                engine='typestate')
        else:
            ctx.ok(rule, repo.loc(fn, cls, m), construct,
                   'every exit after a change of the mask re-requests the '
                   'sensitivities when they are enabled', engine='typestate')
    if n < 1:
        ctx.error(rule, 'no method writing the fixed-parameter mask found')
