"""Shape contracts of public methods, decided with the layout engine (B).

The documented signatures fix, for symbolic sizes, the shape of what goes in
and what comes out.  Each rule walks one public method of every concrete
class with documented input shapes and requires (i) no layout event on the
way (a reshape that re-interprets the flattened order, a broadcast of
differently laid-out axes, random draws shared along an axis), and (ii) the
documented output shape, axis by axis.

R06.4  samplers: ErrorModel.sample -> (n_times, n_samples),
       PopulationModel.sample -> (n_samples, n_dim); independent draws along
       every axis of the result.
R05.7  PopulationModel.compute_individual_parameters(parameters, eta of shape
       (n_ids, n_dim)) -> (n_ids, n_dim) with those axes (not a re-laid-out
       array of the same size), for flat parameters.
R05.8  PopulationModel._shape(score, dpsi, dtheta, reduce, flattened): the
       documented packing of the sensitivities for all four flag
       combinations — `reduce` gives one vector [dpsi (n_ids > n_dim) |
       dtheta summed over individuals (n_param_per_dim > n_dim)] whatever
       `flattened` is; `flattened` alone flattens the summed dtheta; neither
       leaves dtheta as (n_ids, n_param_per_dim, n_dim).
R17.5  evaluateS1 of the log-pdf classes: on every early exit (the guard
       that answers a rejected point with an infinite score) the gradient
       that is returned has one entry per parameter — its length derives from
       the whole parameter vector or the published count, not from a block of
       it (the prior's block, one likelihood's block).
"""
import ast

import sympy as sp

from ..loader import U, norm_stmt
from ..shapes import ShapeLifter, Arr, Ax, TOP, eq, nest_eq, nest_str
from ..term import Opaque
from .layout import (sym, _class_invariants, _elementary, _emit_events, N_DIM,
                     N_IDS, ENG)

NT, NS = sym('n_times'), sym('n_samples')


def _ret_of(lf, fn, env, cls):
    try:
        r = lf._block(fn.body, env, fn, 0, cls)
    except Exception as e:
        return 'error', '%s: %s' % (type(e).__name__, e)
    if r is None or r[0] != 'ret':
        return 'none', None
    return 'ret', r[1]


def _check_axes(val, want):
    """val is an Arr whose axes are exactly the wanted sizes, each laid out
    as that one factor."""
    if not (isinstance(val, Arr) and val.ndim == len(want)):
        return False
    for a, w in zip(val.axes, want):
        if not eq(a.size, w):
            return False
        nst = [(l, s) for l, s in a.nest if not eq(s, 1)]
        if len(nst) > 1:
            return False
    return True


def r06_4(ctx, repo):
    rule = 'R06.4'
    n = 0
    # error models
    for cls in sorted(repo.subclasses('ErrorModel', strict=True)):
        k, fn = repo.resolve(cls, 'sample')
        if fn is None or repo.is_abstract(fn):
            continue
        construct = '%s.sample' % cls
        P = sym('n_error_parameters')
        lf = ShapeLifter(repo, cls, flags={'n_samples is None': False,
                                           'seed is None': False})
        lf.check_random = True
        env = {'parameters': Arr([Ax(P)]), 'model_output': Arr([Ax(NT)]),
               'n_samples': NS, 'seed': Opaque('seed'),
               'self._n_parameters': P}
        st, val = _ret_of(lf, fn, env, k)
        n += 1
        where = repo.loc(fn, k, 'sample')
        if st == 'error':
            ctx.error(rule, '%s: %s' % (construct, val))
            continue
        if _emit_events(ctx, rule, repo, k, fn, lf, construct):
            continue
        if _check_axes(val, (NT, NS)):
            if getattr(val, 'random', False):
                ctx.ok(rule, where, construct,
                       'returns independent draws of shape (n_times, '
                       'n_samples)', engine=ENG)
            else:
                ctx.error(rule, '%s: randomness of the result not derived'
                          % construct)
        elif isinstance(val, Arr):
            ctx.violation(
                rule, where, construct, 'sample shape',
                'sample() returns shape (%s); documented: (n_times, '
                'n_samples)' % ', '.join(str(a.size) for a in val.axes),
                engine=ENG)
        else:
            ctx.error(rule, '%s: shape of the samples not derived (%r)' % (
                construct, val))
    # elementary population models
    for cls in _elementary(repo):
        k, fn = repo.resolve(cls, 'sample')
        if fn is None or repo.is_abstract(fn) or k != cls:
            continue
        inv = _class_invariants(repo, cls)
        P = inv.get('self._n_parameters')
        if not isinstance(P, sp.Expr):
            continue
        init = repo.method(cls, '__init__')
        cent = 'centered' in [a.arg for a in init.args.args]
        construct = '%s.sample' % cls
        for centered in ([True, False] if cent else [True]):
            lf = ShapeLifter(repo, cls, flags={
                'n_samples is None': False, 'seed is None': False,
                'self._centered': centered, 'covariates is None': True})
            lf.check_random = True
            env = dict(inv)
            env.update({'parameters': Arr([Ax(P, (('?theta', P),))]),
                        'n_samples': NS, 'seed': Opaque('seed'),
                        'covariates': None, 'self._centered': centered})
            st, val = _ret_of(lf, fn, env, cls)
            n += 1
            where = repo.loc(fn, cls, 'sample')
            site = '%s[%s]' % (construct, 'centred' if centered
                               else 'non-centred')
            if st == 'error':
                ctx.error(rule, '%s: %s' % (site, val))
                continue
            if _emit_events(ctx, rule, repo, cls, fn, lf, site):
                continue
            if not isinstance(val, Arr):
                # samplers built on scipy / delegation are not derived
                ctx.note(rule, '%s: result shape not derived' % site)
                continue
            if _check_axes(val, (NS, N_DIM)):
                ctx.ok(rule, where, site,
                       'returns shape (n_samples, n_dim)', engine=ENG)
            else:
                ctx.violation(
                    rule, where, site, 'sample shape',
                    'sample() returns an array laid out as (%s); '
                    'documented: (n_samples, n_dim) — one row per sampled '
                    'individual' % ' , '.join(nest_str(a.nest)
                                              for a in val.axes), engine=ENG)
    if n < 8:
        ctx.error(rule, 'only %d samplers analysed (floor 8)' % n)


def r05_7(ctx, repo):
    rule = 'R05.7'
    n = 0
    for cls in _elementary(repo):
        k, fn = repo.resolve(cls, 'compute_individual_parameters')
        if fn is None or repo.is_abstract(fn) or k != cls:
            continue
        inv = _class_invariants(repo, cls)
        P = inv.get('self._n_parameters')
        if not isinstance(P, sp.Expr):
            continue
        init = repo.method(cls, '__init__')
        cent = 'centered' in [a.arg for a in init.args.args]
        construct = '%s.compute_individual_parameters' % cls
        for centered in ([True, False] if cent else [True]):
            for ret_eta in (False, True):
                lf = ShapeLifter(repo, cls, flags={
                    'self._centered': centered, 'return_eta': ret_eta})
                env = dict(inv)
                env.update({
                    'parameters': Arr([Ax(P, (('?theta', P),))]),
                    'eta': Arr([Ax(N_IDS), Ax(N_DIM)]),
                    'return_eta': ret_eta, 'self._centered': centered,
                    'self._n_ids': N_IDS})
                st, val = _ret_of(lf, fn, env, cls)
                n += 1
                where = repo.loc(fn, cls, fn.name)
                site = '%s[%s%s]' % (construct, 'centred' if centered
                                     else 'non-centred',
                                     ', return_eta' if ret_eta else '')
                if st == 'error':
                    ctx.error(rule, '%s: %s' % (site, val))
                    continue
                if _emit_events(ctx, rule, repo, cls, fn, lf, site):
                    continue
                if not isinstance(val, Arr):
                    ctx.note(rule, '%s: result shape not derived' % site)
                    continue
                if _check_axes(val, (N_IDS, N_DIM)) and nest_eq(
                        val.axes[0].nest, ((N_IDS.name, N_IDS),)) \
                        and nest_eq(val.axes[1].nest,
                                    ((N_DIM.name, N_DIM),)):
                    ctx.ok(rule, where, site,
                           'returns (n_ids, n_dim): one row per individual',
                           engine=ENG)
                else:
                    ctx.violation(
                        rule, where, site, 'psi layout',
                        'the individual parameters are returned laid out '
                        'as (%s); documented: (n_ids, n_dim) — entry (i, d) '
                        'is dimension d of individual i' % ' , '.join(
                            nest_str(a.nest) for a in val.axes), engine=ENG)
    if n < 8:
        ctx.error(rule, 'only %d configurations analysed (floor 8)' % n)


def r05_8(ctx, repo):
    rule = 'R05.8'
    NPP = sym('n_param_per_dim')
    n = 0
    # the pooled / heterogeneous models override _shape with packings of
    # their own (no individual block / no population block); the documented
    # contract is that of the base class, which every other model inherits
    for cls in ['PopulationModel']:
        fn = repo.cls(cls).methods.get('_shape')
        if fn is None:
            continue
        construct = '%s._shape' % cls
        where = repo.loc(fn, cls, '_shape')
        pnames = [a.arg for a in fn.args.args][1:]
        if len(pnames) != 5:
            ctx.error(rule, '%s: signature %s not (score, dpsi, dtheta, '
                      'reduce, flattened)' % (construct, pnames))
            continue
        for red in (True, False):
            for flat in (True, False):
                n += 1
                lf = ShapeLifter(repo, cls, flags={pnames[3]: red,
                                                   pnames[4]: flat})
                env = {pnames[0]: Opaque('score'),
                       pnames[1]: Arr([Ax(N_IDS), Ax(N_DIM)]),
                       pnames[2]: Arr([Ax(N_IDS), Ax(NPP), Ax(N_DIM)]),
                       pnames[3]: red, pnames[4]: flat}
                st, val = _ret_of(lf, fn, env, cls)
                site = '%s[reduce=%s, flattened=%s]' % (construct, red, flat)
                if st != 'ret':
                    ctx.error(rule, '%s: %s' % (site, val))
                    continue
                if _emit_events(ctx, rule, repo, cls, fn, lf, site):
                    continue
                vals = list(val) if isinstance(val, (tuple, list)) or hasattr(
                    val, '__iter__') and not isinstance(val, Arr) else [val]
                ok = False
                if red:
                    want = 'one vector [dpsi (n_ids > n_dim) | summed ' \
                           'dtheta (n_param_per_dim > n_dim)]'
                    if len(vals) == 2 and isinstance(vals[1], Arr) \
                            and vals[1].ndim == 1 and vals[1].parts \
                            and len(vals[1].parts) == 2:
                        a, b = vals[1].parts
                        ok = nest_eq(a.axes[0].nest, (
                            (N_IDS.name, N_IDS), (N_DIM.name, N_DIM))) \
                            and nest_eq(b.axes[0].nest, (
                                (NPP.name, NPP), (N_DIM.name, N_DIM)))
                elif flat:
                    want = '(score, dpsi (n_ids, n_dim), summed dtheta ' \
                           'flattened (n_param_per_dim > n_dim))'
                    ok = len(vals) == 3 and _check_axes(
                        vals[1], (N_IDS, N_DIM)) and isinstance(
                        vals[2], Arr) and vals[2].ndim == 1 and nest_eq(
                        vals[2].axes[0].nest, ((NPP.name, NPP),
                                               (N_DIM.name, N_DIM)))
                else:
                    want = '(score, dpsi (n_ids, n_dim), dtheta (n_ids, ' \
                           'n_param_per_dim, n_dim))'
                    ok = len(vals) == 3 and _check_axes(
                        vals[1], (N_IDS, N_DIM)) and _check_axes(
                        vals[2], (N_IDS, NPP, N_DIM))
                if ok:
                    ctx.ok(rule, where, site, 'returns ' + want, engine=ENG)
                else:
                    ctx.violation(
                        rule, where, site, 'packing',
                        '_shape returns %s; documented: %s' % (
                            ', '.join(repr(v) for v in vals[1:]), want),
                        engine=ENG)
    if n < 4:
        ctx.error(rule, 'only %d flag combinations analysed (floor 4)' % n)


def _len_prov(e, fn, seen=(), at=None):
    """Length provenance of an array / count expression inside evaluateS1:
    'FULL' (the whole parameter vector), 'PART' (a block of it), None."""
    if isinstance(e, ast.Call):
        f = U(e.func)
        if f == 'len' and e.args:
            return _len_prov(e.args[0], fn, seen, at)
        if f in ('np.asarray', 'np.array', 'np.copy', 'pints.vector',
                 'np.shape', 'np.size', 'int', 'np.ravel') and e.args:
            return _len_prov(e.args[0], fn, seen, at)
        if f in ('self.n_parameters',):
            return 'FULL'
        if isinstance(e.func, ast.Attribute) and e.func.attr in (
                'evaluateS1', 'compute_sensitivities') and e.args:
            # gradient w.r.t. what was handed in
            return _len_prov(e.args[0], fn, seen, at)
        if isinstance(e.func, ast.Attribute) and e.func.attr in (
                'flatten', 'ravel', 'copy'):
            return _len_prov(e.func.value, fn, seen, at)
        return None
    if isinstance(e, ast.Attribute):
        if e.attr in ('shape', 'size'):
            return _len_prov(e.value, fn, seen, at)
        if U(e) == 'self._n_parameters':
            return 'FULL'
        return None
    if isinstance(e, ast.Tuple) and len(e.elts) == 1:
        return _len_prov(e.elts[0], fn, seen, at)
    if isinstance(e, ast.Subscript):
        base = _len_prov(e.value, fn, seen, at)
        sl = e.slice
        if isinstance(sl, ast.Slice):
            if sl.lower is None and sl.upper is None:
                return base
            return 'PART' if base else None
        if isinstance(e.value, ast.Attribute) and e.value.attr == 'shape':
            return base
        if isinstance(sl, ast.Constant) and isinstance(e.value, ast.Call):
            # X.evaluateS1(a)[1]
            return _len_prov(e.value, fn, seen, at)
        return None
    if isinstance(e, ast.Name):
        if e.id in seen:
            return None
        params = [a.arg for a in fn.args.args if a.arg != 'self']
        defs = []
        for st in ast.walk(fn):
            if isinstance(st, ast.Assign) and (at is None
                                               or st.lineno < at):
                for t in st.targets:
                    if isinstance(t, ast.Name) and t.id == e.id:
                        defs.append(st.value)
                    if isinstance(t, (ast.Tuple, ast.List)):
                        for i, x in enumerate(t.elts):
                            if isinstance(x, ast.Name) and x.id == e.id:
                                defs.append(st.value)
        provs = {_len_prov(d, fn, seen + (e.id,), at) for d in defs}
        if params and e.id == params[0]:
            provs.discard(None) if provs - {None} else None
            provs.add('FULL')
            # `parameters = np.asarray(parameters)` keeps the length
            provs.discard(None)
        if len(provs) == 1:
            return provs.pop()
        return None
    return None


def r17_5(ctx, repo):
    rule = 'R17.5'
    n = 0
    for cname, c in sorted(repo.classes.items()):
        if c.relpath != 'chi/_log_pdfs.py':
            continue
        fn = c.methods.get('evaluateS1')
        if fn is None:
            continue
        construct = '%s.evaluateS1' % cname
        # returns that are not the last statement of the body: early exits
        from ..loader import returned_expr
        for r in ast.walk(fn):
            if r is fn.body[-1] or not isinstance(r, ast.Return) \
                    or r.value is None:
                continue
            for _ in (0,):
                rv = returned_expr(fn, r)
                if not (isinstance(rv, ast.Tuple) and len(rv.elts) == 2):
                    continue
                g = rv.elts[1]
                if not (isinstance(g, ast.Call) and U(g.func) in (
                        'np.full', 'np.zeros', 'np.ones', 'np.empty')):
                    continue
                shape = None
                for k in g.keywords:
                    if k.arg == 'shape':
                        shape = k.value
                if shape is None and g.args:
                    shape = g.args[0]
                n += 1
                where = repo.loc(r, cname, 'evaluateS1')
                pv = _len_prov(shape, fn, (), r.lineno) if shape is not None \
                    else None
                if pv == 'FULL':
                    ctx.ok(rule, where, construct,
                           'the early exit returns one gradient entry per '
                           'parameter (`%s`)' % U(shape)[:40])
                elif pv == 'PART':
                    ctx.violation(
                        rule, where, construct, 'guard gradient length',
                        '`%s` sizes the gradient of the early exit by `%s`, '
                        'the length of a block of the parameter vector: the '
                        'gradient has fewer entries than n_parameters() / '
                        'get_parameter_names() report' % (
                            norm_stmt(r)[:50], U(shape)[:40]))
                else:
                    ctx.error(rule, '%s: length `%s` of the early-exit '
                              'gradient not derived' % (
                                  construct, U(shape)[:40] if shape
                                  is not None else '?'))
    if n < 2:
        ctx.error(rule, 'only %d early exits found (floor 2)' % n)
