"""Shape contracts of public methods, decided with the layout engine (B).

The documented signatures fix, for symbolic sizes, the shape of what goes in
and what comes out.  Each rule walks one public method of every concrete
class with documented input shapes and requires (i) no layout event on the
way (a reshape that re-interprets the flattened order, a broadcast of
differently laid-out axes, random draws shared along an axis), and (ii) the
documented output shape, axis by axis.

R06.4  samplers: ErrorModel.sample -> (n_times, n_samples),
       PopulationModel.sample -> (n_samples, n_dim); independent draws along
       every axis of the result.
R05.7  PopulationModel.compute_individual_parameters(parameters, eta of shape
       (n_ids, n_dim)) -> (n_ids, n_dim) with those axes (not a re-laid-out
       array of the same size), for flat parameters.
"""
import ast

import sympy as sp

from ..loader import U
from ..shapes import ShapeLifter, Arr, Ax, TOP, eq, nest_eq, nest_str
from ..term import Opaque
from .layout import (sym, _class_invariants, _elementary, _emit_events, N_DIM,
                     N_IDS, ENG)

NT, NS = sym('n_times'), sym('n_samples')


def _ret_of(lf, fn, env, cls):
    try:
        r = lf._block(fn.body, env, fn, 0, cls)
    except Exception as e:
        return 'error', '%s: %s' % (type(e).__name__, e)
    if r is None or r[0] != 'ret':
        return 'none', None
    return 'ret', r[1]


def _check_axes(val, want):
    """val is an Arr whose axes are exactly the wanted sizes, each laid out
    as that one factor."""
    if not (isinstance(val, Arr) and val.ndim == len(want)):
        return False
    for a, w in zip(val.axes, want):
        if not eq(a.size, w):
            return False
        nst = [(l, s) for l, s in a.nest if not eq(s, 1)]
        if len(nst) > 1:
            return False
    return True


def r06_4(ctx, repo):
    rule = 'R06.4'
    n = 0
    # error models
    for cls in sorted(repo.subclasses('ErrorModel', strict=True)):
        k, fn = repo.resolve(cls, 'sample')
        if fn is None or repo.is_abstract(fn):
            continue
        construct = '%s.sample' % cls
        P = sym('n_error_parameters')
        lf = ShapeLifter(repo, cls, flags={'n_samples is None': False,
                                           'seed is None': False})
        lf.check_random = True
        env = {'parameters': Arr([Ax(P)]), 'model_output': Arr([Ax(NT)]),
               'n_samples': NS, 'seed': Opaque('seed'),
               'self._n_parameters': P}
        st, val = _ret_of(lf, fn, env, k)
        n += 1
        where = repo.loc(fn, k, 'sample')
        if st == 'error':
            ctx.error(rule, '%s: %s' % (construct, val))
            continue
        if _emit_events(ctx, rule, repo, k, fn, lf, construct):
            continue
        if _check_axes(val, (NT, NS)):
            if getattr(val, 'random', False):
                ctx.ok(rule, where, construct,
                       'returns independent draws of shape (n_times, '
                       'n_samples)', engine=ENG)
            else:
                ctx.error(rule, '%s: randomness of the result not derived'
                          % construct)
        elif isinstance(val, Arr):
            ctx.violation(
                rule, where, construct, 'sample shape',
                'sample() returns shape (%s); documented: (n_times, '
                'n_samples)' % ', '.join(str(a.size) for a in val.axes),
                engine=ENG)
        else:
            ctx.error(rule, '%s: shape of the samples not derived (%r)' % (
                construct, val))
    # elementary population models
    for cls in _elementary(repo):
        k, fn = repo.resolve(cls, 'sample')
        if fn is None or repo.is_abstract(fn) or k != cls:
            continue
        inv = _class_invariants(repo, cls)
        P = inv.get('self._n_parameters')
        if not isinstance(P, sp.Expr):
            continue
        init = repo.method(cls, '__init__')
        cent = 'centered' in [a.arg for a in init.args.args]
        construct = '%s.sample' % cls
        for centered in ([True, False] if cent else [True]):
            lf = ShapeLifter(repo, cls, flags={
                'n_samples is None': False, 'seed is None': False,
                'self._centered': centered, 'covariates is None': True})
            lf.check_random = True
            env = dict(inv)
            env.update({'parameters': Arr([Ax(P, (('?theta', P),))]),
                        'n_samples': NS, 'seed': Opaque('seed'),
                        'covariates': None, 'self._centered': centered})
            st, val = _ret_of(lf, fn, env, cls)
            n += 1
            where = repo.loc(fn, cls, 'sample')
            site = '%s[%s]' % (construct, 'centred' if centered
                               else 'non-centred')
            if st == 'error':
                ctx.error(rule, '%s: %s' % (site, val))
                continue
            if _emit_events(ctx, rule, repo, cls, fn, lf, site):
                continue
            if not isinstance(val, Arr):
                # samplers built on scipy / delegation are not derived
                ctx.note(rule, '%s: result shape not derived' % site)
                continue
            if _check_axes(val, (NS, N_DIM)):
                ctx.ok(rule, where, site,
                       'returns shape (n_samples, n_dim)', engine=ENG)
            else:
                ctx.violation(
                    rule, where, site, 'sample shape',
                    'sample() returns an array laid out as (%s); '
                    'documented: (n_samples, n_dim) — one row per sampled '
                    'individual' % ' , '.join(nest_str(a.nest)
                                              for a in val.axes), engine=ENG)
    if n < 8:
        ctx.error(rule, 'only %d samplers analysed (floor 8)' % n)


def r05_7(ctx, repo):
    rule = 'R05.7'
    n = 0
    for cls in _elementary(repo):
        k, fn = repo.resolve(cls, 'compute_individual_parameters')
        if fn is None or repo.is_abstract(fn) or k != cls:
            continue
        inv = _class_invariants(repo, cls)
        P = inv.get('self._n_parameters')
        if not isinstance(P, sp.Expr):
            continue
        init = repo.method(cls, '__init__')
        cent = 'centered' in [a.arg for a in init.args.args]
        construct = '%s.compute_individual_parameters' % cls
        for centered in ([True, False] if cent else [True]):
            for ret_eta in (False, True):
                lf = ShapeLifter(repo, cls, flags={
                    'self._centered': centered, 'return_eta': ret_eta})
                env = dict(inv)
                env.update({
                    'parameters': Arr([Ax(P, (('?theta', P),))]),
                    'eta': Arr([Ax(N_IDS), Ax(N_DIM)]),
                    'return_eta': ret_eta, 'self._centered': centered,
                    'self._n_ids': N_IDS})
                st, val = _ret_of(lf, fn, env, cls)
                n += 1
                where = repo.loc(fn, cls, fn.name)
                site = '%s[%s%s]' % (construct, 'centred' if centered
                                     else 'non-centred',
                                     ', return_eta' if ret_eta else '')
                if st == 'error':
                    ctx.error(rule, '%s: %s' % (site, val))
                    continue
                if _emit_events(ctx, rule, repo, cls, fn, lf, site):
                    continue
                if not isinstance(val, Arr):
                    ctx.note(rule, '%s: result shape not derived' % site)
                    continue
                if _check_axes(val, (N_IDS, N_DIM)) and nest_eq(
                        val.axes[0].nest, ((N_IDS.name, N_IDS),)) \
                        and nest_eq(val.axes[1].nest,
                                    ((N_DIM.name, N_DIM),)):
                    ctx.ok(rule, where, site,
                           'returns (n_ids, n_dim): one row per individual',
                           engine=ENG)
                else:
                    ctx.violation(
                        rule, where, site, 'psi layout',
                        'the individual parameters are returned laid out '
                        'as (%s); documented: (n_ids, n_dim) — entry (i, d) '
                        'is dimension d of individual i' % ' , '.join(
                            nest_str(a.nest) for a in val.axes), engine=ENG)
    if n < 8:
        ctx.error(rule, 'only %d configurations analysed (floor 8)' % n)
