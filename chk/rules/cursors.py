"""R05.4 — partition cursors and running sums in loops (engine B, CFG).

A *running variable* is a local initialised to the constant 0 before a loop
and assigned inside it.  Inside the loop every assignment to it must be
  (a) an accumulation   `v += e` / `v = v + e`,
  (b) an advance to its own end variable  `v = e` with `e = v + inc` defined
      earlier in the iteration, or
  (c) an absolute position taken from the loop element `v = elem[k]`
      (or a name bound to `elem[k]`).
A running variable that is used as a position (slice bound, range bound) is a
*cursor*: every path through the loop body must update it (unless all of its
uses and its update sit in the same conditional block), and the two bounds of
a slice must belong to the same cursor pair.
"""
import ast

from ..loader import U, norm_stmt

SKIP = ('chi/plots', 'chi/library')


def _names(e):
    return {n.id for n in ast.walk(e) if isinstance(n, ast.Name)}


def _zero_inits(fn):
    """name -> first line where it is set to the constant 0 (top-level or
    nested, but outside of any loop)."""
    out = {}

    def visit(stmts, inloop):
        for s in stmts:
            if isinstance(s, ast.Assign):
                pairs = []
                for t in s.targets:
                    if isinstance(t, ast.Name):
                        pairs.append((t, s.value))
                    elif isinstance(t, ast.Tuple) and isinstance(
                            s.value, ast.Tuple) and len(t.elts) == len(
                            s.value.elts):
                        pairs += list(zip(t.elts, s.value.elts))
                for t, v in pairs:
                    if isinstance(t, ast.Name) and isinstance(
                            v, ast.Constant) and v.value == 0 and not \
                            isinstance(v.value, bool) and not inloop:
                        out.setdefault(t.id, s.lineno)
            for attr in ('body', 'orelse', 'finalbody'):
                sub = getattr(s, attr, None)
                if isinstance(sub, list) and sub and isinstance(
                        sub[0], ast.stmt):
                    visit(sub, inloop or isinstance(s, (ast.For, ast.While)))
            for h in getattr(s, 'handlers', []):
                visit(h.body, inloop)
    visit(fn.body, False)
    return out


def _loop_elem_names(loop):
    t = loop.target
    if isinstance(t, ast.Name):
        return {t.id}
    return {n.id for n in ast.walk(t) if isinstance(n, ast.Name)}


def _assignments(loop, name):
    out = []
    for s in ast.walk(loop):
        if s is loop:
            continue
        if isinstance(s, ast.Assign):
            for t in s.targets:
                if isinstance(t, ast.Name) and t.id == name:
                    out.append(s)
        elif isinstance(s, ast.AugAssign) and isinstance(
                s.target, ast.Name) and s.target.id == name:
            out.append(s)
    return out


def _defs_in(loop, name):
    """Assignments `name = expr` inside the loop body (any depth)."""
    return [s for s in ast.walk(loop) if isinstance(s, ast.Assign)
            and any(isinstance(t, ast.Name) and t.id == name
                    for t in s.targets)]


def _is_elem_position(expr, loop, elems, depth=0):
    """expr is elem[k] or a name bound (in this loop) to elem[k]."""
    if isinstance(expr, ast.Subscript) and isinstance(
            expr.value, ast.Name) and expr.value.id in elems \
            and isinstance(expr.slice, ast.Constant):
        return True
    if isinstance(expr, ast.Name) and isinstance(loop.target, ast.Tuple):
        # unpacked in the loop header: `for lo, hi, *_ in table`
        tgt = loop.target
        if isinstance(loop.iter, ast.Call) and U(loop.iter.func) == \
                'enumerate' and len(tgt.elts) == 2:
            tgt = tgt.elts[1]
        if isinstance(tgt, ast.Tuple) and any(
                isinstance(x, ast.Name) and x.id == expr.id
                for x in tgt.elts):
            return True
    if isinstance(expr, ast.Name) and depth < 2:
        # unpacked from the loop element: `a, b, c = elem`
        for s in ast.walk(loop):
            if isinstance(s, ast.Assign) and isinstance(
                    s.targets[0], ast.Tuple) and isinstance(
                    s.value, ast.Name) and s.value.id in elems and any(
                    isinstance(t, ast.Name) and t.id == expr.id
                    for t in s.targets[0].elts):
                return True
        ds = _defs_in(loop, expr.id)
        return bool(ds) and all(
            _is_elem_position(d.value, loop, elems, depth + 1) for d in ds)
    return False


def _signed_terms(e, sign=1):
    if isinstance(e, ast.BinOp) and isinstance(e.op, (ast.Add, ast.Sub)):
        return _signed_terms(e.left, sign) + _signed_terms(
            e.right, sign if isinstance(e.op, ast.Add) else -sign)
    return [(sign, e)]


def _advances_from(e, v):
    """e is an additive expression `v + ... - ...` with v as a positive
    term (and only once)."""
    terms = _signed_terms(e)
    hits = [sg for sg, t in terms if isinstance(t, ast.Name) and t.id == v]
    return len(terms) > 1 and hits == [1]


def _classify(asg, v, loop, elems):
    """-> 'acc' | 'advance' | 'position' | None"""
    if isinstance(asg, ast.AugAssign):
        return 'acc' if isinstance(asg.op, (ast.Add, ast.Sub)) else None
    val = asg.value
    if isinstance(val, ast.BinOp) and isinstance(val.op, (ast.Add, ast.Sub)) \
            and isinstance(val.left, ast.Name) and val.left.id == v:
        return 'acc'
    if isinstance(val, ast.BinOp) and isinstance(val.op, ast.Add) \
            and isinstance(val.right, ast.Name) and val.right.id == v:
        return 'acc'
    if isinstance(val, ast.Name):
        # advance to own end variable: e = v + inc
        for d in _defs_in(loop, val.id):
            dv = d.value
            if (isinstance(dv, ast.BinOp) and isinstance(dv.op, ast.Add)
                    and v in _names(dv)) or _advances_from(dv, v):
                return 'advance'
    if _is_elem_position(val, loop, elems):
        return 'position'
    return None


def _position_uses(loop, v, ends):
    """Uses of v (or its end variables) as slice / range bounds."""
    uses = []
    for n in ast.walk(loop):
        if isinstance(n, ast.Slice):
            for b in (n.lower, n.upper):
                if b is not None and (_names(b) & ({v} | ends)):
                    uses.append(n)
                    break
        if isinstance(n, ast.Call) and isinstance(n.func, ast.Name) \
                and n.func.id == 'range' and any(
                    _names(a) & ({v} | ends) for a in n.args):
            uses.append(n)
    return uses


def _end_vars(loop, v):
    out = set()
    for s in ast.walk(loop):
        if isinstance(s, ast.Assign) and isinstance(
                s.value, ast.BinOp) and ((isinstance(s.value.op, ast.Add)
                                          and v in _names(s.value))
                                         or _advances_from(s.value, v)):
            for t in s.targets:
                if isinstance(t, ast.Name) and t.id != v:
                    out.add(t.id)
    return out


def _enclosing_if(node, loop):
    """Innermost If inside loop that contains node (or None)."""
    cur = getattr(node, '_parent', None)
    while cur is not None and cur is not loop:
        if isinstance(cur, ast.If):
            return cur
        cur = getattr(cur, '_parent', None)
    return None


ZERO_WIDTH_CALLS = ('n_hierarchical_parameters', 'n_hierarchical_dim')


def _zero_width_guard(cont, loop):
    """The `continue` sits under a test on the element's number of
    individual-level parameters / dimensions: an element without them
    occupies no block of an individual-level array, so skipping it without
    moving the cursor of that array is the same as the `if n_b > 0:` block
    form (repository fact, see DESIGN.md)."""
    cur = getattr(cont, '_parent', None)
    while cur is not None and cur is not loop:
        if isinstance(cur, ast.If):
            names = _names(cur.test)
            txt = U(cur.test)
            if any(c in txt for c in ZERO_WIDTH_CALLS):
                return True
            for d in ast.walk(loop):
                if isinstance(d, ast.Assign) and any(
                        isinstance(x, ast.Name) and x.id in names
                        for t in d.targets for x in ast.walk(t)) and any(
                        c in U(d.value) for c in ZERO_WIDTH_CALLS):
                    return True
        cur = getattr(cur, '_parent', None)
    return False


def _paths_update(stmts, v, loop=None):
    """Does every path through stmts that reaches the end of the iteration
    (fall-through or `continue`) assign v?  -> (all_paths_ok, witness line)
    Paths ending in return/raise/break are not iteration ends."""
    # state: set of booleans "v updated" for live paths
    live = {False}
    bad = []

    def run(stmts, live):
        for s in stmts:
            if not live:
                return live
            if isinstance(s, (ast.Assign, ast.AugAssign)):
                tg = s.targets if isinstance(s, ast.Assign) else [s.target]
                if any(isinstance(t, ast.Name) and t.id == v for t in tg):
                    live = {True}
            elif isinstance(s, ast.If):
                a = run(s.body, set(live))
                b = run(s.orelse, set(live))
                live = a | b
            elif isinstance(s, (ast.For, ast.While)):
                inner = run(s.body, set(live))
                live = live | inner
            elif isinstance(s, ast.Try):
                a = run(s.body, set(live))
                hs = set()
                for h in s.handlers:
                    hs |= run(h.body, set(live))
                live = a | hs
            elif isinstance(s, ast.With):
                live = run(s.body, live)
            elif isinstance(s, ast.Continue):
                if False in live and not (
                        loop is not None and _zero_width_guard(s, loop)):
                    bad.append(s.lineno)
                return set()
            elif isinstance(s, (ast.Return, ast.Raise, ast.Break)):
                return set()
        return live
    end = run(stmts, live)
    if False in end:
        bad.append(stmts[-1].end_lineno if stmts else 0)
    return (not bad), (bad[0] if bad else None)


def analyse_loop(repo, rel, cls, fn, loop, zeros, report_ok, report_bad):
    elems = _loop_elem_names(loop)
    running = {}
    for s in ast.walk(loop):
        if s is loop:
            continue
        names = []
        if isinstance(s, ast.Assign):
            names = [t.id for t in s.targets if isinstance(t, ast.Name)]
        elif isinstance(s, ast.AugAssign) and isinstance(s.target, ast.Name):
            names = [s.target.id]
        for nme in names:
            if nme in zeros and zeros[nme] < loop.lineno:
                running.setdefault(nme, [])
    construct = '%s.%s' % (cls, fn.name) if cls else fn.name
    for v in sorted(running):
        # only the loop that directly owns the assignments (innermost)
        asgs = _assignments(loop, v)
        owner_ok = all(_innermost_loop(a, fn) is loop for a in asgs)
        if not owner_ok:
            continue
        ends = _end_vars(loop, v)
        uses = _position_uses(loop, v, ends)
        kinds = []
        for a in asgs:
            k = _classify(a, v, loop, elems)
            kinds.append(k)
            where = repo.loc(a, cls, fn.name)
            if k is None and (uses or _used_arith(loop, v)):
                report_bad(
                    where, construct, 'overwrite %s' % v,
                    'running variable `%s` (0 before the loop at line %d) is '
                    'overwritten by `%s`: it is neither accumulated (`+=`), '
                    'advanced to its own end (`end = %s + width; %s = end`) '
                    'nor set to an absolute position of the loop element, so '
                    'the contributions of earlier iterations are lost' % (
                        v, loop.lineno, norm_stmt(a)[:60], v, v))
            elif k is not None:
                report_ok(where, construct,
                          '`%s` is %s (`%s`)' % (v, {
                              'acc': 'accumulated',
                              'advance': 'advanced to its own end variable',
                              'position': 'set to an absolute position of '
                                          'the loop element'}[k],
                              norm_stmt(a)[:50]))
        if not uses:
            continue
        # cursor: updated on every path through the iteration
        region = loop.body
        ifs = {id(_enclosing_if(n, loop)) for n in uses + asgs}
        if len(ifs) == 1 and None not in {
                _enclosing_if(n, loop) for n in uses + asgs}:
            blk = _enclosing_if(asgs[0], loop)
            region = blk.body if any(
                a in ast.walk(ast.Module(body=blk.body, type_ignores=[]))
                for a in asgs) else blk.orelse
        ok, line = _paths_update(region, v, loop)
        where = repo.loc(loop, cls, fn.name)
        if ok:
            report_ok(where, construct,
                      'cursor `%s` is updated on every path through the '
                      'iteration' % v)
        else:
            report_bad(
                where, construct, 'cursor %s not advanced' % v,
                'cursor `%s` slices / indexes per element of `%s`, but a '
                'path through the loop body (ending near line %s) does not '
                'advance it: the next element reads the wrong block' % (
                    v, U(loop.iter)[:40], line))
        # units: a cursor that is paired in a slice with an absolute position
        # of the loop element (`x[cur:elem_start]`) lives in the element's
        # position space; it must be *set* to a position of the element
        # (`cur = elem_end`), not advanced by widths
        for n in uses:
            if not isinstance(n, ast.Slice) or n.lower is None \
                    or n.upper is None:
                continue
            lo_, hi_ = n.lower, n.upper
            if isinstance(lo_, ast.Name) and lo_.id == v and \
                    _is_elem_position(hi_, loop, elems) and any(
                        k == 'acc' for k in kinds):
                a = [x for x, k in zip(asgs, kinds) if k == 'acc'][0]
                report_bad(
                    repo.loc(a, cls, fn.name), construct,
                    'cursor units %s' % v,
                    '`%s` ends at `%s`, an absolute position taken from the '
                    'loop element, but its start `%s` is advanced by '
                    '`%s` (a width): after an element that does not start '
                    'where the previous one ended the two are in different '
                    'units and the wrong entries are selected' % (
                        U(n), U(hi_), v, norm_stmt(a)[:50]))
        # slice bound pairing
        for n in uses:
            if not isinstance(n, ast.Slice) or n.lower is None \
                    or n.upper is None:
                continue
            lo, hi = _names(n.lower), _names(n.upper)
            common = lo & hi
            lo, hi = lo - common, hi - common
            if v in lo and not (hi & ends) and not (v in hi):
                # upper bound from another cursor family?
                other = [x for x in hi if x in zeros or any(
                    x in _end_vars(loop, z) for z in zeros if z != v)]
                if other:
                    report_bad(
                        repo.loc(n, cls, fn.name), construct,
                        'slice mixes cursors %s' % v,
                        'slice `%s` starts at cursor `%s` but ends at `%s`, '
                        'which belongs to a different cursor' % (
                            U(n), v, ', '.join(other)))


def _used_arith(loop, v):
    """v is read in arithmetic inside the loop *before* (textually) its
    first assignment there, i.e. its value is carried across iterations."""
    first_write = min([a.lineno for a in _assignments(loop, v)] or [10**9])
    for n in ast.walk(loop):
        if isinstance(n, ast.BinOp) and v in _names(n) \
                and n.lineno <= first_write:
            return True
        if isinstance(n, ast.AugAssign) and v in _names(n.value) \
                and n.lineno <= first_write:
            return True
    return False


def _innermost_loop(node, fn):
    cur = getattr(node, '_parent', None)
    while cur is not None and cur is not fn:
        if isinstance(cur, (ast.For, ast.While)):
            return cur
        cur = getattr(cur, '_parent', None)
    return None


def _elem_dependent(expr, loop, elems, depth=0):
    """expr depends on the loop element / loop index (directly or through
    a name defined in the loop)."""
    for n in ast.walk(expr):
        if isinstance(n, ast.Name):
            if n.id in elems:
                return True
            if depth < 2:
                for d in _defs_in(loop, n.id):
                    if _elem_dependent(d.value, loop, elems, depth + 1):
                        return True
    return False


def extra_checks(repo, cls, fn, loop, zeros, report_ok, report_bad):
    """(1) zero-initialised position never advanced in the loop;
       (2) slice of element-dependent width whose lower bound is recomputed
           per iteration instead of running."""
    elems = _loop_elem_names(loop)
    if not any(_elem_dependent(ast.Name(id=e, ctx=ast.Load()), loop, elems)
               for e in elems):
        return
    construct = '%s.%s' % (cls, fn.name) if cls else fn.name
    for n in ast.walk(loop):
        if not isinstance(n, ast.Slice) or n.lower is None \
                or n.upper is None:
            continue
        if _innermost_loop(n, fn) is not loop:
            continue
        lo_names = _names(n.lower)
        # width = upper - lower must be element dependent
        upper_defs = []
        if isinstance(n.upper, ast.Name):
            upper_defs = [d.value for d in _defs_in(loop, n.upper.id)]
        else:
            upper_defs = [n.upper]
        width_dep = any(
            isinstance(u, ast.BinOp) and isinstance(u.op, ast.Add)
            and (lo_names & _names(u)) and _elem_dependent(u, loop, elems)
            for u in upper_defs)
        if not width_dep or not isinstance(n.lower, ast.Name):
            continue
        v = n.lower.id
        where = repo.loc(n, cls, fn.name)
        asgs = _assignments(loop, v)
        if v in zeros and zeros[v] < loop.lineno and not asgs:
            report_bad(
                where, construct, 'cursor %s never advanced' % v,
                'slice `%s` takes a block of element-dependent width '
                'starting at `%s`, which is 0 before the loop and never '
                'advanced inside it: every element reads the block of the '
                'first one' % (U(n), v))
            continue
        if asgs and not (v in zeros and zeros[v] < loop.lineno):
            kinds = [_classify(a, v, loop, elems) for a in asgs]
            if all(k is None for k in kinds):
                report_bad(
                    where, construct, 'lower bound %s recomputed' % v,
                    'slice `%s` takes a block whose width depends on the '
                    'loop element, but its lower bound `%s` is recomputed '
                    'per iteration (`%s`) instead of running over the widths '
                    'of the previous elements' % (
                        U(n), v, norm_stmt(asgs[0])[:60]))
            continue
        report_ok(where, construct,
                  'block `%s` of element-dependent width starts at a running '
                  'cursor' % U(n))


MERGE_FUNCS = {'np.union1d', 'np.concatenate', 'np.hstack', 'np.vstack',
               'np.append', 'np.intersect1d', 'pd.concat'}


def merge_accumulators(repo, cls, fn, loop, report_ok, report_bad):
    """`v = merge(A, elem)` inside a loop, with v defined before the loop and
    read after it, must merge into v itself: otherwise only the last
    iteration survives."""
    elems = _loop_elem_names(loop)
    construct = '%s.%s' % (cls, fn.name) if cls else fn.name
    for a in loop.body:
        if not (isinstance(a, ast.Assign) and len(a.targets) == 1
                and isinstance(a.targets[0], ast.Name)
                and isinstance(a.value, ast.Call)
                and U(a.value.func) in MERGE_FUNCS):
            continue
        v = a.targets[0].id
        args = []
        for x in a.value.args:
            args += x.elts if isinstance(x, (ast.List, ast.Tuple)) else [x]
        argnames = set()
        for x in args:
            argnames |= _names(x)
        if not (argnames & elems):
            continue
        before = any(isinstance(s, ast.Assign) and any(
            isinstance(t, ast.Name) and t.id == v for t in s.targets)
            and s.lineno < loop.lineno for s in ast.walk(fn))
        after = any(isinstance(n, ast.Name) and n.id == v and isinstance(
            n.ctx, ast.Load) and n.lineno > loop.end_lineno
            for n in ast.walk(fn))
        if not (before and after):
            continue
        where = repo.loc(a, cls, fn.name)
        if v in argnames:
            report_ok(where, construct,
                      '`%s` accumulates over the loop (`%s`)' % (
                          v, norm_stmt(a)[:50]))
        else:
            report_bad(
                where, construct, 'merge overwrites %s' % v,
                '`%s` merges the loop element into `%s` instead of into the '
                'running result `%s`: after the loop only the last element '
                'is merged, the contributions of the other iterations are '
                'lost' % (norm_stmt(a)[:70], U(args[0])[:30], v))


def cursor_increments(loop, v):
    """Per-iteration increment of the running variable v on every path
    through the body of `loop`: list of (tests taken, sympy expr or None).
    Calls are opaque symbols named by their text; paths ending in
    return / raise / break are dropped."""
    import sympy as sp

    def ev(e, env):
        if isinstance(e, ast.Constant) and isinstance(e.value, (int, float)) \
                and not isinstance(e.value, bool):
            return sp.nsimplify(e.value)
        if isinstance(e, ast.Name):
            return env.get(e.id, sp.Symbol(e.id))
        if isinstance(e, ast.BinOp) and isinstance(
                e.op, (ast.Add, ast.Sub, ast.Mult)):
            a, b = ev(e.left, env), ev(e.right, env)
            if a is None or b is None:
                return None
            return {ast.Add: a + b, ast.Sub: a - b,
                    ast.Mult: a * b}[type(e.op)]
        if isinstance(e, (ast.Call, ast.Attribute, ast.Subscript)):
            return sp.Symbol(U(e).replace(' ', ''))
        return None
    out = []

    def run(stmts, env, conds):
        """-> list of (env, conds) for paths that fall through"""
        live = [(env, conds)]
        for s in stmts:
            nxt = []
            for env, conds in live:
                if isinstance(s, ast.Assign) and len(s.targets) == 1 \
                        and isinstance(s.targets[0], ast.Name):
                    e2 = dict(env)
                    e2[s.targets[0].id] = ev(s.value, env)
                    nxt.append((e2, conds))
                elif isinstance(s, ast.Assign) and len(s.targets) == 1 \
                        and isinstance(s.targets[0], ast.Tuple) \
                        and isinstance(s.value, ast.Tuple) and len(
                            s.targets[0].elts) == len(s.value.elts):
                    e2 = dict(env)
                    for t, x in zip(s.targets[0].elts, s.value.elts):
                        if isinstance(t, ast.Name):
                            e2[t.id] = ev(x, env)
                    nxt.append((e2, conds))
                elif isinstance(s, ast.Assign):
                    e2 = dict(env)
                    for t in s.targets:
                        for x in ast.walk(t):
                            if isinstance(x, ast.Name) and isinstance(
                                    x.ctx, ast.Store):
                                e2[x.id] = sp.Symbol(
                                    '%s@%d' % (x.id, s.lineno))
                    nxt.append((e2, conds))
                elif isinstance(s, ast.AugAssign) and isinstance(
                        s.target, ast.Name) and isinstance(
                        s.op, (ast.Add, ast.Sub)):
                    e2 = dict(env)
                    cur = env.get(s.target.id, sp.Symbol(s.target.id))
                    d = ev(s.value, env)
                    e2[s.target.id] = None if cur is None or d is None \
                        else (cur + d if isinstance(s.op, ast.Add)
                              else cur - d)
                    nxt.append((e2, conds))
                elif isinstance(s, ast.If):
                    nxt += run(s.body, dict(env), conds + [(s.test, True)])
                    nxt += run(s.orelse, dict(env),
                               conds + [(s.test, False)])
                elif isinstance(s, ast.Continue):
                    out.append((conds, env.get(v, sp.Symbol(v))))
                elif isinstance(s, (ast.Return, ast.Raise, ast.Break)):
                    pass
                elif isinstance(s, (ast.For, ast.While)):
                    e2 = dict(env)
                    for x in ast.walk(s):
                        if isinstance(x, ast.Name) and isinstance(
                                x.ctx, ast.Store):
                            e2[x.id] = None
                    nxt.append((e2, conds))
                elif isinstance(s, (ast.With, ast.Try)):
                    nxt += run(s.body, dict(env), conds)
                else:
                    nxt.append((env, conds))
            live = nxt
        return live
    for env, conds in run(loop.body, {}, []):
        out.append((conds, env.get(v, sp.Symbol(v))))
    res = []
    for conds, val in out:
        res.append((conds, None if val is None
                    else sp.expand(val - sp.Symbol(v))))
    return res


def desugar_slices(fn):
    """Rewrite slice objects into the end-variable idiom the rule reads:

        dims = slice(lo, hi)      ->   dims__stop = hi
        a[:, dims]                ->   a[:, lo:dims__stop]
        dims.stop / dims.start    ->   dims__stop / lo

    `lo` is substituted textually, which is exact as long as none of its
    names is assigned between the definition and the use; otherwise the use
    is left alone.  Returns fn itself when there is nothing to rewrite."""
    import copy
    defs = {}
    for n in ast.walk(fn):
        if isinstance(n, ast.Assign) and len(n.targets) == 1 and isinstance(
                n.targets[0], ast.Name) and isinstance(n.value, ast.Call) \
                and U(n.value.func) == 'slice' and len(n.value.args) == 2 \
                and not n.value.keywords:
            defs.setdefault(n.targets[0].id, []).append(n)
    defs = {k: v[0] for k, v in defs.items() if len(v) == 1}
    if not defs:
        return fn
    new = copy.deepcopy(fn)
    ndefs = {}
    for n in ast.walk(new):
        if isinstance(n, ast.Assign) and len(n.targets) == 1 and isinstance(
                n.targets[0], ast.Name) and n.targets[0].id in defs \
                and isinstance(n.value, ast.Call) and U(
                    n.value.func) == 'slice':
            ndefs[n.targets[0].id] = (n, n.value.args[0], n.value.args[1])

    def stable(name, use):
        d, lo, hi = ndefs[name]
        lo_names = _names(lo)
        for x in ast.walk(new):
            tg = []
            if isinstance(x, ast.Assign):
                tg = x.targets
            elif isinstance(x, ast.AugAssign):
                tg = [x.target]
            for t in tg:
                for y in ast.walk(t):
                    if isinstance(y, ast.Name) and y.id in lo_names \
                            and d.lineno < x.lineno <= use.lineno:
                        return False
        return True

    class R(ast.NodeTransformer):
        def visit_Subscript(self, x):
            self.generic_visit(x)
            elts = x.slice.elts if isinstance(x.slice, ast.Tuple) \
                else [x.slice]
            out = []
            for e in elts:
                if isinstance(e, ast.Name) and e.id in ndefs and stable(
                        e.id, x):
                    lo = copy.deepcopy(ndefs[e.id][1])
                    e = ast.copy_location(ast.Slice(
                        lower=lo, upper=ast.copy_location(ast.Name(
                            id=e.id + '__stop', ctx=ast.Load()), e),
                        step=None), e)
                out.append(e)
            if isinstance(x.slice, ast.Tuple):
                x.slice.elts = out
            else:
                x.slice = out[0]
            return x

        def visit_Attribute(self, x):
            self.generic_visit(x)
            if isinstance(x.value, ast.Name) and x.value.id in ndefs:
                if x.attr == 'stop':
                    return ast.copy_location(ast.Name(
                        id=x.value.id + '__stop', ctx=ast.Load()), x)
                if x.attr == 'start' and stable(x.value.id, x):
                    return ast.copy_location(copy.deepcopy(
                        ndefs[x.value.id][1]), x)
            return x
    R().visit(new)
    for name, (d, lo, hi) in ndefs.items():
        d.targets = [ast.copy_location(ast.Name(
            id=name + '__stop', ctx=ast.Store()), d.targets[0])]
        d.value = hi
    # `dims = slice(lo, end)` with a plain name as upper bound: the helper
    # variable is that name (no further alias for the rules to follow)
    ren = {}
    for name, (d, lo, hi) in ndefs.items():
        if isinstance(hi, ast.Name):
            hn = hi.id
            later = [x for x in ast.walk(new) if isinstance(
                x, (ast.Assign, ast.AugAssign)) and x is not d and any(
                    isinstance(y, ast.Name) and y.id == hn and isinstance(
                        y.ctx, ast.Store) for t in (
                        x.targets if isinstance(x, ast.Assign)
                        else [x.target]) for y in ast.walk(t))
                and x.lineno > d.lineno]
            uses = [x for x in ast.walk(new) if isinstance(x, ast.Name)
                    and x.id == name + '__stop' and isinstance(
                        x.ctx, ast.Load)]
            # exact when the upper-bound name is not re-bound between the
            # definition of the slice and any of its uses
            if not any(d.lineno < l.lineno < u.lineno
                       for l in later for u in uses):
                ren[name + '__stop'] = hn
    if ren:
        class R2(ast.NodeTransformer):
            def visit_Name(self, x):
                if x.id in ren and isinstance(x.ctx, ast.Load):
                    return ast.copy_location(ast.Name(id=ren[x.id],
                                                      ctx=ast.Load()), x)
                return x
        R2().visit(new)
    ast.fix_missing_locations(new)
    for parent in ast.walk(new):
        for child in ast.iter_child_nodes(parent):
            child._parent = parent
    new._parent = getattr(fn, '_parent', None)
    return new


def _cumulative_tables(fn):
    """Names of lists holding cumulative block boundaries:
       B = [0]; for w in W: B.append(B[-1] + w)      or
       B = np.cumsum([0] + W) / np.cumsum([0] + list(W)) / np.hstack([0, ..])
    """
    out = set()
    for a in ast.walk(fn):
        if isinstance(a, ast.Assign) and len(a.targets) == 1 and isinstance(
                a.targets[0], ast.Name):
            v = a.value
            name = a.targets[0].id
            if isinstance(v, ast.Call) and U(v.func) in (
                    'np.cumsum', 'numpy.cumsum') and v.args and U(
                    v.args[0]).replace(' ', '').startswith('[0]+'):
                out.add(name)
            if isinstance(v, ast.List) and len(v.elts) == 1 and isinstance(
                    v.elts[0], ast.Constant) and v.elts[0].value == 0:
                # grown by appending last + width
                for c in ast.walk(fn):
                    if isinstance(c, ast.Call) and isinstance(
                            c.func, ast.Attribute) and c.func.attr == \
                            'append' and U(c.func.value) == name and c.args \
                            and isinstance(c.args[0], ast.BinOp) \
                            and isinstance(c.args[0].op, ast.Add) and U(
                                c.args[0].left) == '%s[-1]' % name:
                        out.add(name)
    return out


def boundary_slices(repo, cls, fn, loop, tables, report_ok, report_bad):
    """Blocks cut with a table of cumulative boundaries: the k-th block is
    x[B[k]:B[k + 1]] with k the index of the loop."""
    if not tables:
        return
    construct = '%s.%s' % (cls, fn.name) if cls else fn.name
    # names bound in the loop to B[<expr>]
    bound = {}
    for a in ast.walk(loop):
        if not isinstance(a, ast.Assign):
            continue
        pairs = []
        t = a.targets[0]
        if isinstance(t, ast.Name):
            pairs = [(t, a.value)]
        elif isinstance(t, ast.Tuple) and isinstance(a.value, ast.Tuple) \
                and len(t.elts) == len(a.value.elts):
            pairs = list(zip(t.elts, a.value.elts))
        for tt, vv in pairs:
            if isinstance(tt, ast.Name) and isinstance(vv, ast.Subscript) \
                    and U(vv.value) in tables:
                bound[tt.id] = vv

    def as_ref(e):
        if isinstance(e, ast.Name) and e.id in bound:
            e = bound[e.id]
        if isinstance(e, ast.Subscript) and U(e.value) in tables:
            return U(e.value), U(e.slice).replace(' ', '')
        return None
    for n in ast.walk(loop):
        if not isinstance(n, ast.Slice) or n.lower is None \
                or n.upper is None:
            continue
        if _innermost_loop(n, fn) is not loop:
            continue
        lo, hi = as_ref(n.lower), as_ref(n.upper)
        if lo is None and hi is None:
            continue
        where = repo.loc(n, cls, fn.name)
        if lo and hi and lo[0] == hi[0] and hi[1] in (
                lo[1] + '+1', '1+' + lo[1]):
            report_ok(where, construct,
                      'block `%s` is cut at consecutive cumulative '
                      'boundaries %s[k], %s[k+1]' % (U(n), lo[0], lo[0]))
        else:
            report_bad(
                where, construct, 'boundaries %s' % U(n)[:30],
                'slice `%s` does not run between consecutive entries of '
                'the cumulative boundary table (`%s` .. `%s`): the block '
                'does not match the element\'s own width' % (
                    U(n), '%s[%s]' % lo if lo else U(n.lower),
                    '%s[%s]' % hi if hi else U(n.upper)))


def _partition_tables(fn):
    """Names bound to `np.split(x, np.cumsum(W)[..])`: the list of
    consecutive blocks of x with the widths W (a last, surplus block
    included)."""
    out = {}
    for a in ast.walk(fn):
        if isinstance(a, ast.Assign) and len(a.targets) == 1 and isinstance(
                a.targets[0], ast.Name) and isinstance(a.value, ast.Call) \
                and U(a.value.func) in ('np.split', 'numpy.split') \
                and len(a.value.args) >= 2 and any(
                    isinstance(c, ast.Call) and U(c.func) in (
                        'np.cumsum', 'numpy.cumsum')
                    for c in ast.walk(a.value.args[1])):
            out[a.targets[0].id] = a.value
    return out


def partition_blocks(repo, cls, fn, loop, parts, report_ok, report_bad):
    """Blocks taken from a partition `P = np.split(x, np.cumsum(W))`: inside
    the loop over the elements the k-th element reads P[k], k being the
    loop's own index."""
    if not parts:
        return
    construct = '%s.%s' % (cls, fn.name) if cls else fn.name
    idx = None
    if isinstance(loop.iter, ast.Call) and U(loop.iter.func) == 'enumerate' \
            and isinstance(loop.target, ast.Tuple) and isinstance(
                loop.target.elts[0], ast.Name):
        idx = loop.target.elts[0].id
    elif isinstance(loop.iter, ast.Call) and U(loop.iter.func) == 'range' \
            and isinstance(loop.target, ast.Name):
        idx = loop.target.id
    for n in ast.walk(loop):
        if not (isinstance(n, ast.Subscript) and isinstance(
                n.value, ast.Name) and n.value.id in parts):
            continue
        if _innermost_loop(n, fn) is not loop:
            continue
        where = repo.loc(n, cls, fn.name)
        if idx is not None and U(n.slice) == idx:
            report_ok(where, construct,
                      'element k reads block k of the partition `%s`' % U(
                          parts[n.value.id])[:50])
        else:
            report_bad(
                where, construct, 'partition block %s' % U(n)[:30],
                '`%s` does not take the block of the loop\'s own element '
                'from the partition `%s`' % (U(n), U(
                    parts[n.value.id])[:50]))


def shifted_copy(repo, cls, fn, loop, report_ok, report_bad):
    """Gap copy `dst[.., a:b] = src[.., a-h:b-h]` in a loop (dst has extra
    blocks that src lacks; h is the total width of the blocks skipped so
    far): the blocks read from src are consecutive, i.e. after one iteration
    the next source start equals the previous source end:
        a' - h' == b - h
    decided by executing the straight-line body symbolically."""
    import sympy as sp
    construct = '%s.%s' % (cls, fn.name) if cls else fn.name
    for st in loop.body:
        if not (isinstance(st, ast.Assign) and isinstance(
                st.targets[0], ast.Subscript) and isinstance(
                st.value, ast.Subscript)):
            continue

        def last_slice(sub):
            sl = sub.slice
            e = sl.elts[-1] if isinstance(sl, ast.Tuple) else sl
            return e if isinstance(e, ast.Slice) else None
        d, r = last_slice(st.targets[0]), last_slice(st.value)
        if d is None or r is None or not all(
                isinstance(x, ast.Name) for x in (d.lower, d.upper)):
            continue
        lo, hi = d.lower.id, d.upper.id

        def shifted(e, base):
            return isinstance(e, ast.BinOp) and isinstance(e.op, ast.Sub) \
                and U(e.left) == base and isinstance(e.right, ast.Name)
        if not (shifted(r.lower, lo) and shifted(r.upper, hi)
                and r.lower.right.id == r.upper.right.id):
            continue
        sh = r.lower.right.id
        # symbolic execution of the body (plain assignments only)
        env = {}

        def val(e):
            if isinstance(e, ast.Name):
                return env.get(e.id, sp.Symbol(e.id))
            if isinstance(e, ast.Constant) and isinstance(
                    e.value, (int, float)):
                return sp.Integer(e.value)
            if isinstance(e, ast.BinOp) and isinstance(
                    e.op, (ast.Add, ast.Sub)):
                a, b = val(e.left), val(e.right)
                return a + b if isinstance(e.op, ast.Add) else a - b
            return sp.Symbol(U(e).replace(' ', ''))
        ok = True
        hi_at_copy = sh_at_copy = None
        for b in loop.body:
            if b is st:
                hi_at_copy, sh_at_copy = val(d.upper), val(
                    ast.Name(id=sh, ctx=ast.Load()))
                continue
            if isinstance(b, ast.Assign) and len(b.targets) == 1 \
                    and isinstance(b.targets[0], ast.Name):
                env[b.targets[0].id] = val(b.value)
            elif isinstance(b, ast.AugAssign) and isinstance(
                    b.target, ast.Name) and isinstance(
                    b.op, (ast.Add, ast.Sub)):
                cur = val(b.target)
                env[b.target.id] = cur + val(b.value) if isinstance(
                    b.op, ast.Add) else cur - val(b.value)
            elif isinstance(b, (ast.Expr, ast.Pass)):
                continue
            else:
                ok = False
        where = repo.loc(st, cls, fn.name)
        if not ok or hi_at_copy is None:
            continue
        lo_next = val(ast.Name(id=lo, ctx=ast.Load()))
        sh_next = val(ast.Name(id=sh, ctx=ast.Load()))
        if sp.expand((lo_next - sh_next) - (hi_at_copy - sh_at_copy)) == 0:
            report_ok(where, construct,
                      'the blocks read from the narrower array are '
                      'consecutive (next source start = previous source '
                      'end)')
        else:
            report_bad(
                where, construct, 'source cursor %s' % sh,
                '`%s` reads the source at `%s - %s`; after one iteration '
                'the next source start is %s but the previous block ended '
                'at %s: blocks of the source are skipped or read twice' % (
                    norm_stmt(st)[:60], lo, sh,
                    sp.expand(lo_next - sh_next),
                    sp.expand(hi_at_copy - sh_at_copy)))


def cursor_on_element_result(repo, cls, fn, loop, zeros, report_ok,
                             report_bad):
    """A running position addresses the *accumulated* vector.  The result
    that one loop element returns (`l, s = elem.method(..)`) is laid out
    from that element's own origin: reading it at the running position
    (`s[n + start:]`) is right for the first element only."""
    elems = _loop_elem_names(loop)
    running = {v for v in zeros if zeros[v] < loop.lineno
               and _assignments(loop, v)}
    if not running or not elems:
        return
    # names bound in this loop to the result of a call on the loop element
    fresh = {}
    for a in ast.walk(loop):
        if not (isinstance(a, ast.Assign) and isinstance(a.value, ast.Call)
                and isinstance(a.value.func, ast.Attribute)):
            continue
        if _innermost_loop(a, fn) is not loop:
            continue
        recv = a.value.func.value
        if not (_names(recv) & elems):
            continue
        # the element must not have been handed the running position
        if any(_names(x) & running for x in list(a.value.args) + [
                k.value for k in a.value.keywords]
                if not isinstance(x, ast.Subscript)):
            continue
        for t in a.targets:
            for x in ast.walk(t):
                if isinstance(x, ast.Name) and isinstance(x.ctx, ast.Store):
                    fresh[x.id] = a
    if not fresh:
        return
    construct = '%s.%s' % (cls, fn.name) if cls else fn.name
    for n in ast.walk(loop):
        if not (isinstance(n, ast.Subscript) and isinstance(n.ctx, ast.Load)
                and isinstance(n.value, ast.Name) and n.value.id in fresh):
            continue
        if _innermost_loop(n, fn) is not loop:
            continue
        used = _names(n.slice) & running
        # bounds bound in this iteration from a running variable
        for nm in _names(n.slice) - running:
            for d in _defs_in(loop, nm):
                if _names(d.value) & running:
                    used.add(nm)
        where = repo.loc(n, cls, fn.name)
        if used:
            report_bad(
                where, construct,
                'running position on element result %s' % n.value.id,
                '`%s` reads the result of one loop element (`%s`) at the '
                'running position `%s`, which counts the entries of all '
                'previous elements: the element\'s own result starts at its '
                'own origin, so this is right for the first element only' % (
                    U(n)[:50], norm_stmt(fresh[n.value.id])[:50],
                    sorted(used)[0]))
        else:
            report_ok(where, construct,
                      'element result `%s` is read from its own origin'
                      % U(n)[:50])


def scoped(name, classes=None, files=None, floor=1):
    """R05.4 restricted to some classes / files (same rule, own floor)."""
    def rule(ctx, repo):
        return r05_4(ctx, repo, classes=classes, files=files, floor=floor)
    rule.__name__ = name
    return rule


def r05_4(ctx, repo, classes=None, files=None, floor=24):
    rule = 'R05.4'
    n_loops = 0

    def ok(where, construct, what):
        ctx.ok(rule, where, construct, what)

    def bad(where, construct, key, msg):
        ctx.violation(rule, where, construct, key, msg)

    for rel, cls, fn in repo.all_functions():
        if rel.startswith(SKIP):
            continue
        if classes is not None and cls not in classes:
            continue
        if files is not None and rel not in files:
            continue
        fn = desugar_slices(fn)
        zeros = _zero_inits(fn)
        tables = _cumulative_tables(fn)
        parts = _partition_tables(fn)
        for loop in ast.walk(fn):
            if isinstance(loop, ast.For):
                before = len(ctx.obligations)
                if zeros:
                    analyse_loop(repo, rel, cls, fn, loop, zeros, ok, bad)
                extra_checks(repo, cls, fn, loop, zeros, ok, bad)
                merge_accumulators(repo, cls, fn, loop, ok, bad)
                boundary_slices(repo, cls, fn, loop, tables, ok, bad)
                partition_blocks(repo, cls, fn, loop, parts, ok, bad)
                shifted_copy(repo, cls, fn, loop, ok, bad)
                cursor_on_element_result(repo, cls, fn, loop, zeros, ok,
                                         bad)
                if len(ctx.obligations) > before:
                    n_loops += 1
    if n_loops < floor:
        ctx.error(rule, 'only %d loops with running variables found '
                  '(floor %d)' % (n_loops, floor))


FIXTURE = '''
def f(self, parameters):
    start = 0
    for k, m in enumerate(self._models):
        end = start + m.n_parameters()
        if k == 2:
            continue
        use(parameters[start:end])
        start = end
'''
