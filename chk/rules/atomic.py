"""Configuration calls are all-or-nothing and history independent.

R11.9   failure atomicity: in a method of a library class (constructors
        excluded: a constructor that raises leaves no object behind) no
        `raise` is reachable after the method has modified the object — a
        store to a field, a mutating call on a field, a configuration call on
        a sub-model or a self-call that writes fields.  A caller that catches
        the documented error must find the object as it was; otherwise the
        state afterwards depends on rejected calls (the public getters then
        disagree with each other: names vs counts vs selections).
        `try: <body> except: raise ...` is read as "the body did not
        complete": the handler sees the state before the `try`.

R11.10  no history-dependent shortcut: a configuration method (set_* / fix_* /
        enable_* ...) that returns early — before the stores the full path
        performs — on a test that reads a field the method itself (re)writes
        decides from what an earlier call left behind.  The shortcut is sound
        only if the test pins down every argument the full path uses; an
        argument that is read after the shortcut but does not occur in the
        test can differ between the remembered call and this one, and the
        call is then silently ignored.  A shortcut that itself rewrites a
        field from its own old value (a prefix / slice / in-place edit of the
        remembered result) makes the result depend on the call history by
        construction.
"""
import ast

from ..loader import U, norm_stmt
from ..types import Types
from ..effects import Effects, _self_field, MUTATING

SKIP = ('chi/plots', 'chi/library')
# fields that are scratch space of evaluations, not configuration
SCRATCH = {'self._simulator', 'self._has_sensitivities',
           'self._fixed_params_values'}
CONFIG_PREFIX = ('set_', 'fix_', 'enable_', 'add_', 'remove_', 'reset_')


class _Mut:
    def __init__(self, repo):
        self.repo = repo
        self.T = Types(repo)
        self.E = Effects(repo)

    def of_stmt(self, s, cls, fn):
        """Descriptions of the state modifications statement s performs."""
        out = []
        if isinstance(s, (ast.Assign, ast.AugAssign, ast.AnnAssign)):
            tg = s.targets if isinstance(s, ast.Assign) else [s.target]
            for t in tg:
                for x in (t.elts if isinstance(t, (ast.Tuple, ast.List))
                          else [t]):
                    f = _self_field(x)
                    if f:
                        out.append('store %s' % f)
        if isinstance(s, ast.Delete):
            for t in s.targets:
                f = _self_field(t)
                if f:
                    out.append('del %s' % f)
        for c in ast.walk(s):
            if not (isinstance(c, ast.Call) and isinstance(
                    c.func, ast.Attribute)):
                continue
            recv, m = c.func.value, c.func.attr
            if isinstance(recv, ast.Name) and recv.id == 'self':
                w = self.E.summary(cls, m)[0] - SCRATCH
                if w:
                    out.append('self.%s() writes %s' % (m, sorted(w)[0]))
                continue
            f = _self_field(recv)
            if not f:
                continue
            if m in MUTATING:
                out.append('%s.%s()' % (f, m))
                continue
            t = self.T.type_of(recv, cls, fn)
            tt = t[1] if t and t[0] == 'list' else t
            if tt is not None:
                ws = set()
                for K in self.T.candidates(tt):
                    ws |= self.E.summary(K, m)[0] - SCRATCH
                if ws:
                    out.append('%s.%s() writes %s' % (f, m, sorted(ws)[0]))
            elif m.startswith(CONFIG_PREFIX):
                out.append('%s.%s()' % (f, m))
        return out


def _walk(M, stmts, mutated, found, cls, fn):
    """-> mutations done when falling off the end, or None if every path
    leaves."""
    for s in stmts:
        if isinstance(s, ast.Raise):
            if mutated:
                found.append((s, list(mutated)))
            return None
        if isinstance(s, ast.Return):
            return None
        if isinstance(s, ast.If):
            pre = mutated + [m for m in M.of_stmt(
                ast.Expr(value=s.test), cls, fn) if m not in mutated]
            a = _walk(M, s.body, list(pre), found, cls, fn)
            b = _walk(M, s.orelse, list(pre), found, cls, fn)
            if a is None and b is None:
                return None
            mutated = list(dict.fromkeys((a or []) + (b or [])))
            continue
        if isinstance(s, (ast.For, ast.While)):
            a = _walk(M, s.body, list(mutated), found, cls, fn)
            if a and len(a) > len(mutated):
                # a later iteration starts from what an earlier one did
                _walk(M, s.body, list(a), found, cls, fn)
            mutated = list(dict.fromkeys(mutated + (a or [])))
            b = _walk(M, s.orelse, list(mutated), found, cls, fn)
            if b is not None:
                mutated = b
            continue
        if isinstance(s, ast.Try):
            a = _walk(M, s.body, list(mutated), found, cls, fn)
            outs = [a]
            for h in s.handlers:
                outs.append(_walk(M, h.body, list(mutated), found, cls, fn))
            live = [o for o in outs if o is not None]
            if not live:
                return None
            mutated = list(dict.fromkeys(x for o in live for x in o))
            if s.orelse:
                b = _walk(M, s.orelse, list(mutated), found, cls, fn)
                if b is None:
                    return None
                mutated = b
            if s.finalbody:
                b = _walk(M, s.finalbody, list(mutated), found, cls, fn)
                if b is None:
                    return None
                mutated = b
            continue
        if isinstance(s, ast.With):
            a = _walk(M, s.body, list(mutated), found, cls, fn)
            if a is None:
                return None
            mutated = a
            continue
        for m in M.of_stmt(s, cls, fn):
            if m not in mutated:
                mutated.append(m)
    return mutated


def _init_only(repo):
    """Private methods that are only ever called from constructors (or from
    other such helpers)."""
    callers = {}
    for rel, cls, fn in repo.all_functions():
        for c in ast.walk(fn):
            if isinstance(c, ast.Call) and isinstance(
                    c.func, ast.Attribute) and isinstance(
                    c.func.value, ast.Name) and c.func.value.id == 'self':
                callers.setdefault(c.func.attr, set()).add(fn.name)
    only = {'__init__'}
    changed = True
    while changed:
        changed = False
        for m, cs in callers.items():
            if m not in only and m.startswith('_') and cs and cs <= only:
                only.add(m)
                changed = True
    return only


def r11_9(ctx, repo):
    rule = 'R11.9'
    M = _Mut(repo)
    init_only = _init_only(repo)
    n = 0
    for rel, cls, fn in repo.all_functions():
        if rel.startswith(SKIP) or not cls or fn.name in init_only:
            continue
        if not any(isinstance(x, ast.Raise) for x in ast.walk(fn)):
            continue
        n += 1
        found = []
        _walk(M, fn.body, [], found, cls, fn)
        construct = '%s.%s' % (cls, fn.name)
        if not found:
            ctx.ok(rule, repo.loc(fn, cls, fn.name), construct,
                   'every raise precedes the first modification of the '
                   'object')
            continue
        seen = set()
        for s, muts in found:
            key = muts[0]
            if key in seen:
                continue
            seen.add(key)
            ctx.violation(
                rule, repo.loc(s, cls, fn.name), construct,
                'raise after %s' % key,
                '`%s` can be raised after the object was already modified '
                '(%s): a caller that catches the error is left with a '
                'partially reconfigured object' % (
                    norm_stmt(s)[:50], '; '.join(muts[:3])))
    if n < 60:
        ctx.error(rule, 'only %d raising methods analysed (floor 60)' % n)


# ---------------------------------------------------------------------------
def _names(e):
    return {x.id for x in ast.walk(e) if isinstance(x, ast.Name)}


def _fields_read(e):
    out = set()
    for x in ast.walk(e):
        if isinstance(x, ast.Attribute) and isinstance(
                x.value, ast.Name) and x.value.id == 'self' and isinstance(
                x.ctx, ast.Load):
            out.add('self.' + x.attr)
    return out


def r11_10(ctx, repo):
    rule = 'R11.10'
    M = _Mut(repo)
    E = M.E
    n = 0
    for rel, cls, fn in repo.all_functions():
        if rel.startswith(SKIP) or not cls:
            continue
        if not fn.name.startswith(CONFIG_PREFIX):
            continue
        writes = E.summary(cls, fn.name)[0] - SCRATCH
        if not writes:
            continue
        n += 1
        params = [a.arg for a in fn.args.args + fn.args.kwonlyargs
                  if a.arg != 'self']
        construct = '%s.%s' % (cls, fn.name)
        bad = False
        # top-level `if <test>: ...; return` shortcuts
        for i, s in enumerate(fn.body):
            if not (isinstance(s, ast.If) and s.body and isinstance(
                    s.body[-1], ast.Return)):
                continue
            rest = fn.body[i + 1:]
            if not rest:
                continue
            mem = _fields_read(s.test) & writes
            if not mem:
                continue
            # only fields the rest of the method writes make the test a
            # memory of an earlier call
            rest_w = set()
            for r_ in rest:
                for m in M.of_stmt(r_, cls, fn):
                    rest_w.add(m)
                for x in ast.walk(r_):
                    if isinstance(x, (ast.Assign, ast.AugAssign)):
                        tg = x.targets if isinstance(x, ast.Assign) \
                            else [x.target]
                        for t in tg:
                            f = _self_field(t)
                            if f:
                                rest_w.add(f)
            if not rest_w:
                continue
            # (a) the shortcut rewrites a field from its own old value
            for b in s.body:
                if isinstance(b, ast.Assign):
                    for t in b.targets:
                        f = _self_field(t)
                        if f and f in _fields_read(b.value) and f in mem:
                            bad = True
                            ctx.violation(
                                rule, repo.loc(b, cls, fn.name), construct,
                                'shortcut rewrites %s from itself' % f,
                                'when `%s` holds the method keeps a '
                                'transformed version of what an earlier call '
                                'stored in %s (`%s`) instead of recomputing '
                                'it: the configuration depends on the '
                                'history of calls, not on the arguments of '
                                'this one' % (U(s.test)[:50], f,
                                              norm_stmt(b)[:50]))
            # (b) arguments the full path uses but the test does not pin
            tn = _names(s.test)
            used = set()
            for r_ in rest:
                used |= _names(r_)
            # locals derived from parameters before the shortcut
            derived = {p: {p} for p in params}
            for b in fn.body[:i]:
                if isinstance(b, ast.Assign) and len(b.targets) == 1 \
                        and isinstance(b.targets[0], ast.Name):
                    src = set()
                    for nm in _names(b.value):
                        src |= derived.get(nm, set())
                    if src:
                        derived[b.targets[0].id] = src | derived.get(
                            b.targets[0].id, set())
            pinned = set()
            for nm in tn:
                pinned |= derived.get(nm, set())
            free = []
            for p in params:
                aliases = {nm for nm, src in derived.items() if p in src}
                if p not in pinned and (aliases & used):
                    free.append(p)
            if free and any(isinstance(c, ast.Compare) and isinstance(
                    c.ops[0], (ast.Eq, ast.Is)) or True
                    for c in ast.walk(s.test)):
                bad = True
                ctx.violation(
                    rule, repo.loc(s, cls, fn.name), construct,
                    'shortcut ignores %s' % ','.join(free),
                    'the method returns early when `%s` holds, a test on '
                    'state an earlier call left in %s; the argument(s) %s '
                    'do not occur in the test but are used by the rest of '
                    'the method: a call that differs from the remembered '
                    'one only in %s is silently ignored' % (
                        U(s.test)[:60], ', '.join(sorted(mem)),
                        ', '.join(free), ', '.join(free)))
        if not bad:
            ctx.ok(rule, repo.loc(fn, cls, fn.name), construct,
                   'no early return decided from remembered state')
    if n < 25:
        ctx.error(rule, 'only %d configuration methods analysed (floor 25)'
                  % n)


FIXTURE = '''
class Model(object):
    def set_x(self, x, y):
        if self._x == x:
            return None
        self._x = x
        self._y = y

    def set_names(self, names):
        self._names = list(names)
        if len(self._names) != self._n:
            raise ValueError('wrong length')
'''
