"""Receiver types recovered from the repository's own idioms.

A type is a pair (base class name, frozenset of excluded class names); a list
type is ('list', type).  Sources of type facts:
  * `if not isinstance(x, chi.T): raise ...`           -> x : T
  * `if isinstance(x, chi.T): raise ...`               -> x excludes T
  * `for x in <list[T]>` with an isinstance-raise body  -> the list is list[T]
  * `self._f = x | copy.deepcopy(x) | copy.copy(x) | x.copy()`
  * getter return table (get_population_model(s), get_error_model, ...)
Flow-insensitive per function; field types are unioned over the class (and its
bases)."""
import ast

from .loader import U

GETTER_RETURNS = {
    'get_population_model': ('PopulationModel', frozenset()),
    'get_population_models': ('list', ('PopulationModel', frozenset())),
    'get_error_model': ('ErrorModel', frozenset()),
    'mechanistic_model': ('MechanisticModel', frozenset()),
    'get_log_likelihood': None,
}


def _cls_of(expr, repo):
    """`chi.T` or `T` -> 'T' if it is a chi class; tuple -> list of names."""
    if isinstance(expr, ast.Tuple):
        out = []
        for e in expr.elts:
            out += _cls_of(e, repo)
        return out
    s = U(expr).split('.')[-1]
    return [s] if repo.has_cls(s) else []


def _isinstance_test(test, fn=None):
    """-> (negated, subject expr, class expr) or None.  Also recognised:
    `isinstance(x, A) or isinstance(x, B)` (= isinstance(x, (A, B))) and a
    local that was bound once to such a test."""
    neg = False
    t = test
    if isinstance(t, ast.UnaryOp) and isinstance(t.op, ast.Not):
        neg = True
        t = t.operand
    if isinstance(t, ast.Name) and fn is not None:
        defs = [a for a in ast.walk(fn) if isinstance(a, ast.Assign)
                and len(a.targets) == 1 and isinstance(a.targets[0], ast.Name)
                and a.targets[0].id == t.id]
        if len(defs) == 1:
            t = defs[0].value
            if isinstance(t, ast.UnaryOp) and isinstance(t.op, ast.Not):
                neg = not neg
                t = t.operand
    if isinstance(t, ast.Call) and isinstance(t.func, ast.Name) \
            and t.func.id == 'isinstance' and len(t.args) == 2:
        return neg, t.args[0], t.args[1]
    if isinstance(t, ast.BoolOp) and isinstance(t.op, ast.Or):
        parts = [_isinstance_test(v) for v in t.values]
        if all(p_ is not None and not p_[0] for p_ in parts) and len(
                {U(p_[1]) for p_ in parts}) == 1:
            elts = []
            for p_ in parts:
                elts += list(p_[2].elts) if isinstance(
                    p_[2], ast.Tuple) else [p_[2]]
            return neg, parts[0][1], ast.Tuple(elts=elts, ctx=ast.Load())
    return None


def _raises(body):
    return any(isinstance(s, ast.Raise) for s in body)


def _unwrap_copy(expr):
    """copy.deepcopy(x) / copy.copy(x) / x.copy() -> x"""
    if isinstance(expr, ast.Call):
        f = U(expr.func)
        if f in ('copy.deepcopy', 'copy.copy') and expr.args:
            return _unwrap_copy(expr.args[0])
        if isinstance(expr.func, ast.Attribute) and expr.func.attr == 'copy' \
                and not expr.args:
            return _unwrap_copy(expr.func.value)
    return expr


class Types:
    def __init__(self, repo):
        self.repo = repo
        self.fields = {}      # (cls, 'self._f') -> type
        self._fn_cache = {}
        self._build_fields()

    # -- per-function local facts ---------------------------------------------
    def fn_env(self, cls, fn):
        key = (cls, id(fn))
        if key in self._fn_cache:
            return self._fn_cache[key]
        env = {}
        excl = {}
        repo = self.repo
        loops = {}     # loop var -> iterable expr text
        for n in ast.walk(fn):
            if isinstance(n, ast.For) and isinstance(n.target, ast.Name):
                loops[n.target.id] = n.iter
            if isinstance(n, ast.If):
                it = _isinstance_test(n.test, fn)
                if it and _raises(n.body):
                    neg, subj, cexpr = it
                    names = _cls_of(cexpr, repo)
                    s = U(subj)
                    if neg and names:
                        env.setdefault(s, names[0] if len(names) == 1
                                       else tuple(names))
                    elif not neg:
                        excl.setdefault(s, set()).update(names)
        out = {}
        for s, base in env.items():
            if isinstance(base, tuple):
                # union of classes: keep as common base if any, else first
                out[s] = (base, frozenset(excl.get(s, ())))
            else:
                out[s] = (base, frozenset(excl.get(s, ())))
        # loop var typed in body => iterable is list of that type
        for var, it in loops.items():
            if var in out:
                out[U(it)] = ('list', out[var])
        # dict iteration idiom is ignored
        self._fn_cache[key] = out
        return out

    def _build_fields(self):
        repo = self.repo
        for cname, c in repo.classes.items():
            for mname, fn in c.methods.items():
                env = self.fn_env(cname, fn)
                for n in ast.walk(fn):
                    if isinstance(n, ast.Assign) and len(n.targets) == 1:
                        t = n.targets[0]
                        if isinstance(t, ast.Attribute) and isinstance(
                                t.value, ast.Name) and t.value.id == 'self':
                            src = U(_unwrap_copy(n.value))
                            if src in env:
                                self.fields.setdefault(
                                    (cname, 'self.' + t.attr), env[src])

    def field(self, cls, attr_text):
        for k in self.repo.mro(cls):
            if (k, attr_text) in self.fields:
                return self.fields[(k, attr_text)]
        return None

    # -- expression typing ---------------------------------------------------
    def type_of(self, expr, cls, fn, _depth=0):
        """Type of a receiver expression inside method `fn` of `cls`."""
        if _depth > 6:
            return None
        s = U(expr)
        env = self.fn_env(cls, fn)
        if s in env:
            return env[s]
        if isinstance(expr, ast.Attribute) and isinstance(
                expr.value, ast.Name) and expr.value.id == 'self' and cls:
            return self.field(cls, s)
        if isinstance(expr, ast.Call):
            inner = _unwrap_copy(expr)
            if inner is not expr:
                return self.type_of(inner, cls, fn, _depth + 1)
            if isinstance(expr.func, ast.Attribute):
                g = GETTER_RETURNS.get(expr.func.attr)
                if g is not None:
                    rt = self.type_of(expr.func.value, cls, fn, _depth + 1)
                    # getters are only trusted on chi-typed receivers or self
                    if rt is not None or U(expr.func.value) == 'self':
                        return g
            return None
        if isinstance(expr, ast.Subscript):
            t = self.type_of(expr.value, cls, fn, _depth + 1)
            if t and t[0] == 'list':
                return t[1]
            return None
        if isinstance(expr, ast.Name):
            # local: follow (flow-insensitive) assignments and for-loops
            types = []
            for n in ast.walk(fn):
                if isinstance(n, ast.Assign) and len(n.targets) == 1 \
                        and isinstance(n.targets[0], ast.Name) \
                        and n.targets[0].id == expr.id:
                    if isinstance(n.value, ast.Name) \
                            and n.value.id == expr.id:
                        continue
                    if isinstance(n.value, ast.List) and n.value.elts:
                        et = self.type_of(n.value.elts[0], cls, fn,
                                          _depth + 1)
                        if et:
                            types.append(('list', et))
                        continue
                    t = self.type_of(n.value, cls, fn, _depth + 1)
                    if t:
                        types.append(t)
                if isinstance(n, ast.For) and isinstance(n.target, ast.Name) \
                        and n.target.id == expr.id:
                    t = self.type_of(n.iter, cls, fn, _depth + 1)
                    if t and t[0] == 'list':
                        types.append(t[1])
                if isinstance(n, ast.For) and isinstance(n.target, ast.Tuple) \
                        and isinstance(n.iter, ast.Call) \
                        and U(n.iter.func) == 'enumerate' \
                        and len(n.target.elts) == 2 and isinstance(
                            n.target.elts[1], ast.Name) \
                        and n.target.elts[1].id == expr.id and n.iter.args:
                    t = self.type_of(n.iter.args[0], cls, fn, _depth + 1)
                    if t and t[0] == 'list':
                        types.append(t[1])
            if types:
                # prefer the most specific agreement; disagreement -> first
                return types[0]
        return None

    def candidates(self, t):
        """Concrete classes a value of type t may be."""
        if t is None or t[0] == 'list':
            return []
        base, excl = t
        bases = base if isinstance(base, tuple) else (base,)
        out = []
        for b in bases:
            for k in self.repo.subclasses(b):
                if any(self.repo.is_subclass(k, e) for e in excl):
                    continue
                if k not in out:
                    out.append(k)
        return out
