"""Engine G: path-sensitive walk of one method for a receiver class, with
self-/super-calls inlined (MRO-resolved), three-valued evaluation of boolean
guards over enumerated flags, and rule-specific event callbacks that update a
typestate.  Exception edges are not modelled (a `raise` ends the path and is
not an exit)."""
import ast

from .loader import U

MAX_DEPTH = 4
MAX_STATES = 400


class State:
    __slots__ = ('env', 'ts', 'trace')

    def __init__(self, env=None, ts=None, trace=()):
        self.env = dict(env or {})       # name / 'self.f' -> True/False/other
        self.ts = dict(ts or {})         # typestate facts
        self.trace = tuple(trace)

    def copy(self):
        return State(self.env, self.ts, self.trace)

    def key(self):
        return (tuple(sorted((k, repr(v)) for k, v in self.env.items())),
                tuple(sorted((k, repr(v)) for k, v in self.ts.items())))


def beval(e, env):
    """Three-valued boolean evaluation: True / False / None (unknown)."""
    if isinstance(e, ast.Constant):
        if isinstance(e.value, bool):
            return e.value
        if e.value is None:
            return False
        return None
    s = U(e)
    if s in env and isinstance(env[s], bool):
        return env[s]
    if isinstance(e, ast.Name) and ('@' + e.id) in env:
        # local bound to an expression that was unknown when assigned
        return beval(_alias(env, e.id), {k: v for k, v in env.items()
                                          if k != '@' + e.id})
    if isinstance(e, ast.UnaryOp) and isinstance(e.op, ast.Not):
        v = beval(e.operand, env)
        return None if v is None else (not v)
    if isinstance(e, ast.BoolOp):
        vs = [beval(v, env) for v in e.values]
        if isinstance(e.op, ast.And):
            if any(v is False for v in vs):
                return False
            return True if all(v is True for v in vs) else None
        if any(v is True for v in vs):
            return True
        return False if all(v is False for v in vs) else None
    if isinstance(e, ast.Call) and U(e.func) == 'bool' and e.args:
        return beval(e.args[0], env)
    if isinstance(e, ast.Compare) and len(e.ops) == 1:
        l, r = e.left, e.comparators[0]
        # `x is None` / `x is not None` with tracked None-ness
        if isinstance(r, ast.Constant) and r.value is None:
            key = U(l) + ' is None'
            if key in env and isinstance(env[key], bool):
                v = env[key]
                return v if isinstance(e.ops[0], (ast.Is, ast.Eq)) else not v
        lv, rv = beval(l, env), beval(r, env)
        if isinstance(e.ops[0], ast.Is) and isinstance(r, ast.Constant) \
                and isinstance(r.value, bool) and lv is not None:
            return lv is r.value
        if isinstance(e.ops[0], ast.IsNot) and isinstance(r, ast.Constant) \
                and isinstance(r.value, bool) and lv is not None:
            return lv is not r.value
        if isinstance(e.ops[0], (ast.Eq,)) and lv is not None \
                and rv is not None:
            return lv == rv
        if isinstance(e.ops[0], (ast.NotEq,)) and lv is not None \
                and rv is not None:
            return lv != rv
    # method returning a tracked boolean field, e.g. self.has_sensitivities()
    if isinstance(e, ast.Call) and not e.args and not e.keywords:
        key = U(e)
        if key in env and isinstance(env[key], bool):
            return env[key]
    return None


def _alias(env, name):
    return ast.parse(env['@' + name], mode='eval').body


def learn(test, env, val):
    """Record what a taken branch tells about simple flags."""
    t = test
    if isinstance(t, ast.UnaryOp) and isinstance(t.op, ast.Not):
        return learn(t.operand, env, not val)
    if isinstance(t, ast.Call) and U(t.func) == 'bool' and len(t.args) == 1:
        return learn(t.args[0], env, val)
    if isinstance(t, ast.Name) and ('@' + t.id) in env:
        a = _alias(env, t.id)
        sub = {k: v for k, v in env.items() if k != '@' + t.id}
        learn(a, sub, val)
        sub['@' + t.id] = env['@' + t.id]
        env.clear()
        env.update(sub)
        return None
    if isinstance(t, ast.Compare) and len(t.ops) == 1 and isinstance(
            t.ops[0], (ast.Eq, ast.NotEq, ast.Is, ast.IsNot)):
        # comparison of a flag with a known boolean
        l, r = t.left, t.comparators[0]
        for a, b in ((l, r), (r, l)):
            bv = beval(b, env)
            if bv is not None and beval(a, env) is None:
                same = isinstance(t.ops[0], (ast.Eq, ast.Is))
                return learn(a, env, (bv if val else not bv) if same
                             else ((not bv) if val else bv))
    if isinstance(t, (ast.Name, ast.Attribute)):
        env[U(t)] = val
    elif isinstance(t, ast.Call) and not t.args and not t.keywords:
        env[U(t)] = val
    elif isinstance(t, ast.Compare) and len(t.ops) == 1 and isinstance(
            t.comparators[0], ast.Constant) \
            and t.comparators[0].value is None:
        is_ = isinstance(t.ops[0], (ast.Is, ast.Eq))
        env[U(t.left) + ' is None'] = val if is_ else (not val)
    elif isinstance(t, ast.BoolOp):
        if isinstance(t.op, ast.And) and val:
            for v in t.values:
                learn(v, env, True)
        if isinstance(t.op, ast.Or) and not val:
            for v in t.values:
                learn(v, env, False)


class Walker:
    """Subclass and override on_assign / on_call / on_enter.

    on_call(call, state, frame) may return 'handled' to suppress inlining."""

    def __init__(self, repo, recv_cls):
        self.repo = repo
        self.recv = recv_cls
        self.truncated = False

    # hooks -----------------------------------------------------------------
    def on_assign(self, target, value, st, frame):
        pass

    def on_call(self, call, st, frame):
        return None

    def on_stmt(self, stmt, st, frame):
        pass

    def on_return_bind(self, target, retinfo, st, frame):
        pass

    # ------------------------------------------------------------------------
    def run(self, method, env=None, ts=None, after=None):
        k, fn = self.repo.resolve(self.recv, method, after=after)
        if fn is None:
            return []
        st = State(env or {}, ts or {})
        exits = self._call(k, fn, st, 0)
        return [s for _, s in exits]

    def _call(self, k, fn, st, depth):
        """-> list of (retval_node_or_None, state) at normal exits"""
        frame = dict(cls=k, fn=fn, depth=depth)
        outs, falls = self._block(fn.body, [st], frame)
        return outs + [(None, s) for s in falls]

    def _dedupe(self, states):
        seen = {}
        for s in states:
            seen.setdefault(s.key(), s)
        out = list(seen.values())
        if len(out) > MAX_STATES:
            self.truncated = True
            out = out[:MAX_STATES]
        return out

    def _block(self, stmts, states, frame):
        """-> (returns [(retnode, state)], fallthrough states)"""
        rets = []
        cur = states
        for s in stmts:
            if not cur:
                break
            nxt = []
            for st in cur:
                r, f = self._stmt(s, st, frame)
                rets += r
                nxt += f
            cur = self._dedupe(nxt)
        return rets, cur

    def _stmt(self, s, st, frame):
        frame['stmt'] = s
        if isinstance(s, ast.If):
            st = self._calls_in(s.test, st, frame)
            if st is None:
                return [], []
            v = beval(s.test, st.env)
            rets, falls = [], []
            for branch, val in ((s.body, True), (s.orelse, False)):
                if v is None or v is val:
                    s2 = st.copy()
                    learn(s.test, s2.env, val)
                    r, f = self._block(branch, [s2], frame)
                    rets += r
                    falls += f
            return rets, falls
        if isinstance(s, ast.Return):
            st2 = st
            if s.value is not None:
                st2 = self._calls_in(s.value, st, frame)
                if st2 is None:
                    return [], []
            return [(s.value, st2)], []
        if isinstance(s, ast.Raise):
            return [], []
        if isinstance(s, (ast.For, ast.While)):
            # zero or one iteration
            s1 = st.copy()
            r, f = self._block(s.body, [st.copy()], frame)
            return r, [s1] + f
        if isinstance(s, ast.Try):
            r, f = self._block(s.body, [st], frame)
            r2, f2 = self._block(s.orelse, f, frame) if s.orelse else ([], f)
            r3, f3 = self._block(s.finalbody, f2, frame) if s.finalbody \
                else ([], f2)
            return r + r2 + r3, f3
        if isinstance(s, ast.With):
            return self._block(s.body, [st], frame)
        if isinstance(s, (ast.FunctionDef, ast.ClassDef, ast.Pass,
                          ast.Import, ast.ImportFrom, ast.Global)):
            return [], [st]
        if isinstance(s, (ast.Break, ast.Continue)):
            return [], [st]
        # simple statements: calls first (may fork through inlining)
        self.on_stmt(s, st, frame)
        value = getattr(s, 'value', None)
        states = [st]
        if value is not None:
            states = self._calls_fork(value, st, frame, s)
        out = []
        for st2, retinfo in states:
            if isinstance(s, ast.Assign):
                if retinfo is not None:
                    self.on_return_bind(s.targets[0], retinfo, st2, frame)
                for t in s.targets:
                    self._assign(t, s.value, st2, frame, retinfo)
            elif isinstance(s, ast.AugAssign):
                self.on_assign(s.target, s.value, st2, frame)
            out.append(st2)
        return [], out

    def _assign(self, t, value, st, frame, retinfo):
        if isinstance(t, (ast.Tuple, ast.List)):
            for x in t.elts:
                self.on_assign(x, value, st, frame)
            return
        key = U(t)
        v = beval(value, st.env)
        if isinstance(value, ast.Constant) and value.value is None:
            st.env[key + ' is None'] = True
            st.env.pop(key, None)
        else:
            st.env.pop('@' + key, None)
            if v is not None:
                st.env[key] = v
            else:
                st.env.pop(key, None)
                if isinstance(t, ast.Name) and any(isinstance(
                        x, (ast.Call, ast.Attribute)) for x in ast.walk(
                        value)) and len(U(value)) < 200:
                    st.env['@' + key] = U(value)
            st.env.pop(key + ' is None', None)
        self.on_assign(t, value, st, frame)

    def _calls_in(self, expr, st, frame):
        res = self._calls_fork(expr, st, frame, None)
        if not res:
            return None
        return res[0][0]

    def _calls_fork(self, expr, st, frame, stmt):
        """Process calls inside expr in evaluation order (inner first);
        inlined self-calls may fork.  -> list of (state, retinfo)"""
        calls = [n for n in ast.walk(expr) if isinstance(n, ast.Call)]
        calls.reverse()
        states = [(st, None)]
        for c in calls:
            nxt = []
            for s0, _ in states:
                if isinstance(c.func, ast.Attribute) and not \
                        c.func.attr.startswith(('has_', 'get_', 'n_', 'is_',
                                                'supports_')):
                    rtxt = U(c.func.value)
                    for k in [k for k, v in s0.env.items()
                              if k.startswith('@') and rtxt in str(v)]:
                        del s0.env[k]
                h = self.on_call(c, s0, frame)
                if h == 'handled':
                    nxt.append((s0, None))
                    continue
                target = self._resolve_call(c, frame)
                if target is None or frame['depth'] >= MAX_DEPTH:
                    nxt.append((s0, None))
                    continue
                k2, f2 = target
                s1 = s0.copy()
                # bind boolean params
                saved = {k: v for k, v in s1.env.items()
                         if not k.startswith('self.')}
                fields = {k: v for k, v in s1.env.items()
                          if k.startswith('self.')}
                s1.env = dict(fields)
                params = [a.arg for a in f2.args.args][1:]
                defaults = f2.args.defaults
                dmap = dict(zip(params[len(params) - len(defaults):],
                                defaults))
                for i, p in enumerate(params):
                    a = None
                    if i < len(c.args):
                        a = c.args[i]
                    for kw in c.keywords:
                        if kw.arg == p:
                            a = kw.value
                    if a is not None:
                        v = beval(a, saved | fields)
                        if v is not None:
                            s1.env[p] = v
                        if isinstance(a, ast.Constant) and a.value is None:
                            s1.env[p + ' is None'] = True
                    elif p in dmap:
                        v = beval(dmap[p], {})
                        if isinstance(dmap[p], ast.Constant) and isinstance(
                                dmap[p].value, bool):
                            s1.env[p] = dmap[p].value
                        if isinstance(dmap[p], ast.Constant) \
                                and dmap[p].value is None:
                            s1.env[p + ' is None'] = True
                exits = self._call(k2, f2, s1, frame['depth'] + 1)
                for retnode, s2 in exits:
                    fields2 = {k: v for k, v in s2.env.items()
                               if k.startswith('self.')}
                    s2.env = dict(saved)
                    s2.env.update(fields2)
                    info = None
                    if retnode is not None:
                        info = self.ret_info(retnode, s2, k2, f2)
                    nxt.append((s2, info))
            states = nxt
            if len(states) > MAX_STATES:
                self.truncated = True
                states = states[:MAX_STATES]
        return states

    def ret_info(self, retnode, st, k, fn):
        return None

    def _resolve_call(self, c, frame):
        f = c.func
        if not isinstance(f, ast.Attribute):
            return None
        recv = f.value
        if isinstance(recv, ast.Name) and recv.id == 'self':
            k, fn = self.repo.resolve(self.recv, f.attr)
            return (k, fn) if fn is not None else None
        if isinstance(recv, ast.Call) and isinstance(recv.func, ast.Name) \
                and recv.func.id == 'super':
            k, fn = self.repo.resolve(self.recv, f.attr, after=frame['cls'])
            return (k, fn) if fn is not None else None
        return None
